// Single transient read-fault sweep over iterator walks.
// Run: SEEDS=0..50 cargo test --offline --features verif --test fuzz_fault -- --nocapture

use std::collections::BTreeMap;
use std::io::{Error, ErrorKind, Read, Result, Seek, SeekFrom};
use std::path::{Path, PathBuf};
use std::sync::atomic::{AtomicI64, AtomicU64, Ordering};
use std::sync::Arc;

use raindb::fs::{FileLock, FileSystem, InMemoryFileSystem, RandomAccessFile, ReadonlyRandomAccessFile};
use raindb::{DbOptions, RainDbIterator, ReadOptions, WriteOptions, DB};

struct Rng(u64);
impl Rng {
    fn next(&mut self) -> u64 {
        self.0 = self.0.wrapping_add(0x9E3779B97F4A7C15);
        let mut z = self.0;
        z = (z ^ (z >> 30)).wrapping_mul(0xBF58476D1CE4E5B9);
        z = (z ^ (z >> 27)).wrapping_mul(0x94D049BB133111EB);
        z ^ (z >> 31)
    }
    fn below(&mut self, n: u64) -> u64 {
        self.next() % n
    }
}

#[derive(Default)]
struct Ctl {
    /// reads/opens until failure; negative = disarmed
    countdown: AtomicI64,
    /// how many consecutive failures once triggered
    burst: AtomicI64,
    injected: AtomicU64,
}

impl Ctl {
    fn hit(&self) -> bool {
        let c = self.countdown.load(Ordering::SeqCst);
        if c < 0 {
            return false;
        }
        if c == 0 {
            let b = self.burst.fetch_sub(1, Ordering::SeqCst);
            if b <= 1 {
                self.countdown.store(-1, Ordering::SeqCst);
            }
            self.injected.fetch_add(1, Ordering::SeqCst);
            return true;
        }
        self.countdown.store(c - 1, Ordering::SeqCst);
        false
    }
}

struct FaultFs {
    inner: InMemoryFileSystem,
    ctl: Arc<Ctl>,
}

struct FaultFile {
    inner: Box<dyn ReadonlyRandomAccessFile>,
    ctl: Arc<Ctl>,
    is_table: bool,
}

impl Read for FaultFile {
    fn read(&mut self, buf: &mut [u8]) -> Result<usize> {
        self.inner.read(buf)
    }
}
impl Seek for FaultFile {
    fn seek(&mut self, pos: SeekFrom) -> Result<u64> {
        self.inner.seek(pos)
    }
}
impl ReadonlyRandomAccessFile for FaultFile {
    fn read_from(&self, buf: &mut [u8], offset: usize) -> Result<usize> {
        if self.is_table && self.ctl.hit() {
            return Err(Error::new(ErrorKind::Other, "injected read fault"));
        }
        self.inner.read_from(buf, offset)
    }
    fn len(&self) -> Result<u64> {
        self.inner.len()
    }
}

impl FileSystem for FaultFs {
    fn get_name(&self) -> String {
        "FaultFs".into()
    }
    fn create_dir(&self, path: &Path) -> Result<()> {
        self.inner.create_dir(path)
    }
    fn create_dir_all(&self, path: &Path) -> Result<()> {
        self.inner.create_dir_all(path)
    }
    fn list_dir(&self, path: &Path) -> Result<Vec<PathBuf>> {
        self.inner.list_dir(path)
    }
    fn open_file(&self, path: &Path) -> Result<Box<dyn ReadonlyRandomAccessFile>> {
        let is_table = path.extension().map_or(false, |e| e == "rdb");
        if is_table && self.ctl.hit() {
            return Err(Error::new(ErrorKind::Other, "injected open fault"));
        }
        let inner = self.inner.open_file(path)?;
        Ok(Box::new(FaultFile {
            inner,
            ctl: self.ctl.clone(),
            is_table,
        }))
    }
    fn rename(&self, from: &Path, to: &Path) -> Result<()> {
        self.inner.rename(from, to)
    }
    fn create_file(&self, path: &Path, append: bool) -> Result<Box<dyn RandomAccessFile>> {
        self.inner.create_file(path, append)
    }
    fn remove_file(&self, path: &Path) -> Result<()> {
        self.inner.remove_file(path)
    }
    fn remove_dir(&self, path: &Path) -> Result<()> {
        self.inner.remove_dir(path)
    }
    fn remove_dir_all(&self, path: &Path) -> Result<()> {
        self.inner.remove_dir_all(path)
    }
    fn get_file_size(&self, path: &Path) -> Result<u64> {
        self.inner.get_file_size(path)
    }
    fn is_dir(&self, path: &Path) -> Result<bool> {
        self.inner.is_dir(path)
    }
    fn lock_file(&self, path: &Path) -> Result<FileLock> {
        self.inner.lock_file(path)
    }
}

fn flush(db: &DB) {
    let lo: &[u8] = &[0xff, 0xff, 0xff, 0xff, 0xff];
    let hi: &[u8] = &[0xff, 0xff, 0xff, 0xff, 0xff, 0xff];
    db.compact_range(Some(lo)..Some(hi));
}

fn run_seed(seed: u64) -> (u64, u64) {
    let mut rng = Rng(seed ^ 0x5151);
    let ctl = Arc::new(Ctl::default());
    ctl.countdown.store(-1, Ordering::SeqCst);
    let fs: Arc<dyn FileSystem> = Arc::new(FaultFs {
        inner: InMemoryFileSystem::new(),
        ctl: ctl.clone(),
    });
    let block = [1usize, 32, 128, 512][rng.below(4) as usize];
    let file = [300u64, 1000, 4000][rng.below(3) as usize];
    let mk = || DbOptions {
        db_path: "fdb".to_string(),
        max_memtable_size: 100_000,
        max_file_size: file,
        max_block_size: block,
        filesystem_provider: fs.clone(),
        create_if_missing: true,
        ..DbOptions::default()
    };
    let mut db = DB::open(mk()).unwrap();
    let nkeys = 20 + rng.below(100);
    let mut model: BTreeMap<Vec<u8>, Vec<u8>> = BTreeMap::new();
    let rounds = 3 + rng.below(6);
    for r in 0..rounds {
        let n = 10 + rng.below(120);
        for _ in 0..n {
            let k = format!("k{:04}", rng.below(nkeys)).into_bytes();
            if rng.below(100) < 30 {
                db.delete(WriteOptions::default(), k.clone()).unwrap();
                model.remove(&k);
            } else {
                let v = format!("v{}.{}", r, rng.below(100000)).into_bytes();
                db.put(WriteOptions::default(), k.clone(), v.clone()).unwrap();
                model.insert(k, v);
            }
        }
        if rng.below(4) == 0 {
            db.compact_range(None..None);
        } else {
            flush(&db);
        }
    }
    let entries: Vec<(Vec<u8>, Vec<u8>)> = model.iter().map(|(k, v)| (k.clone(), v.clone())).collect();
    let tag = format!("seed {} block {} file {} entries {}", seed, block, file, entries.len());

    let mut silent_checked = 0u64;
    for trial in 0..25 {
        if trial % 5 == 0 {
            // cold table cache
            drop(db);
            db = DB::open(mk()).unwrap();
        }
        let before = ctl.injected.load(Ordering::SeqCst);
        ctl.burst.store(1 + rng.below(3) as i64, Ordering::SeqCst);
        ctl.countdown.store(rng.below(60) as i64, Ordering::SeqCst);
        let mut it = match db.new_iterator(ReadOptions {
            fill_cache: rng.below(2) == 0,
            snapshot: None,
        }) {
            Ok(it) => it,
            Err(_) => {
                ctl.countdown.store(-1, Ordering::SeqCst);
                continue;
            }
        };
        let mut pos: Option<usize> = None;
        let mut positioned = false;
        let mut errored = false; // an error was reported since the last caller seek*
        let mut trace: Vec<String> = vec![];
        for step in 0..250 {
            let c = rng.below(100);
            let can_step = positioned && !errored && pos.is_some();
            if !can_step || c < 12 {
                match rng.below(6) {
                    0 => {
                        let _ = it.seek_to_first();
                        pos = if entries.is_empty() { None } else { Some(0) };
                        trace.push("first".into());
                    }
                    1 => {
                        let _ = it.seek_to_last();
                        pos = if entries.is_empty() { None } else { Some(entries.len() - 1) };
                        trace.push("last".into());
                    }
                    _ => {
                        let t = format!("k{:04}", rng.below(nkeys + 2)).into_bytes();
                        let _ = it.seek(&t);
                        let idx = entries.partition_point(|(k, _)| k.as_slice() < t.as_slice());
                        pos = if idx < entries.len() { Some(idx) } else { None };
                        trace.push(format!("seek({})", String::from_utf8_lossy(&t)));
                    }
                }
                positioned = true;
                errored = false;
            } else if c < 56 {
                it.next();
                let p = pos.unwrap();
                pos = if p + 1 < entries.len() { Some(p + 1) } else { None };
                trace.push("next".into());
            } else {
                it.prev();
                let p = pos.unwrap();
                pos = if p > 0 { Some(p - 1) } else { None };
                trace.push("prev".into());
            }
            let status = it.status();
            if errored && status.is_none() {
                let tail: Vec<String> = trace.iter().rev().take(10).rev().cloned().collect();
                panic!("[{}] trial {} step {}: error status vanished without a caller seek; ops {:?}", tag, trial, step, tail);
            }
            if status.is_some() {
                errored = true;
                continue;
            }
            let expected = pos.map(|p| entries[p].clone());
            let actual = it.current().map(|(k, v)| (k.clone(), v.clone()));
            if it.is_valid() != expected.is_some() || actual != expected {
                let tail: Vec<String> = trace.iter().rev().take(10).rev().cloned().collect();
                let f = |e: &Option<(Vec<u8>, Vec<u8>)>| e.as_ref().map(|(k, v)| (String::from_utf8_lossy(k).to_string(), String::from_utf8_lossy(v).to_string()));
                panic!(
                    "[{}] trial {} step {}: SILENT wrong position (status None, faults injected so far {}): valid {} actual {:?} expected {:?}; ops {:?}",
                    tag, trial, step,
                    ctl.injected.load(Ordering::SeqCst) - before,
                    it.is_valid(), f(&actual), f(&expected), tail
                );
            }
            silent_checked += 1;
        }
        ctl.countdown.store(-1, Ordering::SeqCst);
        drop(it);
    }
    (ctl.injected.load(Ordering::SeqCst), silent_checked)
}

#[test]
fn fuzz_fault() {
    let spec = std::env::var("SEEDS").unwrap_or_else(|_| "0..10".to_string());
    let parts: Vec<&str> = spec.split("..").collect();
    let lo: u64 = parts[0].parse().unwrap();
    let hi: u64 = parts[1].parse().unwrap();
    let mut failures = 0;
    let mut injected = 0;
    let mut checked = 0;
    for seed in lo..hi {
        match std::panic::catch_unwind(|| run_seed(seed)) {
            Ok((i, c)) => {
                injected += i;
                checked += c;
            }
            Err(e) => {
                failures += 1;
                let msg = e
                    .downcast_ref::<String>()
                    .cloned()
                    .or_else(|| e.downcast_ref::<&str>().map(|s| s.to_string()))
                    .unwrap_or_default();
                eprintln!("FAIL seed {}: {}", seed, msg);
            }
        }
    }
    eprintln!("faults injected: {}, positions checked: {}", injected, checked);
    assert_eq!(failures, 0);
}
