// Differential fuzz of DB::new_iterator against a BTreeMap model.
// Run: SEEDS=0..200 cargo test --offline --test fuzz_iter -- --nocapture

use std::collections::BTreeMap;
use std::sync::Arc;

use raindb::fs::{FileSystem, InMemoryFileSystem};
use raindb::{Batch, DbOptions, RainDbIterator, ReadOptions, Snapshot, WriteOptions, DB};

struct Rng(u64);
impl Rng {
    fn next(&mut self) -> u64 {
        // splitmix64
        self.0 = self.0.wrapping_add(0x9E3779B97F4A7C15);
        let mut z = self.0;
        z = (z ^ (z >> 30)).wrapping_mul(0xBF58476D1CE4E5B9);
        z = (z ^ (z >> 27)).wrapping_mul(0x94D049BB133111EB);
        z ^ (z >> 31)
    }
    fn below(&mut self, n: u64) -> u64 {
        self.next() % n
    }
    fn chance(&mut self, num: u64, den: u64) -> bool {
        self.below(den) < num
    }
}

type Model = BTreeMap<Vec<u8>, Vec<u8>>;

fn make_keys(rng: &mut Rng) -> Vec<Vec<u8>> {
    let mut keys: Vec<Vec<u8>> = vec![];
    let style = rng.below(4);
    let n = 5 + rng.below(120) as usize;
    match style {
        0 => {
            for i in 0..n {
                keys.push(format!("k{:04}", i).into_bytes());
            }
        }
        1 => {
            // adversarial byte keys
            let alphabet: [u8; 5] = [0x00, 0x01, b'a', 0xfe, 0xff];
            keys.push(vec![]);
            for _ in 0..n {
                let len = rng.below(4) as usize;
                let mut k = vec![];
                for _ in 0..len {
                    k.push(alphabet[rng.below(5) as usize]);
                }
                keys.push(k);
            }
        }
        2 => {
            // long keys with shared prefixes
            let plen = 10 + rng.below(300) as usize;
            for i in 0..n {
                let mut k = vec![b'p'; plen];
                k.extend_from_slice(format!("{:03}", i).as_bytes());
                if rng.chance(1, 4) {
                    k.extend(std::iter::repeat(0xffu8).take(rng.below(5) as usize));
                }
                keys.push(k);
            }
        }
        _ => {
            for _ in 0..n {
                let len = 1 + rng.below(12) as usize;
                let mut k = vec![];
                for _ in 0..len {
                    k.push(b'a' + rng.below(3) as u8);
                }
                keys.push(k);
            }
        }
    }
    keys.sort();
    keys.dedup();
    keys
}

fn make_value(rng: &mut Rng, counter: &mut u64, big: usize) -> Vec<u8> {
    *counter += 1;
    let mut v = format!("v{}.", counter).into_bytes();
    let extra = match rng.below(10) {
        0 => rng.below(big as u64 + 1) as usize,
        1..=3 => rng.below(40) as usize,
        _ => 0,
    };
    v.extend(std::iter::repeat(b'x').take(extra));
    v
}

fn check_iter<I: RainDbIterator<Key = Vec<u8>, Error = raindb::RainDBError>>(
    tag: &str,
    iter: &mut I,
    model: &Model,
    keys: &[Vec<u8>],
    rng: &mut Rng,
    steps: usize,
    trace: &mut Vec<String>,
) {
    let entries: Vec<(&Vec<u8>, &Vec<u8>)> = model.iter().collect();
    let mut pos: Option<usize> = None;
    let mut started = false;
    for step in 0..steps {
        let valid_now = pos.is_some();
        let choice = rng.below(100);
        let mut returned: Option<Option<(Vec<u8>, Vec<u8>)>> = None;
        let opname: String;
        if !started || !valid_now || choice < 14 {
            // positioning op
            match rng.below(if started { 10 } else { 10 }) {
                0 => {
                    iter.seek_to_first().unwrap();
                    pos = if entries.is_empty() { None } else { Some(0) };
                    opname = "seek_to_first".into();
                }
                1 => {
                    iter.seek_to_last().unwrap();
                    pos = if entries.is_empty() {
                        None
                    } else {
                        Some(entries.len() - 1)
                    };
                    opname = "seek_to_last".into();
                }
                _ => {
                    let mut target = if keys.is_empty() || rng.chance(1, 10) {
                        vec![rng.below(256) as u8]
                    } else {
                        keys[rng.below(keys.len() as u64) as usize].clone()
                    };
                    match rng.below(8) {
                        0 => target.push(0),
                        1 => {
                            target.pop();
                        }
                        2 => target.push(0xff),
                        _ => {}
                    }
                    iter.seek(&target).unwrap();
                    let idx = entries.partition_point(|(k, _)| k.as_slice() < target.as_slice());
                    pos = if idx < entries.len() { Some(idx) } else { None };
                    opname = format!("seek({:?})", String::from_utf8_lossy(&target));
                }
            }
            started = true;
        } else if choice < 57 {
            let r = iter.next().map(|(k, v)| (k.clone(), v.clone()));
            returned = Some(r);
            let p = pos.unwrap();
            pos = if p + 1 < entries.len() { Some(p + 1) } else { None };
            opname = "next".into();
        } else {
            let r = iter.prev().map(|(k, v)| (k.clone(), v.clone()));
            returned = Some(r);
            let p = pos.unwrap();
            pos = if p > 0 { Some(p - 1) } else { None };
            opname = "prev".into();
        }
        trace.push(opname.clone());

        let expected = pos.map(|p| (entries[p].0.clone(), entries[p].1.clone()));
        let actual = iter.current().map(|(k, v)| (k.clone(), v.clone()));
        let fmt = |e: &Option<(Vec<u8>, Vec<u8>)>| {
            e.as_ref().map(|(k, v)| {
                (
                    String::from_utf8_lossy(k).to_string(),
                    String::from_utf8_lossy(&v[..v.len().min(12)]).to_string(),
                )
            })
        };
        if iter.is_valid() != expected.is_some() || actual != expected {
            let tail: Vec<String> = trace.iter().rev().take(12).rev().cloned().collect();
            panic!(
                "[{}] step {} op {}: valid={} actual={:?} expected={:?}; recent ops: {:?}",
                tag,
                step,
                opname,
                iter.is_valid(),
                fmt(&actual),
                fmt(&expected),
                tail
            );
        }
        if let Some(r) = returned {
            if r != expected {
                panic!(
                    "[{}] step {} op {}: returned {:?} expected {:?}",
                    tag,
                    step,
                    opname,
                    fmt(&r),
                    fmt(&expected)
                );
            }
        }
        if let Some(err) = iter.status() {
            panic!("[{}] step {} op {}: status {:?}", tag, step, opname, err);
        }
    }
}

fn options(fs: &Arc<dyn FileSystem>, reuse: bool, fixed: Option<(usize, u64, usize)>) -> DbOptions {
    let (mem, file, block) = fixed.unwrap();
    let fs_dyn: Arc<dyn FileSystem> = fs.clone();
    DbOptions {
        reuse_log_files: reuse,
        db_path: "fuzzdb".to_string(),
        max_memtable_size: mem,
        max_file_size: file,
        max_block_size: block,
        filesystem_provider: fs_dyn,
        create_if_missing: true,
        ..DbOptions::default()
    }
}

fn run_seed(seed: u64) {
    let mut rng = Rng(seed.wrapping_mul(0x1234567) ^ 0xdeadbeef);
    let v2 = std::env::var("V2").is_ok();
    let use_disk = v2 && seed % 4 == 0;
    let fs: Arc<dyn FileSystem> = if use_disk {
        Arc::new(raindb::fs::TmpFileSystem::new(Some(std::path::Path::new(
            "/tmp/a3/C04/target/tmpdbs",
        ))))
    } else {
        Arc::new(InMemoryFileSystem::new())
    };
    let reuse = !(v2 && seed % 3 == 0);
    let change_opts = v2 && seed % 2 == 1;
    let concurrent = v2;
    let flush_heavy = v2 && seed % 5 < 2;
    let mut mem = [400usize, 1000, 3000, 10_000, 64_000][rng.below(5) as usize];
    let mut file = [200u64, 600, 2000, 8000, 100_000][rng.below(5) as usize];
    let mut block = [1usize, 16, 64, 256, 1024, 4096][rng.below(6) as usize];
    let big = [0usize, 100, 600, 5000][rng.below(4) as usize];
    let keys = make_keys(&mut rng);
    let del_pct = [5u64, 20, 45, 70][rng.below(4) as usize];
    let n_ops = 200 + rng.below(1500) as usize;
    let tag = format!(
        "seed {} mem {} file {} block {} keys {} del {} ops {}",
        seed,
        mem,
        file,
        block,
        keys.len(),
        del_pct,
        n_ops
    );
    if std::env::var("VERBOSE").is_ok() {
        eprintln!("{}", tag);
    }

    let mut db = Some(DB::open(options(&fs, reuse, Some((mem, file, block)))).unwrap());
    let mut model: Model = BTreeMap::new();
    let mut counter = 0u64;
    let mut snaps: Vec<(Snapshot, Model)> = vec![];
    let mut trace: Vec<String> = vec![];

    for op_i in 0..n_ops {
        let d = db.as_ref().unwrap();
        let c = rng.below(1000);
        if c < 700 {
            let k = keys[rng.below(keys.len() as u64) as usize].clone();
            if rng.below(100) < del_pct {
                d.delete(WriteOptions::default(), k.clone()).unwrap();
                model.remove(&k);
            } else {
                let v = make_value(&mut rng, &mut counter, big);
                d.put(WriteOptions::default(), k.clone(), v.clone()).unwrap();
                model.insert(k, v);
            }
        } else if c < 800 {
            let mut b = Batch::new();
            let n = rng.below(20);
            for _ in 0..n {
                let k = keys[rng.below(keys.len() as u64) as usize].clone();
                if rng.below(100) < del_pct {
                    b.add_delete(k.clone());
                    model.remove(&k);
                } else {
                    let v = make_value(&mut rng, &mut counter, big);
                    b.add_put(k.clone(), v.clone());
                    model.insert(k, v);
                }
            }
            d.apply(WriteOptions::default(), b).unwrap();
        } else if c < 815 {
            // run deletion of a contiguous range of keys
            let start = rng.below(keys.len() as u64) as usize;
            let len = 1 + rng.below(30) as usize;
            for k in keys.iter().skip(start).take(len) {
                d.delete(WriteOptions::default(), k.clone()).unwrap();
                model.remove(k);
            }
        } else if c < 835 || (flush_heavy && c >= 960 && c < 985) {
            // flush only
            let lo: &[u8] = &[0xff, 0xff, 0xff, 0xff, 0xff];
            let hi: &[u8] = &[0xff, 0xff, 0xff, 0xff, 0xff, 0xff];
            d.compact_range(Some(lo)..Some(hi));
        } else if c < 845 {
            d.compact_range(None..None);
        } else if c < 860 {
            let a = keys[rng.below(keys.len() as u64) as usize].clone();
            let b = keys[rng.below(keys.len() as u64) as usize].clone();
            let (a, b) = if a <= b { (a, b) } else { (b, a) };
            match rng.below(3) {
                0 => d.compact_range(Some(a.as_slice())..Some(b.as_slice())),
                1 => d.compact_range(None..Some(b.as_slice())),
                _ => d.compact_range(Some(a.as_slice())..None),
            }
        } else if c < 880 {
            if snaps.len() < 4 {
                snaps.push((d.get_snapshot(), model.clone()));
            } else {
                let idx = rng.below(snaps.len() as u64) as usize;
                let (s, _) = snaps.remove(idx);
                d.release_snapshot(s);
            }
        } else if c < 895 {
            // reopen
            for (s, _) in snaps.drain(..) {
                d.release_snapshot(s);
            }
            drop(db.take());
            if change_opts {
                mem = [400usize, 1000, 3000, 10_000, 64_000][rng.below(5) as usize];
                file = [200u64, 600, 2000, 8000, 100_000][rng.below(5) as usize];
                block = [1usize, 16, 64, 256, 1024, 4096][rng.below(6) as usize];
            }
            db = Some(DB::open(options(&fs, reuse, Some((mem, file, block)))).unwrap());
        } else if c < 960 {
            let fill_cache = rng.chance(1, 2);
            let mut it = d
                .new_iterator(ReadOptions {
                    fill_cache,
                    snapshot: None,
                })
                .unwrap();
            let snapshot_model = model.clone();
            // sometimes write more while the iterator is alive
            if rng.chance(1, 3) {
                let extra = rng.below(60);
                for _ in 0..extra {
                    let k = keys[rng.below(keys.len() as u64) as usize].clone();
                    if rng.below(100) < del_pct {
                        d.delete(WriteOptions::default(), k.clone()).unwrap();
                        model.remove(&k);
                    } else {
                        let v = make_value(&mut rng, &mut counter, big);
                        d.put(WriteOptions::default(), k.clone(), v.clone()).unwrap();
                        model.insert(k, v);
                    }
                }
                if rng.chance(1, 3) {
                    d.compact_range(None..None);
                }
            }
            trace.clear();
            let steps = 30 + rng.below(300) as usize;
            if concurrent && rng.chance(1, 2) {
                let wseed = rng.next();
                let keys_ref = &keys;
                let applied: Vec<(Vec<u8>, Option<Vec<u8>>)> = std::thread::scope(|sc| {
                    let h = sc.spawn(move || {
                        let mut wr = Rng(wseed);
                        let mut out = vec![];
                        let n = 20 + wr.below(150);
                        for j in 0..n {
                            let k = keys_ref[wr.below(keys_ref.len() as u64) as usize].clone();
                            if wr.below(100) < del_pct {
                                d.delete(WriteOptions::default(), k.clone()).unwrap();
                                out.push((k, None));
                            } else {
                                let mut v = format!("c{}.{}", wseed, j).into_bytes();
                                v.extend(std::iter::repeat(b'y').take(wr.below(big as u64 + 20) as usize));
                                d.put(WriteOptions::default(), k.clone(), v.clone()).unwrap();
                                out.push((k, Some(v)));
                            }
                            if wr.chance(1, 60) {
                                d.compact_range(None..None);
                            }
                        }
                        out
                    });
                    check_iter(
                        &format!("{} op#{} live-iter-concurrent", tag, op_i),
                        &mut it,
                        &snapshot_model,
                        keys_ref,
                        &mut rng,
                        steps,
                        &mut trace,
                    );
                    h.join().unwrap()
                });
                for (k, v) in applied {
                    match v {
                        Some(v) => {
                            model.insert(k, v);
                        }
                        None => {
                            model.remove(&k);
                        }
                    }
                }
            } else {
            check_iter(
                &format!("{} op#{} live-iter", tag, op_i),
                &mut it,
                &snapshot_model,
                &keys,
                &mut rng,
                steps,
                &mut trace,
            );
            }
        } else if !snaps.is_empty() {
            let idx = rng.below(snaps.len() as u64) as usize;
            let (s, m) = &snaps[idx];
            let mut it = d
                .new_iterator(ReadOptions {
                    fill_cache: true,
                    snapshot: Some(s.clone()),
                })
                .unwrap();
            trace.clear();
            let steps = 30 + rng.below(200) as usize;
            check_iter(
                &format!("{} op#{} snap-iter", tag, op_i),
                &mut it,
                m,
                &keys,
                &mut rng,
                steps,
                &mut trace,
            );
        }
    }

    // Final thorough check: full forward/backward and zig-zag
    let d = db.as_ref().unwrap();
    if std::env::var("VERBOSE").is_ok() {
        let lv: Vec<String> = (0..7)
            .map(|l| d.get_descriptor(raindb::db::DatabaseDescriptor::NumFilesAtLevel(l)).unwrap())
            .collect();
        eprintln!("  final files per level: {:?} model keys {}", lv, model.len());
    }
    let mut it = d.new_iterator(ReadOptions::default()).unwrap();
    trace.clear();
    check_iter(&format!("{} final", tag), &mut it, &model, &keys, &mut rng, 600, &mut trace);
    drop(it);
    for (s, _) in snaps.drain(..) {
        d.release_snapshot(s);
    }
}

#[cfg(feature = "verif")]
struct Jitter(std::sync::atomic::AtomicU64);
#[cfg(feature = "verif")]
impl raindb::verif::Handler for Jitter {
    fn pause(&self, _point: &'static str, _args: &[u64]) {
        let n = self.0.fetch_add(0x9E3779B97F4A7C15, std::sync::atomic::Ordering::Relaxed);
        let mut z = n;
        z = (z ^ (z >> 30)).wrapping_mul(0xBF58476D1CE4E5B9);
        z = (z ^ (z >> 27)).wrapping_mul(0x94D049BB133111EB);
        z ^= z >> 31;
        match z % 8 {
            0 => std::thread::sleep(std::time::Duration::from_micros(z % 3000)),
            1 | 2 => std::thread::yield_now(),
            _ => {}
        }
    }
    fn note(&self, _point: &'static str, _args: &[u64]) {}
}

#[test]
fn fuzz() {
    #[cfg(feature = "verif")]
    if std::env::var("V3").is_ok() {
        raindb::verif::set_handler(Some(Arc::new(Jitter(std::sync::atomic::AtomicU64::new(1)))));
    }
    let spec = std::env::var("SEEDS").unwrap_or_else(|_| "0..20".to_string());
    let parts: Vec<&str> = spec.split("..").collect();
    let lo: u64 = parts[0].parse().unwrap();
    let hi: u64 = parts[1].parse().unwrap();
    let mut failures = 0;
    for seed in lo..hi {
        let r = std::panic::catch_unwind(|| run_seed(seed));
        if let Err(e) = r {
            failures += 1;
            let msg = e
                .downcast_ref::<String>()
                .cloned()
                .or_else(|| e.downcast_ref::<&str>().map(|s| s.to_string()))
                .unwrap_or_default();
            eprintln!("FAIL seed {}: {}", seed, msg);
        }
    }
    assert_eq!(failures, 0, "{} seeds failed", failures);
}
