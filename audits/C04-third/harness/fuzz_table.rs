// Differential fuzz of the table cursor (TwoLevelIterator) against a sorted Vec.
// Run: SEEDS=0..300 cargo test --offline --features verif --test fuzz_table -- --nocapture
#![cfg(feature = "verif")]

use std::sync::Arc;

use raindb::fs::{FileSystem, InMemoryFileSystem};
use raindb::verif::table;
use raindb::{DbOptions, Operation};

struct Rng(u64);
impl Rng {
    fn next(&mut self) -> u64 {
        self.0 = self.0.wrapping_add(0x9E3779B97F4A7C15);
        let mut z = self.0;
        z = (z ^ (z >> 30)).wrapping_mul(0xBF58476D1CE4E5B9);
        z = (z ^ (z >> 27)).wrapping_mul(0x94D049BB133111EB);
        z ^ (z >> 31)
    }
    fn below(&mut self, n: u64) -> u64 {
        self.next() % n
    }
}

fn run_seed(seed: u64) {
    let mut rng = Rng(seed ^ 0xabcdef);
    let fs: Arc<dyn FileSystem> = Arc::new(InMemoryFileSystem::new());
    let block = [1usize, 8, 40, 200, 1000, 4096][rng.below(6) as usize];
    let options = DbOptions {
        db_path: "t".to_string(),
        max_block_size: block,
        filesystem_provider: fs.clone(),
        create_if_missing: true,
        ..DbOptions::default()
    };
    fs.create_dir_all(std::path::Path::new("t")).unwrap();

    // user keys
    let alphabet: [u8; 5] = [0x00, 0x01, b'a', 0xfe, 0xff];
    let nkeys = 1 + rng.below(80) as usize;
    let mut ukeys: Vec<Vec<u8>> = vec![];
    let style = rng.below(3);
    for i in 0..nkeys {
        let k = match style {
            0 => format!("key{:05}", i * 3).into_bytes(),
            1 => {
                let len = rng.below(5) as usize;
                (0..len).map(|_| alphabet[rng.below(5) as usize]).collect()
            }
            _ => {
                let mut k = vec![b'p'; 1 + rng.below(200) as usize];
                k.extend_from_slice(format!("{:03}", i).as_bytes());
                k
            }
        };
        ukeys.push(k);
    }
    ukeys.sort();
    ukeys.dedup();
    let mut entries: Vec<table::Entry> = vec![];
    let mut seq_base = 1_000_000u64;
    for k in ukeys.iter() {
        let versions = if rng.below(4) == 0 { 1 + rng.below(40) } else { 1 + rng.below(2) };
        let mut seq = seq_base + rng.below(1000);
        seq_base += 7;
        for _ in 0..versions {
            let op = if rng.below(3) == 0 { Operation::Delete } else { Operation::Put };
            let vlen = match rng.below(6) {
                0 => rng.below(3000) as usize,
                _ => rng.below(20) as usize,
            };
            let value = if op == Operation::Delete { vec![] } else { vec![b'v'; vlen] };
            entries.push((k.clone(), seq, op, value));
            if seq == 0 {
                break;
            }
            seq -= 1 + rng.below(seq.min(50));
        }
    }
    // strictly sorted by (key asc, seq desc)
    entries.sort_by(|a, b| a.0.cmp(&b.0).then(b.1.cmp(&a.1)));
    entries.dedup_by(|a, b| a.0 == b.0 && a.1 == b.1);

    table::build(&options, 5, &entries).unwrap();
    let reader = table::open(&options, 5).unwrap();
    let mut cur = reader.cursor(rng.below(2) == 0);

    let mut pos: Option<usize> = None;
    let tag = format!("seed {} block {} entries {}", seed, block, entries.len());
    let mut trace: Vec<String> = vec![];
    for step in 0..800 {
        let c = rng.below(100);
        let mut ret: Option<Option<(Vec<u8>, u64)>> = None;
        if c < 10 {
            cur.seek_to_first().unwrap();
            pos = if entries.is_empty() { None } else { Some(0) };
            trace.push("first".into());
        } else if c < 20 {
            cur.seek_to_last().unwrap();
            pos = if entries.is_empty() { None } else { Some(entries.len() - 1) };
            trace.push("last".into());
        } else if c < 40 {
            let mut k = if rng.below(8) == 0 {
                vec![rng.below(256) as u8]
            } else {
                ukeys[rng.below(ukeys.len() as u64) as usize].clone()
            };
            match rng.below(8) {
                0 => k.push(0),
                1 => {
                    k.pop();
                }
                2 => k.push(0xff),
                _ => {}
            }
            let seq = match rng.below(4) {
                0 => u64::MAX,
                1 => 0,
                _ => 999_000 + rng.below(3000),
            };
            cur.seek(&k, seq).unwrap();
            let idx = entries.partition_point(|e| {
                e.0.as_slice() < k.as_slice() || (e.0 == k && e.1 > seq)
            });
            pos = if idx < entries.len() { Some(idx) } else { None };
            trace.push(format!("seek({:?},{})", k, seq));
        } else if c < 70 {
            let r = cur.next().map(|(k, _)| (k.user_key, k.sequence));
            ret = Some(r);
            pos = match pos {
                Some(p) if p + 1 < entries.len() => Some(p + 1),
                _ => None,
            };
            trace.push("next".into());
        } else {
            let r = cur.prev().map(|(k, _)| (k.user_key, k.sequence));
            ret = Some(r);
            pos = match pos {
                Some(p) if p > 0 => Some(p - 1),
                _ => None,
            };
            trace.push("prev".into());
        }
        let expected = pos.map(|p| (entries[p].0.clone(), entries[p].1, entries[p].2, entries[p].3.clone()));
        let actual = cur
            .current()
            .map(|(k, v)| (k.user_key, k.sequence, k.operation, v));
        if cur.is_valid() != expected.is_some() || actual != expected {
            let tail: Vec<String> = trace.iter().rev().take(8).rev().cloned().collect();
            panic!(
                "[{}] step {}: valid {} actual {:?} expected {:?} ops {:?}",
                tag,
                step,
                cur.is_valid(),
                actual.map(|a| (a.0, a.1)),
                expected.map(|a| (a.0, a.1)),
                tail
            );
        }
        if let Some(r) = ret {
            let e = pos.map(|p| (entries[p].0.clone(), entries[p].1));
            assert_eq!(r, e, "[{}] step {} return value", tag, step);
        }
    }
}

#[test]
fn fuzz_table() {
    let spec = std::env::var("SEEDS").unwrap_or_else(|_| "0..50".to_string());
    let parts: Vec<&str> = spec.split("..").collect();
    let lo: u64 = parts[0].parse().unwrap();
    let hi: u64 = parts[1].parse().unwrap();
    let mut failures = 0;
    for seed in lo..hi {
        if let Err(e) = std::panic::catch_unwind(|| run_seed(seed)) {
            failures += 1;
            let msg = e
                .downcast_ref::<String>()
                .cloned()
                .or_else(|| e.downcast_ref::<&str>().map(|s| s.to_string()))
                .unwrap_or_default();
            eprintln!("FAIL seed {}: {}", seed, msg);
        }
    }
    assert_eq!(failures, 0);
}
