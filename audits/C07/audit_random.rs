//! Randomized differential harness for the property "compaction and flushing are invisible to
//! readers". A model (BTreeMap) is kept next to the database. After every few operations the full
//! contents at the latest state and at every live snapshot are compared (point gets, forward scan,
//! backward scan).

use std::collections::BTreeMap;
use std::sync::Arc;

use raindb::fs::{FileSystem, InMemoryFileSystem};
use raindb::{Batch, DbOptions, RainDBError, RainDbIterator, ReadOptions, Snapshot, WriteOptions, DB};

type Model = BTreeMap<Vec<u8>, Vec<u8>>;

struct Rng(u64);
impl Rng {
    fn next(&mut self) -> u64 {
        // xorshift64*
        self.0 ^= self.0 >> 12;
        self.0 ^= self.0 << 25;
        self.0 ^= self.0 >> 27;
        self.0.wrapping_mul(0x2545F4914F6CDD1D)
    }
    fn below(&mut self, n: u64) -> u64 {
        self.next() % n
    }
}

fn key_space(variant: u64) -> Vec<Vec<u8>> {
    let mut keys: Vec<Vec<u8>> = vec![];
    match variant % 3 {
        0 => {
            for i in 0..30u32 {
                keys.push(format!("k{:03}", i).into_bytes());
            }
        }
        1 => {
            keys.push(vec![]);
            keys.push(vec![0]);
            keys.push(vec![0, 0]);
            keys.push(vec![0xff]);
            keys.push(vec![0xff, 0xff]);
            keys.push(vec![0xff, 0xff, 0xff]);
            keys.push(vec![0xff, 0x00]);
            keys.push(vec![0xfe, 0xff]);
            for i in 0..12u32 {
                keys.push(format!("a{}", i).into_bytes());
                keys.push(format!("a{}x", i).into_bytes());
            }
        }
        _ => {
            for i in 0..8u32 {
                keys.push(format!("key{}", i).into_bytes());
            }
        }
    }
    keys.sort();
    keys.dedup();
    keys
}

fn check_view(
    db: &DB,
    snapshot: Option<&Snapshot>,
    model: &Model,
    keys: &[Vec<u8>],
    context: &str,
    walk_seed: u64,
) -> Result<(), String> {
    let read_options = || ReadOptions {
        fill_cache: true,
        snapshot: snapshot.cloned(),
    };

    // Point lookups
    for key in keys {
        let expected = model.get(key);
        match db.get(read_options(), key) {
            Ok(value) => {
                if expected != Some(&value) {
                    return Err(format!(
                        "{context}: get({key:?}) returned Some(len {}, head {:?}) but the property requires {:?}",
                        value.len(),
                        &value[..value.len().min(8)],
                        expected.map(|v| (v.len(), v[..v.len().min(8)].to_vec()))
                    ));
                }
            }
            Err(RainDBError::KeyNotFound) => {
                if let Some(v) = expected {
                    return Err(format!(
                        "{context}: get({key:?}) returned KeyNotFound but the property requires a value of len {}",
                        v.len()
                    ));
                }
            }
            Err(other) => return Err(format!("{context}: get({key:?}) failed: {other}")),
        }
    }

    // Forward scan
    let mut iter = db
        .new_iterator(read_options())
        .map_err(|e| format!("{context}: new_iterator failed: {e}"))?;
    iter.seek_to_first()
        .map_err(|e| format!("{context}: seek_to_first failed: {e}"))?;
    let mut scanned: Vec<(Vec<u8>, Vec<u8>)> = vec![];
    while iter.is_valid() {
        let (k, v) = iter.current().unwrap();
        scanned.push((k.clone(), v.clone()));
        iter.next();
    }
    if let Some(err) = iter.status() {
        return Err(format!("{context}: forward scan ended with error {err}"));
    }
    let expected: Vec<(Vec<u8>, Vec<u8>)> =
        model.iter().map(|(k, v)| (k.clone(), v.clone())).collect();
    if scanned != expected {
        let got_keys: Vec<&Vec<u8>> = scanned.iter().map(|e| &e.0).collect();
        let want_keys: Vec<&Vec<u8>> = expected.iter().map(|e| &e.0).collect();
        return Err(format!(
            "{context}: forward scan differs from the required contents.\n got keys {got_keys:?}\nwant keys {want_keys:?}\n(values differ: {})",
            got_keys == want_keys
        ));
    }

    // Backward scan
    iter.seek_to_last()
        .map_err(|e| format!("{context}: seek_to_last failed: {e}"))?;
    let mut scanned_rev: Vec<(Vec<u8>, Vec<u8>)> = vec![];
    while iter.is_valid() {
        let (k, v) = iter.current().unwrap();
        scanned_rev.push((k.clone(), v.clone()));
        iter.prev();
    }
    if let Some(err) = iter.status() {
        return Err(format!("{context}: backward scan ended with error {err}"));
    }
    scanned_rev.reverse();
    if scanned_rev != expected {
        let got_keys: Vec<&Vec<u8>> = scanned_rev.iter().map(|e| &e.0).collect();
        let want_keys: Vec<&Vec<u8>> = expected.iter().map(|e| &e.0).collect();
        return Err(format!(
            "{context}: backward scan differs from the required contents.\n got keys {got_keys:?}\nwant keys {want_keys:?}"
        ));
    }

    // Seeks (to keys of the key space and to neighbours that are not in it)
    let mut seek_targets: Vec<Vec<u8>> = keys.to_vec();
    for key in keys.iter().step_by(3) {
        let mut longer = key.clone();
        longer.push(0);
        seek_targets.push(longer);
        let mut shorter = key.clone();
        shorter.pop();
        seek_targets.push(shorter);
    }
    for key in &seek_targets {
        iter.seek(key)
            .map_err(|e| format!("{context}: seek failed: {e}"))?;
        let expected = model.range(key.clone()..).next();
        let got = if iter.is_valid() {
            let (k, v) = iter.current().unwrap();
            Some((k.clone(), v.clone()))
        } else {
            None
        };
        let expected = expected.map(|(k, v)| (k.clone(), v.clone()));
        if got != expected {
            return Err(format!(
                "{context}: seek({key:?}) landed on {:?} but the property requires {:?}",
                got.map(|e| e.0),
                expected.map(|e| e.0)
            ));
        }
    }

    // Random walk with direction changes, compared to a cursor over the model
    let entries: Vec<(Vec<u8>, Vec<u8>)> = expected_all(model);
    let mut rng = Rng(walk_seed | 1);
    let mut pos: Option<usize> = None; // index into entries
    let mut trace: Vec<String> = vec![];
    for _ in 0..60 {
        let choice = rng.below(10);
        if pos.is_none() || choice == 0 {
            match rng.below(3) {
                0 => {
                    iter.seek_to_first().map_err(|e| format!("{context}: walk seek_to_first failed {e}"))?;
                    pos = if entries.is_empty() { None } else { Some(0) };
                    trace.push("first".into());
                }
                1 => {
                    iter.seek_to_last().map_err(|e| format!("{context}: walk seek_to_last failed {e}"))?;
                    pos = if entries.is_empty() { None } else { Some(entries.len() - 1) };
                    trace.push("last".into());
                }
                _ => {
                    let key = &keys[rng.below(keys.len() as u64) as usize];
                    iter.seek(key).map_err(|e| format!("{context}: walk seek failed {e}"))?;
                    pos = entries.iter().position(|e| &e.0 >= key);
                    trace.push(format!("seek({key:?})"));
                }
            }
        } else if choice < 6 {
            iter.next();
            let p = pos.unwrap() + 1;
            pos = if p < entries.len() { Some(p) } else { None };
            trace.push("next".into());
        } else {
            iter.prev();
            let p = pos.unwrap();
            pos = if p > 0 { Some(p - 1) } else { None };
            trace.push("prev".into());
        }
        let got = if iter.is_valid() {
            let (k, v) = iter.current().unwrap();
            Some((k.clone(), v.clone()))
        } else {
            None
        };
        let want = pos.map(|p| entries[p].clone());
        if got != want {
            return Err(format!(
                "{context}: iterator walk {:?} landed on {:?} but the property requires {:?}",
                &trace[trace.len().saturating_sub(8)..],
                got.map(|e| e.0),
                want.map(|e| e.0)
            ));
        }
    }

    Ok(())
}

fn expected_all(model: &Model) -> Vec<(Vec<u8>, Vec<u8>)> {
    model.iter().map(|(k, v)| (k.clone(), v.clone())).collect()
}


#[cfg(feature = "verif")]
fn put_varint(buf: &mut Vec<u8>, mut v: u64) {
    while v >= 0x80 {
        buf.push((v as u8) | 0x80);
        v >>= 7;
    }
    buf.push(v as u8);
}

#[cfg(feature = "verif")]
fn encode_key(key: &raindb::verif::KeyInfo) -> Vec<u8> {
    let mut out = key.user_key.clone();
    out.extend_from_slice(&key.sequence.to_le_bytes());
    out.push(match key.operation {
        raindb::Operation::Delete => 0,
        raindb::Operation::Put => 1,
    });
    out
}

#[cfg(feature = "verif")]
fn file_number_of(path: &std::path::Path) -> Option<u64> {
    let stem = path.file_stem()?.to_str()?;
    let digits: String = stem.chars().filter(|c| c.is_ascii_digit()).collect();
    digits.parse().ok()
}

/// Close the database and rewrite its manifest so that the non-empty levels >= 1 are moved to
/// randomly chosen deeper levels (order of levels preserved, so the layout stays a legal LSM shape:
/// newer data above older data, no overlaps inside a level). Level 1 only fills up past 10 MiB in
/// RainDB, so this is the cheap way to exercise levels 3..6.
#[cfg(feature = "verif")]
fn relocate_levels(db: DB, options: &DbOptions, rng: &mut Rng) -> Result<String, String> {
    use std::io::Write;
    for _ in 0..20000 {
        let probe = db.verif_probe();
        if !probe.background_compaction_scheduled && !probe.has_immutable_memtable {
            break;
        }
        std::thread::sleep(std::time::Duration::from_millis(1));
    }
    let files = db.verif_files();
    let probe = db.verif_probe();
    if probe.background_compaction_scheduled || probe.has_immutable_memtable {
        return Err("could not quiesce the database".to_string());
    }
    drop(db);

    let fs = options.filesystem_provider();
    let root = std::path::PathBuf::from(options.db_path());
    let mut max_number: u64 = 0;
    for dir in [root.clone(), root.join("wal"), root.join("data")] {
        for path in fs.list_dir(&dir).map_err(|e| e.to_string())? {
            if let Some(n) = file_number_of(&path) {
                max_number = max_number.max(n);
            }
        }
    }

    let mut used: Vec<usize> = files.iter().map(|f| f.level).filter(|l| *l >= 1).collect();
    used.sort_unstable();
    used.dedup();
    let mut mapping: BTreeMap<usize, usize> = BTreeMap::new();
    mapping.insert(0, 0);
    let mut upper = 6usize;
    for level in used.iter().rev() {
        let lo = *level;
        let hi = upper;
        if hi < lo {
            return Err(format!("cannot relocate: {used:?}"));
        }
        let target = lo + (rng.below((hi - lo + 1) as u64) as usize).min(rng.below(3) as usize);
        mapping.insert(*level, target);
        if target == 0 {
            break;
        }
        upper = target - 1;
    }

    let manifest_number = max_number + 1;
    let mut record: Vec<u8> = vec![];
    put_varint(&mut record, 2);
    put_varint(&mut record, probe.curr_wal_number);
    put_varint(&mut record, 3);
    put_varint(&mut record, manifest_number + 1);
    put_varint(&mut record, 4);
    put_varint(&mut record, probe.prev_sequence_number);
    for file in &files {
        put_varint(&mut record, 7);
        put_varint(&mut record, mapping[&file.level] as u64);
        put_varint(&mut record, file.number);
        put_varint(&mut record, file.size);
        let smallest = encode_key(&file.smallest);
        put_varint(&mut record, smallest.len() as u64);
        record.extend_from_slice(&smallest);
        let largest = encode_key(&file.largest);
        put_varint(&mut record, largest.len() as u64);
        record.extend_from_slice(&largest);
    }

    let manifest_name = format!("MANIFEST-{manifest_number}.manifest");
    let manifest_path = root.join(&manifest_name);
    let mut writer = raindb::verif::log::Writer::new(Arc::clone(&fs), &manifest_path, false)
        .map_err(|e| e.to_string())?;
    writer.append(&record).map_err(|e| e.to_string())?;
    drop(writer);
    let mut current = fs
        .create_file(&root.join("CURRENT"), false)
        .map_err(|e| e.to_string())?;
    current
        .write_all(format!("{manifest_name}\n").as_bytes())
        .map_err(|e| e.to_string())?;
    drop(current);

    Ok(format!("{mapping:?}"))
}

fn layout(db: &DB) -> String {
    #[cfg(feature = "verif")]
    {
        let mut out = String::new();
        for f in db.verif_files() {
            out.push_str(&format!(
                "  L{} #{} [{:?}@{} .. {:?}@{}]\n",
                f.level,
                f.number,
                String::from_utf8_lossy(&f.smallest.user_key),
                f.smallest.sequence,
                String::from_utf8_lossy(&f.largest.user_key),
                f.largest.sequence
            ));
        }
        out
    }
    #[cfg(not(feature = "verif"))]
    {
        let _ = db;
        String::new()
    }
}

fn run_seed(seed: u64, steps: usize, deep: bool) -> Result<(), String> {
    let mut rng = Rng(seed.wrapping_mul(0x9E3779B97F4A7C15) | 1);
    let on_disk = std::env::var("AUDIT_DISK").is_ok();
    let fs: Arc<dyn FileSystem> = if on_disk {
        // A temporary directory below the worktree's target directory (removed on drop)
        let root = std::path::Path::new(env!("CARGO_MANIFEST_DIR")).join("target/audit_tmp");
        std::fs::create_dir_all(&root).unwrap();
        Arc::new(raindb::fs::TmpFileSystem::new(Some(&root)))
    } else {
        Arc::new(InMemoryFileSystem::new())
    };
    let extreme = std::env::var("AUDIT_EXTREME").is_ok();
    let mem_sizes = if extreme { [200usize, 220, 300, 100_000] } else { [200usize, 600, 1500, 4000] };
    let file_sizes = if extreme { [1u64, 20, 60, 1_000_000] } else { [150u64, 400, 1000, 3000] };
    let block_sizes = if extreme { [1usize, 10, 30, 100_000] } else { [40usize, 100, 256, 1024] };
    let options = DbOptions {
        db_path: if on_disk {
            format!("audit_random_{seed}")
        } else {
            format!("/audit_random_{seed}")
        },
        max_memtable_size: mem_sizes[rng.below(4) as usize],
        max_file_size: file_sizes[rng.below(4) as usize],
        max_block_size: block_sizes[rng.below(4) as usize],
        filesystem_provider: Arc::clone(&fs),
        create_if_missing: true,
        reuse_log_files: rng.below(2) == 0,
        ..DbOptions::default()
    };
    let keys = key_space(rng.below(3));
    let cfg = format!(
        "seed {seed} mem {} file {} block {} reuse {} keys {}",
        options.max_memtable_size,
        options.max_file_size,
        options.max_block_size,
        options.reuse_log_files,
        keys.len()
    );

    if std::env::var("AUDIT_VERBOSE").is_ok() {
        eprintln!("starting {cfg}");
    }
    let mut db = Some(DB::open(options.clone()).map_err(|e| format!("{cfg}: open failed {e}"))?);
    let mut model: Model = Model::new();
    let mut snapshots: Vec<(Snapshot, Model)> = vec![];
    let mut value_counter: u64 = 0;

    let mut make_value = |rng: &mut Rng| -> Vec<u8> {
        value_counter += 1;
        let len = match rng.below(10) {
            0 => 0,
            1..=5 => rng.below(20) as usize,
            6..=8 => 20 + rng.below(200) as usize,
            _ => 500 + rng.below(3000) as usize,
        };
        let mut v = format!("v{value_counter}:").into_bytes();
        if len == 0 && rng.below(2) == 0 {
            return vec![];
        }
        while v.len() < len {
            v.push(b'a' + (rng.below(26) as u8));
        }
        v
    };

    for step in 0..steps {
        let dbr = db.as_ref().unwrap();
        let op = rng.below(100);
        let context = format!("{cfg} step {step}");
        if std::env::var("AUDIT_VERBOSE").is_ok() {
            eprintln!("{context} op {op}");
        }
        if op < 45 {
            let key = keys[rng.below(keys.len() as u64) as usize].clone();
            let value = make_value(&mut rng);
            dbr.put(WriteOptions::default(), key.clone(), value.clone())
                .map_err(|e| format!("{context}: put failed {e}"))?;
            model.insert(key, value);
        } else if op < 65 {
            let key = keys[rng.below(keys.len() as u64) as usize].clone();
            dbr.delete(WriteOptions::default(), key.clone())
                .map_err(|e| format!("{context}: delete failed {e}"))?;
            model.remove(&key);
        } else if op < 72 {
            let mut batch = Batch::new();
            for _ in 0..(1 + rng.below(6)) {
                let key = keys[rng.below(keys.len() as u64) as usize].clone();
                if rng.below(3) == 0 {
                    batch.add_delete(key.clone());
                    model.remove(&key);
                } else {
                    let value = make_value(&mut rng);
                    batch.add_put(key.clone(), value.clone());
                    model.insert(key, value);
                }
            }
            dbr.apply(WriteOptions::default(), batch)
                .map_err(|e| format!("{context}: apply failed {e}"))?;
        } else if op < 77 {
            if snapshots.len() < 4 {
                snapshots.push((dbr.get_snapshot(), model.clone()));
            }
        } else if op < 81 {
            if !snapshots.is_empty() {
                let idx = rng.below(snapshots.len() as u64) as usize;
                let (snap, _) = snapshots.remove(idx);
                dbr.release_snapshot(snap);
            }
        } else if op < 90 {
            // Manual compaction with random (possibly open) ends
            let a = keys[rng.below(keys.len() as u64) as usize].clone();
            let b = keys[rng.below(keys.len() as u64) as usize].clone();
            let (mut lo, mut hi) = if a <= b { (a, b) } else { (b, a) };
            // Sometimes use bounds that are not keys of the database
            match rng.below(6) {
                0 => lo.push(0),
                1 => {
                    lo.pop();
                }
                2 => hi.push(0xff),
                3 => {
                    hi.pop();
                    if hi < lo {
                        hi = lo.clone();
                    }
                }
                _ => {}
            }
            let start = if rng.below(3) == 0 { None } else { Some(lo.as_slice()) };
            let end = if rng.below(3) == 0 { None } else { Some(hi.as_slice()) };
            dbr.compact_range(start..end);
        } else if op == 93 && deep {
            #[cfg(feature = "verif")]
            {
                for (snap, _) in snapshots.drain(..) {
                    dbr.release_snapshot(snap);
                }
                let mapping = relocate_levels(db.take().unwrap(), &options, &mut rng)
                    .map_err(|e| format!("{context}: relocate failed {e}"))?;
                if std::env::var("AUDIT_SHOW_LAYOUT").is_ok() {
                    eprintln!("{context}: relocated levels {mapping}");
                }
                db = Some(
                    DB::open(options.clone())
                        .map_err(|e| format!("{context}: reopen after relocation failed {e}"))?,
                );
            }
        } else if op < 92 {
            // Reopen (only possible without live snapshots handles; release all of them first)
            for (snap, _) in snapshots.drain(..) {
                dbr.release_snapshot(snap);
            }
            drop(db.take());
            db = Some(
                DB::open(options.clone()).map_err(|e| format!("{context}: reopen failed {e}"))?,
            );
        } else {
            // fallthrough to checks below
        }

        if step % 3 == 0 || op >= 81 {
            let dbr = db.as_ref().unwrap();
            let res = check_view(dbr, None, &model, &keys, &format!("{context} (latest)"), rng.next());
            let res = res.and_then(|_| {
                for (i, (snap, snap_model)) in snapshots.iter().enumerate() {
                    check_view(
                        dbr,
                        Some(snap),
                        snap_model,
                        &keys,
                        &format!("{context} (snapshot #{i})"),
                        seed.wrapping_mul(31).wrapping_add(step as u64 * 7 + i as u64),
                    )?;
                }
                Ok(())
            });
            if let Err(msg) = res {
                return Err(format!("{msg}\nlayout:\n{}", layout(dbr)));
            }
        }
    }

    let dbr = db.as_ref().unwrap();
    for (snap, _) in snapshots.drain(..) {
        dbr.release_snapshot(snap);
    }
    if std::env::var("AUDIT_SHOW_LAYOUT").is_ok() {
        eprintln!("{cfg} final layout:\n{}", layout(dbr));
    }
    Ok(())
}

#[test]
fn random_differential() {
    let first: u64 = std::env::var("AUDIT_SEED_FIRST")
        .ok()
        .and_then(|s| s.parse().ok())
        .unwrap_or(1);
    let count: u64 = std::env::var("AUDIT_SEED_COUNT")
        .ok()
        .and_then(|s| s.parse().ok())
        .unwrap_or(20);
    let steps: usize = std::env::var("AUDIT_STEPS")
        .ok()
        .and_then(|s| s.parse().ok())
        .unwrap_or(400);
    let deep = std::env::var("AUDIT_DEEP").is_ok();
    let mut failures = vec![];
    for seed in first..first + count {
        let result = std::panic::catch_unwind(|| run_seed(seed, steps, deep));
        match result {
            Ok(Ok(())) => {}
            Ok(Err(msg)) => {
                eprintln!("FAIL {msg}");
                failures.push(msg);
            }
            Err(p) => {
                let msg = format!(
                    "seed {seed}: panic {:?}",
                    p.downcast_ref::<String>()
                        .cloned()
                        .or_else(|| p.downcast_ref::<&str>().map(|s| s.to_string()))
                );
                eprintln!("FAIL {msg}");
                failures.push(msg);
            }
        }
    }
    assert!(
        failures.is_empty(),
        "{} seeds violated the property; first: {}",
        failures.len(),
        failures[0]
    );
}
