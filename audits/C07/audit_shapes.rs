//! Hand-built LSM shapes (table files written with `verif::table::build`, manifest written with
//! `verif::log::Writer`) that are legal results of earlier compactions, followed by the compaction
//! that is dangerous for that shape. Deleted keys must not reappear and live keys must not vanish.
#![cfg(feature = "verif")]

use std::io::Write;
use std::path::PathBuf;
use std::sync::Arc;

use raindb::fs::{FileSystem, InMemoryFileSystem};
use raindb::verif::table::Entry;
use raindb::{DbOptions, Operation, RainDBError, RainDbIterator, ReadOptions, DB};

fn put_varint(buf: &mut Vec<u8>, mut v: u64) {
    while v >= 0x80 {
        buf.push((v as u8) | 0x80);
        v >>= 7;
    }
    buf.push(v as u8);
}

fn encode_key(user_key: &[u8], sequence: u64, operation: Operation) -> Vec<u8> {
    let mut out = user_key.to_vec();
    out.extend_from_slice(&sequence.to_le_bytes());
    out.push(match operation {
        Operation::Delete => 0,
        Operation::Put => 1,
    });
    out
}

fn put(key: &str, seq: u64, value: &str) -> Entry {
    (key.as_bytes().to_vec(), seq, Operation::Put, value.as_bytes().to_vec())
}

fn del(key: &str, seq: u64) -> Entry {
    (key.as_bytes().to_vec(), seq, Operation::Delete, vec![])
}

struct Shape {
    options: DbOptions,
    record: Vec<u8>,
    max_file_number: u64,
}

impl Shape {
    fn new(name: &str, max_file_size: u64) -> Self {
        let fs: Arc<dyn FileSystem> = Arc::new(InMemoryFileSystem::new());
        let options = DbOptions {
            db_path: format!("/audit_shape_{name}"),
            max_memtable_size: 100_000,
            max_file_size,
            max_block_size: 64,
            filesystem_provider: fs,
            create_if_missing: true,
            ..DbOptions::default()
        };
        // Let the database create its directory skeleton, then replace the manifest
        drop(DB::open(options.clone()).unwrap());
        Shape {
            options,
            record: vec![],
            max_file_number: 10,
        }
    }

    /// Entries must be sorted by (user key ascending, sequence descending).
    fn file(&mut self, level: u64, number: u64, entries: &[Entry]) {
        let size = raindb::verif::table::build(&self.options, number, entries).unwrap();
        let first = entries.first().unwrap();
        let last = entries.last().unwrap();
        put_varint(&mut self.record, 7);
        put_varint(&mut self.record, level);
        put_varint(&mut self.record, number);
        put_varint(&mut self.record, size);
        let smallest = encode_key(&first.0, first.1, first.2);
        put_varint(&mut self.record, smallest.len() as u64);
        self.record.extend_from_slice(&smallest);
        let largest = encode_key(&last.0, last.1, last.2);
        put_varint(&mut self.record, largest.len() as u64);
        self.record.extend_from_slice(&largest);
        self.max_file_number = self.max_file_number.max(number);
    }

    fn open(self, last_sequence: u64) -> DB {
        let fs = self.options.filesystem_provider();
        let root = PathBuf::from(self.options.db_path());
        let manifest_number = self.max_file_number + 1;
        let wal_number = self.max_file_number + 2;
        let mut record: Vec<u8> = vec![];
        put_varint(&mut record, 2);
        put_varint(&mut record, wal_number);
        put_varint(&mut record, 3);
        put_varint(&mut record, wal_number + 1);
        put_varint(&mut record, 4);
        put_varint(&mut record, last_sequence);
        record.extend_from_slice(&self.record);
        let manifest_name = format!("MANIFEST-{manifest_number}.manifest");
        let mut writer =
            raindb::verif::log::Writer::new(Arc::clone(&fs), &root.join(&manifest_name), false)
                .unwrap();
        writer.append(&record).unwrap();
        drop(writer);
        let mut current = fs.create_file(&root.join("CURRENT"), false).unwrap();
        current
            .write_all(format!("{manifest_name}\n").as_bytes())
            .unwrap();
        drop(current);
        // Remove the logs of the skeleton database: they are older than the recorded log number
        for path in fs.list_dir(&root.join("wal")).unwrap() {
            fs.remove_file(&path).unwrap();
        }
        DB::open(self.options).unwrap()
    }
}

fn view(db: &DB) -> Vec<(String, String)> {
    let mut iter = db.new_iterator(ReadOptions::default()).unwrap();
    iter.seek_to_first().unwrap();
    let mut out = vec![];
    while iter.is_valid() {
        let (k, v) = iter.current().unwrap();
        out.push((
            String::from_utf8_lossy(k).to_string(),
            String::from_utf8_lossy(v).to_string(),
        ));
        iter.next();
    }
    assert!(iter.status().is_none(), "scan error {:?}", iter.status());
    out
}

fn expect(db: &DB, expected: &[(&str, &str)], all_keys: &[&str], context: &str) {
    let want: Vec<(String, String)> = expected
        .iter()
        .map(|(k, v)| (k.to_string(), v.to_string()))
        .collect();
    let got = view(db);
    assert!(
        got == want,
        "{context}: the scan returned {got:?} but the property requires {want:?}\nlayout: {:?}",
        db.verif_files()
            .iter()
            .map(|f| format!(
                "L{}#{}[{}@{}..{}@{}]",
                f.level,
                f.number,
                String::from_utf8_lossy(&f.smallest.user_key),
                f.smallest.sequence,
                String::from_utf8_lossy(&f.largest.user_key),
                f.largest.sequence
            ))
            .collect::<Vec<_>>()
    );
    for key in all_keys {
        let want_value = expected.iter().find(|(k, _)| k == key).map(|(_, v)| v.to_string());
        let got_value = match db.get(ReadOptions::default(), key.as_bytes()) {
            Ok(v) => Some(String::from_utf8_lossy(&v).to_string()),
            Err(RainDBError::KeyNotFound) => None,
            Err(e) => panic!("{context}: get({key}) failed: {e}"),
        };
        assert!(
            got_value == want_value,
            "{context}: get({key}) returned {got_value:?} but the property requires {want_value:?}"
        );
    }
}

fn levels(db: &DB) -> Vec<(usize, u64)> {
    db.verif_files().iter().map(|f| (f.level, f.number)).collect()
}

/// Level 2 holds a tombstone of `k` at the end of one file and the older value of `k` at the start
/// of the next file (an earlier compaction cut its output between them while a snapshot was
/// live). A level 1 -> 2 compaction whose range only overlaps the first of the two files must not
/// drop the tombstone while the older value stays behind.
#[test]
fn tombstone_and_older_value_straddle_two_parent_level_files() {
    let mut shape = Shape::new("parent_straddle", 1_000_000);
    shape.file(2, 10, &[put("a", 1, "a1"), del("k", 10)]);
    shape.file(2, 11, &[put("k", 5, "k5-old"), put("z", 2, "z2")]);
    shape.file(1, 12, &[put("a", 20, "a20"), put("c", 21, "c21")]);
    let db = shape.open(30);
    let keys = ["a", "c", "k", "z"];
    let expected = [("a", "a20"), ("c", "c21"), ("z", "z2")];
    expect(&db, &expected, &keys, "before the compaction");
    db.compact_range(Some(b"a".as_slice())..Some(b"c".as_slice()));
    assert!(
        !levels(&db).contains(&(1, 12)),
        "test setup: the level 1 file should have been compacted"
    );
    expect(&db, &expected, &keys, "after compacting [a, c] from level 1 into level 2");
    db.compact_range(None..None);
    expect(&db, &expected, &keys, "after a full compaction");
}

/// The same straddle in the level that is being compacted: picking only the file with the
/// tombstone would move it below the older value.
#[test]
fn tombstone_and_older_value_straddle_two_files_of_the_compacted_level() {
    let mut shape = Shape::new("input_straddle", 1_000_000);
    shape.file(1, 10, &[put("a", 30, "a30"), del("k", 25)]);
    shape.file(1, 11, &[put("k", 15, "k15-old"), put("m", 16, "m16")]);
    // Level 2 data below the requested range, so that the manual compaction includes level 1
    shape.file(2, 14, &[put("a", 1, "a1-old"), put("b", 2, "b2")]);
    shape.file(2, 12, &[put("k", 3, "k3-older"), put("l", 4, "l4")]);
    // A second parent-level file that only the second level 1 file overlaps. It keeps the
    // "grow the inputs of the compacted level" step from picking up the second file by accident.
    shape.file(2, 13, &[put("m", 1, "m1-old"), put("n", 2, "n2")]);
    let db = shape.open(40);
    let keys = ["a", "b", "k", "l", "m", "n"];
    let expected = [("a", "a30"), ("b", "b2"), ("l", "l4"), ("m", "m16"), ("n", "n2")];
    expect(&db, &expected, &keys, "before the compaction");
    db.compact_range(Some(b"a".as_slice())..Some(b"b".as_slice()));
    assert!(
        !levels(&db).contains(&(1, 10)),
        "test setup: the first level 1 file should have been compacted"
    );
    expect(&db, &expected, &keys, "after compacting [a, b] from level 1 into level 2");
    db.compact_range(None..None);
    expect(&db, &expected, &keys, "after a full compaction");
}

/// Three files of one level share a user key; versions newer than the picked file stay, older
/// ones must come along. Overwritten values must not resurface.
#[test]
fn user_key_spanning_three_files_of_a_level() {
    let mut shape = Shape::new("three_files", 1_000_000);
    shape.file(1, 10, &[put("a", 50, "a50"), put("k", 40, "k40-newest")]);
    shape.file(1, 11, &[put("k", 39, "k39"), put("k", 30, "k30")]);
    shape.file(1, 12, &[put("k", 20, "k20"), put("q", 21, "q21")]);
    shape.file(2, 13, &[put("k", 2, "k2"), put("p", 3, "p3")]);
    shape.file(3, 14, &[put("b", 1, "b1")]);
    let db = shape.open(60);
    let keys = ["a", "b", "k", "p", "q"];
    let expected = [("a", "a50"), ("b", "b1"), ("k", "k40-newest"), ("p", "p3"), ("q", "q21")];
    expect(&db, &expected, &keys, "before the compaction");
    // Overlaps all three level 1 files by user key
    db.compact_range(Some(b"k".as_slice())..Some(b"k".as_slice()));
    expect(&db, &expected, &keys, "after compacting [k, k]");
    db.compact_range(Some(b"l".as_slice())..Some(b"r".as_slice()));
    expect(&db, &expected, &keys, "after compacting [l, r]");
    db.compact_range(None..Some(b"a".as_slice()));
    expect(&db, &expected, &keys, "after compacting [.., a]");
    db.compact_range(None..None);
    expect(&db, &expected, &keys, "after a full compaction");
}

/// A tombstone above an older value that lives two or more levels deeper: the compaction of the
/// tombstone's level into the next one must keep the tombstone (the next level is not the base
/// level of the key), for every pair of levels.
#[test]
fn tombstone_above_older_value_in_any_deeper_level() {
    for tombstone_level in 1..=4u64 {
        for value_level in (tombstone_level + 2)..=6u64 {
            let mut shape = Shape::new(&format!("deep_{tombstone_level}_{value_level}"), 1_000_000);
            shape.file(
                tombstone_level,
                10,
                &[put("a", 20, "a20"), del("k", 21), put("z", 22, "z22")],
            );
            shape.file(value_level, 11, &[put("k", 5, "k5-old"), put("x", 6, "x6")]);
            // Something in the level below the tombstone so that it is a real merge
            shape.file(tombstone_level + 1, 12, &[put("b", 7, "b7"), put("y", 8, "y8")]);
            let db = shape.open(30);
            let keys = ["a", "b", "k", "x", "y", "z"];
            let expected = [("a", "a20"), ("b", "b7"), ("x", "x6"), ("y", "y8"), ("z", "z22")];
            let context = format!("tombstone at level {tombstone_level}, value at level {value_level}");
            expect(&db, &expected, &keys, &format!("{context}: before"));
            // One level at a time: every call pushes the tombstone one level further down
            for round in 0..7 {
                db.compact_range(Some(b"a".as_slice())..Some(b"z".as_slice()));
                expect(&db, &expected, &keys, &format!("{context}: after compaction round {round}"));
            }
        }
    }
}

/// Many overlapping level 0 files with tombstones and overwrites over data in levels 1 and 2,
/// with a tiny output file size so that the level 0 compaction cuts its output often (file size
/// and grandparent overlap).
#[test]
fn overlapping_level_zero_files_over_deeper_data() {
    let mut shape = Shape::new("l0", 120);
    let mut grandparents: Vec<Entry> = vec![];
    for i in 0..40 {
        grandparents.push(put(&format!("k{i:02}"), 1 + i as u64, &format!("gp{i:02}-{}", "g".repeat(30))));
    }
    for (n, chunk) in grandparents.chunks(4).enumerate() {
        shape.file(2, 10 + n as u64, chunk);
    }
    let mut parents: Vec<Entry> = vec![];
    for i in (0..40).step_by(3) {
        parents.push(put(&format!("k{i:02}"), 100 + i as u64, &format!("p{i:02}")));
    }
    for (n, chunk) in parents.chunks(5).enumerate() {
        shape.file(1, 30 + n as u64, chunk);
    }
    // Level 0: newer file numbers hold newer data
    shape.file(0, 40, &[del("k00", 200), put("k05", 201, "l0a-05"), put("k39", 202, "l0a-39")]);
    shape.file(0, 41, &[put("k00", 210, "l0b-00"), del("k05", 211), del("k06", 212)]);
    shape.file(0, 42, &[del("k00", 220), put("k06", 221, "l0c-06"), del("k38", 222)]);
    shape.file(0, 43, &[put("k10", 230, "l0d-10"), del("k39", 231)]);
    let db = shape.open(300);

    let mut expected_owned: Vec<(String, String)> = vec![];
    for i in 0..40 {
        let key = format!("k{i:02}");
        let value = match i {
            0 | 5 | 38 | 39 => None,
            6 => Some("l0c-06".to_string()),
            10 => Some("l0d-10".to_string()),
            _ if i % 3 == 0 => Some(format!("p{i:02}")),
            _ => Some(format!("gp{i:02}-{}", "g".repeat(30))),
        };
        if let Some(value) = value {
            expected_owned.push((key, value));
        }
    }
    let expected: Vec<(&str, &str)> = expected_owned
        .iter()
        .map(|(k, v)| (k.as_str(), v.as_str()))
        .collect();
    let key_strings: Vec<String> = (0..40).map(|i| format!("k{i:02}")).collect();
    let keys: Vec<&str> = key_strings.iter().map(|k| k.as_str()).collect();
    expect(&db, &expected, &keys, "before the compaction");
    db.compact_range(Some(b"k05".as_slice())..Some(b"k06".as_slice()));
    expect(&db, &expected, &keys, "after compacting [k05, k06]");
    db.compact_range(None..None);
    expect(&db, &expected, &keys, "after a full compaction");
}
