//! Crash-image sweep for the property "compaction and flushing are invisible to readers".
//!
//! The test brings its own in-memory file system that serialises all file system operations and
//! can take an atomic deep copy of itself ("crash image": the state a process crash would leave
//! behind; there is no notion of unsynced data in RainDB's `FileSystem` trait, so every completed
//! operation is durable). An image is taken immediately before selected mutating operations of
//! the background thread (flush, table compaction, manifest append, obsolete file removal) and of
//! the foreground thread. Every image is then opened as a database. Its contents must be the
//! contents after the last acknowledged write (or after the write that was in flight), before and
//! after a full manual compaction of the recovered database.

use std::collections::{BTreeMap, HashMap};
use std::io::{self, Read, Seek, SeekFrom, Write};
use std::path::{Path, PathBuf};
use std::sync::atomic::{AtomicBool, AtomicU64, Ordering};
use std::sync::{Arc, Mutex, MutexGuard};

use raindb::fs::{FileLock, FileSystem, RandomAccessFile, ReadonlyRandomAccessFile};
use raindb::{DbOptions, RainDBError, RainDbIterator, ReadOptions, WriteOptions, DB};

type Model = BTreeMap<Vec<u8>, Vec<u8>>;
type FileData = Arc<Mutex<Vec<u8>>>;

fn lock<T>(m: &Mutex<T>) -> MutexGuard<'_, T> {
    m.lock().unwrap_or_else(|e| e.into_inner())
}

struct Image {
    files: HashMap<PathBuf, Vec<u8>>,
    acked: u64,
    trigger: String,
}

struct Shared {
    files: Mutex<HashMap<PathBuf, FileData>>,
    /// Number of foreground operations acknowledged so far
    acked: AtomicU64,
    recording: AtomicBool,
    op_counter: AtomicU64,
    stride: AtomicU64,
    images: Mutex<Vec<Image>>,
}

impl Shared {
    /// Called with the `files` lock held, immediately before a mutating operation.
    fn maybe_image(&self, files: &HashMap<PathBuf, FileData>, trigger: &str) {
        if !self.recording.load(Ordering::SeqCst) {
            return;
        }
        let n = self.op_counter.fetch_add(1, Ordering::SeqCst);
        if n % self.stride.load(Ordering::SeqCst) != 0 {
            return;
        }
        let copy: HashMap<PathBuf, Vec<u8>> = files
            .iter()
            .map(|(path, data)| (path.clone(), lock(data).clone()))
            .collect();
        let thread_name = std::thread::current().name().unwrap_or("?").to_string();
        lock(&self.images).push(Image {
            files: copy,
            acked: self.acked.load(Ordering::SeqCst),
            trigger: format!("[{thread_name}] {trigger}"),
        });
    }
}

#[derive(Clone)]
struct CrashFs {
    shared: Arc<Shared>,
}

impl CrashFs {
    fn new() -> Self {
        CrashFs {
            shared: Arc::new(Shared {
                files: Mutex::new(HashMap::new()),
                acked: AtomicU64::new(0),
                recording: AtomicBool::new(false),
                op_counter: AtomicU64::new(0),
                stride: AtomicU64::new(1),
                images: Mutex::new(vec![]),
            }),
        }
    }

    fn from_image(image: &Image) -> Self {
        let fs = CrashFs::new();
        {
            let mut files = lock(&fs.shared.files);
            for (path, data) in &image.files {
                files.insert(path.clone(), Arc::new(Mutex::new(data.clone())));
            }
        }
        fs
    }
}

struct Handle {
    shared: Arc<Shared>,
    data: FileData,
    path: PathBuf,
    cursor: usize,
}

impl Read for Handle {
    fn read(&mut self, buf: &mut [u8]) -> io::Result<usize> {
        let _files = lock(&self.shared.files);
        let data = lock(&self.data);
        if self.cursor >= data.len() {
            return Ok(0);
        }
        let n = buf.len().min(data.len() - self.cursor);
        buf[..n].copy_from_slice(&data[self.cursor..self.cursor + n]);
        self.cursor += n;
        Ok(n)
    }
}

impl Seek for Handle {
    fn seek(&mut self, pos: SeekFrom) -> io::Result<u64> {
        let _files = lock(&self.shared.files);
        let len = lock(&self.data).len() as i64;
        let target = match pos {
            SeekFrom::Start(off) => off as i64,
            SeekFrom::Current(off) => self.cursor as i64 + off,
            SeekFrom::End(off) => len + off,
        };
        if target < 0 {
            return Err(io::Error::new(io::ErrorKind::InvalidInput, "negative seek"));
        }
        self.cursor = target as usize;
        Ok(self.cursor as u64)
    }
}

impl Write for Handle {
    fn write(&mut self, buf: &[u8]) -> io::Result<usize> {
        let files = lock(&self.shared.files);
        self.shared
            .maybe_image(&files, &format!("write {} bytes to {:?}", buf.len(), self.path));
        let mut data = lock(&self.data);
        if self.cursor > data.len() {
            let cursor = self.cursor;
            data.resize(cursor, 0);
        }
        let end = self.cursor + buf.len();
        if end > data.len() {
            data.resize(end, 0);
        }
        data[self.cursor..end].copy_from_slice(buf);
        self.cursor = end;
        Ok(buf.len())
    }

    fn flush(&mut self) -> io::Result<()> {
        Ok(())
    }
}

impl ReadonlyRandomAccessFile for Handle {
    fn read_from(&self, buf: &mut [u8], offset: usize) -> io::Result<usize> {
        let _files = lock(&self.shared.files);
        let data = lock(&self.data);
        if buf.is_empty() {
            return Ok(0);
        }
        if offset >= data.len() {
            return Err(io::Error::new(
                io::ErrorKind::InvalidInput,
                "offset beyond the end of the file",
            ));
        }
        let n = buf.len().min(data.len() - offset);
        buf[..n].copy_from_slice(&data[offset..offset + n]);
        Ok(n)
    }

    fn len(&self) -> io::Result<u64> {
        let _files = lock(&self.shared.files);
        Ok(lock(&self.data).len() as u64)
    }
}

impl RandomAccessFile for Handle {
    fn append(&mut self, buf: &[u8]) -> io::Result<usize> {
        let files = lock(&self.shared.files);
        self.shared
            .maybe_image(&files, &format!("append {} bytes to {:?}", buf.len(), self.path));
        let mut data = lock(&self.data);
        data.extend_from_slice(buf);
        self.cursor = data.len();
        Ok(buf.len())
    }
}

impl FileSystem for CrashFs {
    fn get_name(&self) -> String {
        "CrashFs".to_string()
    }
    fn create_dir(&self, _path: &Path) -> io::Result<()> {
        Ok(())
    }
    fn create_dir_all(&self, _path: &Path) -> io::Result<()> {
        Ok(())
    }
    fn list_dir(&self, path: &Path) -> io::Result<Vec<PathBuf>> {
        let files = lock(&self.shared.files);
        let mut children: Vec<PathBuf> = vec![];
        for file_path in files.keys() {
            if let Ok(rest) = file_path.strip_prefix(path) {
                if let Some(first) = rest.components().next() {
                    let child = path.join(first);
                    if !children.contains(&child) {
                        children.push(child);
                    }
                }
            }
        }
        children.sort();
        Ok(children)
    }
    fn open_file(&self, path: &Path) -> io::Result<Box<dyn ReadonlyRandomAccessFile>> {
        let files = lock(&self.shared.files);
        match files.get(path) {
            Some(data) => Ok(Box::new(Handle {
                shared: Arc::clone(&self.shared),
                data: Arc::clone(data),
                path: path.to_path_buf(),
                cursor: 0,
            })),
            None => Err(io::Error::new(
                io::ErrorKind::NotFound,
                format!("no such file {path:?}"),
            )),
        }
    }
    fn rename(&self, from: &Path, to: &Path) -> io::Result<()> {
        let mut files = lock(&self.shared.files);
        self.shared
            .maybe_image(&files, &format!("rename {from:?} -> {to:?}"));
        match files.remove(from) {
            Some(data) => {
                files.insert(to.to_path_buf(), data);
                Ok(())
            }
            None => Err(io::Error::new(io::ErrorKind::NotFound, "rename source missing")),
        }
    }
    fn create_file(&self, path: &Path, append: bool) -> io::Result<Box<dyn RandomAccessFile>> {
        let mut files = lock(&self.shared.files);
        self.shared
            .maybe_image(&files, &format!("create_file {path:?} append={append}"));
        let data = match files.get(path) {
            Some(existing) if append => Arc::clone(existing),
            Some(existing) => {
                lock(existing).clear();
                Arc::clone(existing)
            }
            None => {
                let data: FileData = Arc::new(Mutex::new(vec![]));
                files.insert(path.to_path_buf(), Arc::clone(&data));
                data
            }
        };
        let cursor = if append { lock(&data).len() } else { 0 };
        Ok(Box::new(Handle {
            shared: Arc::clone(&self.shared),
            data,
            path: path.to_path_buf(),
            cursor,
        }))
    }
    fn remove_file(&self, path: &Path) -> io::Result<()> {
        let mut files = lock(&self.shared.files);
        self.shared.maybe_image(&files, &format!("remove_file {path:?}"));
        match files.remove(path) {
            Some(_) => Ok(()),
            None => Err(io::Error::new(io::ErrorKind::NotFound, "no such file")),
        }
    }
    fn remove_dir(&self, _path: &Path) -> io::Result<()> {
        Ok(())
    }
    fn remove_dir_all(&self, path: &Path) -> io::Result<()> {
        let mut files = lock(&self.shared.files);
        files.retain(|file_path, _| !file_path.starts_with(path));
        Ok(())
    }
    fn get_file_size(&self, path: &Path) -> io::Result<u64> {
        let files = lock(&self.shared.files);
        match files.get(path) {
            Some(data) => Ok(lock(data).len() as u64),
            None => Err(io::Error::new(io::ErrorKind::NotFound, "no such file")),
        }
    }
    fn is_dir(&self, path: &Path) -> io::Result<bool> {
        let files = lock(&self.shared.files);
        if files.contains_key(path) {
            return Ok(false);
        }
        Ok(files.keys().any(|file_path| file_path.starts_with(path)))
    }
    fn lock_file(&self, path: &Path) -> io::Result<FileLock> {
        {
            let mut files = lock(&self.shared.files);
            files
                .entry(path.to_path_buf())
                .or_insert_with(|| Arc::new(Mutex::new(vec![])));
        }
        // Borrow a lock object from the stock in-memory file system (locking is a no-op there)
        raindb::fs::InMemoryFileSystem::new().lock_file(Path::new("/lock"))
    }
}

struct Rng(u64);
impl Rng {
    fn next(&mut self) -> u64 {
        self.0 ^= self.0 >> 12;
        self.0 ^= self.0 << 25;
        self.0 ^= self.0 >> 27;
        self.0.wrapping_mul(0x2545F4914F6CDD1D)
    }
    fn below(&mut self, n: u64) -> u64 {
        self.next() % n
    }
}

fn contents(db: &DB, keys: &[Vec<u8>]) -> Result<Model, String> {
    let mut iter = db
        .new_iterator(ReadOptions::default())
        .map_err(|e| format!("new_iterator: {e}"))?;
    iter.seek_to_first().map_err(|e| format!("seek_to_first: {e}"))?;
    let mut scanned = Model::new();
    while iter.is_valid() {
        let (k, v) = iter.current().unwrap();
        scanned.insert(k.clone(), v.clone());
        iter.next();
    }
    if let Some(err) = iter.status() {
        return Err(format!("scan status: {err}"));
    }
    // Cross-check with point lookups
    for key in keys {
        match db.get(ReadOptions::default(), key) {
            Ok(v) => {
                if scanned.get(key) != Some(&v) {
                    return Err(format!(
                        "get({:?}) = {:?} disagrees with the scan ({:?})",
                        String::from_utf8_lossy(key),
                        String::from_utf8_lossy(&v[..v.len().min(10)]),
                        scanned.get(key).map(|v| String::from_utf8_lossy(&v[..v.len().min(10)]).to_string())
                    ));
                }
            }
            Err(RainDBError::KeyNotFound) => {
                if scanned.contains_key(key) {
                    return Err(format!(
                        "get({:?}) = KeyNotFound disagrees with the scan",
                        String::from_utf8_lossy(key)
                    ));
                }
            }
            Err(e) => return Err(format!("get failed: {e}")),
        }
    }
    Ok(scanned)
}

fn describe(model: &Model) -> String {
    model
        .iter()
        .map(|(k, v)| {
            format!(
                "{}={}",
                String::from_utf8_lossy(k),
                String::from_utf8_lossy(&v[..v.len().min(8)])
            )
        })
        .collect::<Vec<_>>()
        .join(" ")
}

fn run(seed: u64, steps: usize, stride: u64, reuse_logs: bool) -> Result<(usize, usize), String> {
    let fs = CrashFs::new();
    fs.shared.stride.store(stride, Ordering::SeqCst);
    let make_options = |fs: &CrashFs| DbOptions {
        db_path: "/crashdb".to_string(),
        max_memtable_size: 600,
        max_file_size: 400,
        max_block_size: 100,
        filesystem_provider: Arc::new(fs.clone()) as Arc<dyn FileSystem>,
        create_if_missing: true,
        reuse_log_files: reuse_logs,
        ..DbOptions::default()
    };
    let keys: Vec<Vec<u8>> = (0..12u32).map(|i| format!("k{:02}", i).into_bytes()).collect();
    let mut rng = Rng(seed.wrapping_mul(0x9E3779B97F4A7C15) | 1);
    let mut history: Vec<Model> = vec![Model::new()];
    let mut model = Model::new();
    let ctx = format!("seed {seed} reuse_logs {reuse_logs}");

    let mut db = Some(DB::open(make_options(&fs)).map_err(|e| format!("{ctx}: open {e}"))?);
    fs.shared.recording.store(true, Ordering::SeqCst);
    let mut counter = 0u64;
    for _step in 0..steps {
        let op = rng.below(100);
        let dbr = db.as_ref().unwrap();
        if op < 55 {
            let key = keys[rng.below(keys.len() as u64) as usize].clone();
            counter += 1;
            let mut value = format!("v{counter}-").into_bytes();
            let len = rng.below(150) as usize;
            while value.len() < len {
                value.push(b'y');
            }
            dbr.put(WriteOptions::default(), key.clone(), value.clone())
                .map_err(|e| format!("{ctx}: put {e}"))?;
            model.insert(key, value);
        } else if op < 78 {
            let key = keys[rng.below(keys.len() as u64) as usize].clone();
            dbr.delete(WriteOptions::default(), key.clone())
                .map_err(|e| format!("{ctx}: delete {e}"))?;
            model.remove(&key);
        } else if op < 90 {
            let a = keys[rng.below(keys.len() as u64) as usize].clone();
            let b = keys[rng.below(keys.len() as u64) as usize].clone();
            let (lo, hi) = if a <= b { (a, b) } else { (b, a) };
            let start = if rng.below(3) == 0 { None } else { Some(lo.as_slice()) };
            let end = if rng.below(3) == 0 { None } else { Some(hi.as_slice()) };
            dbr.compact_range(start..end);
        } else if op < 94 {
            // Clean close and reopen; images are also taken during recovery
            drop(db.take());
            db = Some(DB::open(make_options(&fs)).map_err(|e| format!("{ctx}: reopen {e}"))?);
        }
        // Every step is one acknowledged operation (no-ops included)
        history.push(model.clone());
        fs.shared.acked.fetch_add(1, Ordering::SeqCst);
    }
    fs.shared.recording.store(false, Ordering::SeqCst);
    drop(db.take());

    let images = std::mem::take(&mut *lock(&fs.shared.images));
    let mut checked = 0usize;
    let mut background = 0usize;
    for (index, image) in images.iter().enumerate() {
        if image.trigger.contains("raindb-") {
            background += 1;
        }
        let image_fs = CrashFs::from_image(image);
        let what = format!(
            "{ctx}: crash image #{index} taken before {} after {} acknowledged operations",
            image.trigger, image.acked
        );
        let db = match DB::open(make_options(&image_fs)) {
            Ok(db) => db,
            Err(e) => return Err(format!("{what}: the database does not open: {e}")),
        };
        let recovered = contents(&db, &keys).map_err(|e| format!("{what}: {e}"))?;
        let acked = image.acked as usize;
        let candidates: Vec<&Model> = history[acked..(acked + 2).min(history.len())].iter().collect();
        if !candidates.iter().any(|candidate| **candidate == recovered) {
            return Err(format!(
                "{what}: recovered contents [{}] but the property requires [{}]{}",
                describe(&recovered),
                describe(candidates[0]),
                if candidates.len() > 1 {
                    format!(" or [{}]", describe(candidates[1]))
                } else {
                    String::new()
                }
            ));
        }
        db.compact_range(None..None);
        let compacted = contents(&db, &keys).map_err(|e| format!("{what} (after compaction): {e}"))?;
        if compacted != recovered {
            return Err(format!(
                "{what}: a full compaction of the recovered database changed its contents from [{}] to [{}]",
                describe(&recovered),
                describe(&compacted)
            ));
        }
        drop(db);
        // Second recovery of the same image after the compaction
        let db = match DB::open(make_options(&image_fs)) {
            Ok(db) => db,
            Err(e) => return Err(format!("{what}: second open fails: {e}")),
        };
        let again = contents(&db, &keys).map_err(|e| format!("{what} (second open): {e}"))?;
        if again != recovered {
            return Err(format!(
                "{what}: contents changed across compaction + reopen from [{}] to [{}]",
                describe(&recovered),
                describe(&again)
            ));
        }
        checked += 1;
    }
    Ok((checked, background))
}

fn env_u64(name: &str, default: u64) -> u64 {
    std::env::var(name)
        .ok()
        .and_then(|s| s.parse().ok())
        .unwrap_or(default)
}

#[test]
fn crash_images_recover_to_the_acknowledged_contents() {
    let seeds = env_u64("AUDIT_CRASH_SEEDS", 3);
    let steps = env_u64("AUDIT_CRASH_STEPS", 120) as usize;
    let stride = env_u64("AUDIT_CRASH_STRIDE", 5);
    let mut failures = vec![];
    let mut total = 0;
    let mut total_background = 0;
    for seed in 1..=seeds {
        for reuse_logs in [true, false] {
            match std::panic::catch_unwind(|| run(seed, steps, stride, reuse_logs)) {
                Ok(Ok((checked, background))) => {
                    total += checked;
                    total_background += background;
                }
                Ok(Err(msg)) => {
                    eprintln!("FAIL {msg}");
                    failures.push(msg);
                }
                Err(p) => {
                    let msg = format!(
                        "seed {seed} reuse_logs {reuse_logs}: panic {:?}",
                        p.downcast_ref::<String>()
                            .cloned()
                            .or_else(|| p.downcast_ref::<&str>().map(|s| s.to_string()))
                    );
                    eprintln!("FAIL {msg}");
                    failures.push(msg);
                }
            }
        }
    }
    eprintln!("checked {total} crash images ({total_background} taken on the background thread)");
    assert!(
        failures.is_empty(),
        "{} runs violated the property; first: {}",
        failures.len(),
        failures[0]
    );
}
