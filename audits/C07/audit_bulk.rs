//! Organic size-triggered compactions below level 0: enough incompressible data is written that
//! level 1 exceeds its 10 MiB budget, so the background thread picks level 1 -> 2 compactions by
//! itself (round-robin over the compaction pointer, with boundary files, grandparent cuts, ...).
//! The contents must match the model at the latest state and at two snapshots.
#![cfg(feature = "verif")]

use std::collections::BTreeMap;
use std::sync::{Arc, Mutex};

use raindb::fs::{FileSystem, InMemoryFileSystem};
use raindb::verif::{set_handler, Handler};
use raindb::{DbOptions, RainDBError, RainDbIterator, ReadOptions, Snapshot, WriteOptions, DB};

type Model = BTreeMap<Vec<u8>, Vec<u8>>;

struct Rng(u64);
impl Rng {
    fn next(&mut self) -> u64 {
        self.0 ^= self.0 >> 12;
        self.0 ^= self.0 << 25;
        self.0 ^= self.0 >> 27;
        self.0.wrapping_mul(0x2545F4914F6CDD1D)
    }
    fn below(&mut self, n: u64) -> u64 {
        self.next() % n
    }
}

#[derive(Default)]
struct Picks {
    picks: Mutex<Vec<Vec<u64>>>,
}
impl Handler for Picks {
    fn pause(&self, _point: &'static str, _args: &[u64]) {}
    fn note(&self, point: &'static str, args: &[u64]) {
        if point == "compaction.pick" {
            self.picks.lock().unwrap().push(args.to_vec());
        }
    }
}

fn check(db: &DB, snapshot: Option<&Snapshot>, model: &Model, all_keys: &[Vec<u8>], context: &str) {
    let read_options = || ReadOptions {
        fill_cache: false,
        snapshot: snapshot.cloned(),
    };
    let mut iter = db.new_iterator(read_options()).unwrap();
    iter.seek_to_first().unwrap();
    let mut expected = model.iter();
    let mut count = 0usize;
    while iter.is_valid() {
        let (k, v) = iter.current().unwrap();
        match expected.next() {
            Some((wk, wv)) => {
                assert!(
                    k == wk && v == wv,
                    "{context}: scan position {count} is key {:?} (value head {:?}) but the property requires key {:?} (value head {:?})",
                    String::from_utf8_lossy(k),
                    &v[..8.min(v.len())],
                    String::from_utf8_lossy(wk),
                    &wv[..8.min(wv.len())]
                );
            }
            None => panic!(
                "{context}: scan yields extra key {:?} after the {count} required entries",
                String::from_utf8_lossy(k)
            ),
        }
        count += 1;
        iter.next();
    }
    assert!(iter.status().is_none(), "{context}: scan error {:?}", iter.status());
    assert!(
        expected.next().is_none(),
        "{context}: scan ended after {count} entries but the property requires {}",
        model.len()
    );
    for key in all_keys.iter().step_by(7) {
        match (db.get(read_options(), key), model.get(key)) {
            (Ok(v), Some(want)) => assert!(
                &v == want,
                "{context}: get({}) returned a different value than required",
                String::from_utf8_lossy(key)
            ),
            (Err(RainDBError::KeyNotFound), None) => {}
            (got, want) => panic!(
                "{context}: get({}) returned {:?} but the property requires present={}",
                String::from_utf8_lossy(key),
                got.map(|v| v.len()).map_err(|e| e.to_string()),
                want.is_some()
            ),
        }
    }
}

#[test]
fn size_triggered_compactions_below_level_zero() {
    let picks = Arc::new(Picks::default());
    set_handler(Some(picks.clone()));

    let fs: Arc<dyn FileSystem> = Arc::new(InMemoryFileSystem::new());
    let options = DbOptions {
        db_path: "/audit_bulk".to_string(),
        max_memtable_size: 192 * 1024,
        max_file_size: 96 * 1024,
        max_block_size: 4096,
        filesystem_provider: fs,
        create_if_missing: true,
        ..DbOptions::default()
    };
    let db = DB::open(options).unwrap();
    let n_keys = std::env::var("AUDIT_BULK_KEYS")
        .ok()
        .and_then(|s| s.parse().ok())
        .unwrap_or(4200usize);
    let all_keys: Vec<Vec<u8>> = (0..n_keys).map(|i| format!("key{:06}", i).into_bytes()).collect();
    let mut rng = Rng(0x1234_5678_9abc_def1);
    let mut model = Model::new();
    let mut make_value = |rng: &mut Rng, tag: u8| -> Vec<u8> {
        let len = 3000 + rng.below(2000) as usize;
        let mut v = Vec::with_capacity(len);
        v.push(tag);
        while v.len() < len {
            v.extend_from_slice(&rng.next().to_le_bytes());
        }
        v
    };

    // Phase 1: load in pseudo-random key order
    let mut order: Vec<usize> = (0..n_keys).collect();
    for i in (1..order.len()).rev() {
        let j = rng.below(i as u64 + 1) as usize;
        order.swap(i, j);
    }
    for &i in &order {
        let v = make_value(&mut rng, 1);
        db.put(WriteOptions::default(), all_keys[i].clone(), v.clone()).unwrap();
        model.insert(all_keys[i].clone(), v);
    }
    let snapshot_one = db.get_snapshot();
    let model_one = model.clone();
    check(&db, None, &model, &all_keys, "after load");

    // Phase 2: overwrite a third, delete a third
    for &i in order.iter().step_by(3) {
        let v = make_value(&mut rng, 2);
        db.put(WriteOptions::default(), all_keys[i].clone(), v.clone()).unwrap();
        model.insert(all_keys[i].clone(), v);
    }
    for &i in order.iter().skip(1).step_by(3) {
        db.delete(WriteOptions::default(), all_keys[i].clone()).unwrap();
        model.remove(&all_keys[i]);
    }
    let snapshot_two = db.get_snapshot();
    let model_two = model.clone();
    check(&db, Some(&snapshot_one), &model_one, &all_keys, "snapshot one after phase 2");
    check(&db, None, &model, &all_keys, "latest after phase 2");

    // Phase 3: more churn so that level 1 keeps overflowing
    for &i in order.iter().skip(2).step_by(2) {
        if rng.below(4) == 0 {
            db.delete(WriteOptions::default(), all_keys[i].clone()).unwrap();
            model.remove(&all_keys[i]);
        } else {
            let v = make_value(&mut rng, 3);
            db.put(WriteOptions::default(), all_keys[i].clone(), v.clone()).unwrap();
            model.insert(all_keys[i].clone(), v);
        }
    }
    // Let the background thread drain
    for _ in 0..60000 {
        let probe = db.verif_probe();
        if !probe.background_compaction_scheduled && !probe.has_immutable_memtable && !probe.needs_compaction {
            break;
        }
        std::thread::sleep(std::time::Duration::from_millis(1));
    }
    check(&db, Some(&snapshot_one), &model_one, &all_keys, "snapshot one after phase 3");
    check(&db, Some(&snapshot_two), &model_two, &all_keys, "snapshot two after phase 3");
    check(&db, None, &model, &all_keys, "latest after phase 3");

    db.release_snapshot(snapshot_one);
    db.compact_range(None..None);
    check(&db, Some(&snapshot_two), &model_two, &all_keys, "snapshot two after full compaction");
    check(&db, None, &model, &all_keys, "latest after full compaction");
    db.release_snapshot(snapshot_two);

    let picks = picks.picks.lock().unwrap();
    let automatic_deep = picks
        .iter()
        .filter(|args| args[0] >= 1 && args[3] == 0)
        .count();
    let trivial = picks.iter().filter(|args| args[4] == 1).count();
    eprintln!(
        "compactions picked: {} total, {} automatic at level >= 1, {} trivial moves; layout levels: {:?}",
        picks.len(),
        automatic_deep,
        trivial,
        {
            let mut per_level = [0usize; 7];
            for f in db.verif_files() {
                per_level[f.level] += 1;
            }
            per_level
        }
    );
    assert!(
        automatic_deep > 0,
        "test setup: expected size-triggered compactions at level >= 1"
    );
    set_handler(None);
}
