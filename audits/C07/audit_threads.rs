//! Multi-threaded variant of the differential harness. Every thread owns a disjoint part of the key
//! space (a prefix), so each thread knows exactly what its keys must contain at any time and at
//! each of its own snapshots, while flushes, automatic compactions and concurrent manual
//! compactions (requested by all threads, over ranges that also cover the other threads' keys)
//! reorganise the data underneath.

use std::collections::BTreeMap;
use std::sync::Arc;
use std::thread;

use raindb::fs::{FileSystem, InMemoryFileSystem};
use raindb::{Batch, DbOptions, RainDBError, RainDbIterator, ReadOptions, Snapshot, WriteOptions, DB};

type Model = BTreeMap<Vec<u8>, Vec<u8>>;

struct Rng(u64);
impl Rng {
    fn next(&mut self) -> u64 {
        self.0 ^= self.0 >> 12;
        self.0 ^= self.0 << 25;
        self.0 ^= self.0 >> 27;
        self.0.wrapping_mul(0x2545F4914F6CDD1D)
    }
    fn below(&mut self, n: u64) -> u64 {
        self.next() % n
    }
}

fn check_own(
    db: &DB,
    prefix: &[u8],
    keys: &[Vec<u8>],
    snapshot: Option<&Snapshot>,
    model: &Model,
    context: &str,
) -> Result<(), String> {
    let read_options = || ReadOptions {
        fill_cache: true,
        snapshot: snapshot.cloned(),
    };
    for key in keys {
        match (db.get(read_options(), key), model.get(key)) {
            (Ok(v), Some(want)) if &v == want => {}
            (Err(RainDBError::KeyNotFound), None) => {}
            (got, want) => {
                return Err(format!(
                    "{context}: get({}) returned {:?} but the property requires {:?}",
                    String::from_utf8_lossy(key),
                    got.map(|v| String::from_utf8_lossy(&v[..v.len().min(10)]).to_string())
                        .map_err(|e| e.to_string()),
                    want.map(|v| String::from_utf8_lossy(&v[..v.len().min(10)]).to_string())
                ))
            }
        }
    }
    let mut iter = db
        .new_iterator(read_options())
        .map_err(|e| format!("{context}: new_iterator {e}"))?;
    iter.seek(&prefix.to_vec())
        .map_err(|e| format!("{context}: seek {e}"))?;
    let mut scanned: Vec<(Vec<u8>, Vec<u8>)> = vec![];
    while iter.is_valid() {
        let (k, v) = iter.current().unwrap();
        if !k.starts_with(prefix) {
            break;
        }
        scanned.push((k.clone(), v.clone()));
        iter.next();
    }
    if let Some(err) = iter.status() {
        return Err(format!("{context}: scan error {err}"));
    }
    let want: Vec<(Vec<u8>, Vec<u8>)> = model.iter().map(|(k, v)| (k.clone(), v.clone())).collect();
    if scanned != want {
        return Err(format!(
            "{context}: scan of the thread's prefix returned {:?} but the property requires {:?}",
            scanned
                .iter()
                .map(|e| String::from_utf8_lossy(&e.0).to_string())
                .collect::<Vec<_>>(),
            want.iter()
                .map(|e| String::from_utf8_lossy(&e.0).to_string())
                .collect::<Vec<_>>()
        ));
    }
    Ok(())
}

fn worker(db: Arc<DB>, id: usize, seed: u64, steps: usize) -> Result<(), String> {
    let prefix = format!("t{id}-").into_bytes();
    let keys: Vec<Vec<u8>> = (0..14u32)
        .map(|i| format!("t{id}-{:02}", i).into_bytes())
        .collect();
    let mut rng = Rng((seed * 1000 + id as u64).wrapping_mul(0x9E3779B97F4A7C15) | 1);
    let mut model = Model::new();
    let mut snapshots: Vec<(Snapshot, Model)> = vec![];
    let mut counter = 0u64;
    for step in 0..steps {
        let context = format!("seed {seed} thread {id} step {step}");
        let op = rng.below(100);
        if op < 45 {
            let key = keys[rng.below(keys.len() as u64) as usize].clone();
            counter += 1;
            let mut value = format!("{id}.{counter}:").into_bytes();
            let len = match rng.below(8) {
                0 => 600 + rng.below(900) as usize,
                _ => rng.below(60) as usize,
            };
            while value.len() < len {
                value.push(b'z');
            }
            db.put(WriteOptions::default(), key.clone(), value.clone())
                .map_err(|e| format!("{context}: put {e}"))?;
            model.insert(key, value);
        } else if op < 65 {
            let key = keys[rng.below(keys.len() as u64) as usize].clone();
            db.delete(WriteOptions::default(), key.clone())
                .map_err(|e| format!("{context}: delete {e}"))?;
            model.remove(&key);
        } else if op < 72 {
            let mut batch = Batch::new();
            for _ in 0..(1 + rng.below(5)) {
                let key = keys[rng.below(keys.len() as u64) as usize].clone();
                if rng.below(3) == 0 {
                    batch.add_delete(key.clone());
                    model.remove(&key);
                } else {
                    counter += 1;
                    let value = format!("{id}.{counter}:batch").into_bytes();
                    batch.add_put(key.clone(), value.clone());
                    model.insert(key, value);
                }
            }
            db.apply(WriteOptions::default(), batch)
                .map_err(|e| format!("{context}: apply {e}"))?;
        } else if op < 78 {
            if snapshots.len() < 3 {
                snapshots.push((db.get_snapshot(), model.clone()));
            }
        } else if op < 82 {
            if !snapshots.is_empty() {
                let idx = rng.below(snapshots.len() as u64) as usize;
                let (snap, _) = snapshots.remove(idx);
                db.release_snapshot(snap);
            }
        } else if op < 88 {
            match rng.below(4) {
                0 => db.compact_range(None..None),
                1 => db.compact_range(Some(prefix.as_slice())..None),
                2 => db.compact_range(None..Some(keys[rng.below(14) as usize].as_slice())),
                _ => {
                    let a = rng.below(14) as usize;
                    let b = rng.below(14) as usize;
                    let (lo, hi) = (a.min(b), a.max(b));
                    db.compact_range(Some(keys[lo].as_slice())..Some(keys[hi].as_slice()));
                }
            }
        }

        if step % 3 == 0 {
            check_own(&db, &prefix, &keys, None, &model, &format!("{context} (latest)"))?;
            for (i, (snap, snap_model)) in snapshots.iter().enumerate() {
                check_own(
                    &db,
                    &prefix,
                    &keys,
                    Some(snap),
                    snap_model,
                    &format!("{context} (snapshot #{i})"),
                )?;
            }
        }
    }
    for (snap, _) in snapshots.drain(..) {
        db.release_snapshot(snap);
    }
    check_own(&db, &prefix, &keys, None, &model, &format!("seed {seed} thread {id} final"))?;
    Ok(())
}

fn env_u64(name: &str, default: u64) -> u64 {
    std::env::var(name)
        .ok()
        .and_then(|s| s.parse().ok())
        .unwrap_or(default)
}

#[test]
fn concurrent_owners_always_read_their_own_writes() {
    let seeds = env_u64("AUDIT_THREAD_SEEDS", 4);
    let steps = env_u64("AUDIT_THREAD_STEPS", 600) as usize;
    let threads = env_u64("AUDIT_THREADS", 4) as usize;
    let mut failures: Vec<String> = vec![];
    for seed in 1..=seeds {
        let fs: Arc<dyn FileSystem> = Arc::new(InMemoryFileSystem::new());
        let sizes = [(300usize, 200u64, 64usize), (1200, 600, 128), (5000, 1500, 512)];
        let (mem, file, block) = sizes[(seed % 3) as usize];
        let options = DbOptions {
            db_path: format!("/audit_threads_{seed}"),
            max_memtable_size: mem,
            max_file_size: file,
            max_block_size: block,
            filesystem_provider: fs,
            create_if_missing: true,
            ..DbOptions::default()
        };
        let db = Arc::new(DB::open(options).unwrap());
        let handles: Vec<_> = (0..threads)
            .map(|id| {
                let db = Arc::clone(&db);
                thread::spawn(move || worker(db, id, seed, steps))
            })
            .collect();
        for handle in handles {
            match handle.join() {
                Ok(Ok(())) => {}
                Ok(Err(msg)) => {
                    eprintln!("FAIL {msg}");
                    failures.push(msg);
                }
                Err(p) => {
                    let msg = format!(
                        "seed {seed}: worker panicked: {:?}",
                        p.downcast_ref::<String>()
                            .cloned()
                            .or_else(|| p.downcast_ref::<&str>().map(|s| s.to_string()))
                    );
                    eprintln!("FAIL {msg}");
                    failures.push(msg);
                }
            }
        }
    }
    assert!(
        failures.is_empty(),
        "{} workers observed a violation; first: {}",
        failures.len(),
        failures[0]
    );
}
