//! I/O fault sweep for the property "compaction and flushing are invisible to readers".
//!
//! A wrapping file system fails exactly one (or, in "sticky" mode, every following) file system
//! operation issued by the *background compaction thread*. The foreground workload is never
//! faulted, so every foreground write either succeeds (and is recorded in the model) or is rejected
//! as a whole. Whatever the background thread was doing when the fault hit (flush, table
//! compaction, trivial move, manifest write, obsolete file removal), readers must keep seeing
//! exactly the model: no lost key, no resurfacing value, no reappearing deleted key. Read *errors*
//! are tolerated (they are reported, not wrong data); wrong data is not. The same must hold after
//! closing and reopening the database with the faults switched off.

use std::collections::BTreeMap;
use std::io::{self, Read, Seek, SeekFrom, Write};
use std::path::{Path, PathBuf};
use std::sync::atomic::{AtomicBool, AtomicI64, AtomicU64, Ordering};
use std::sync::Arc;

use raindb::fs::{
    FileLock, FileSystem, InMemoryFileSystem, RandomAccessFile, ReadonlyRandomAccessFile,
};
use raindb::{DbOptions, RainDBError, RainDbIterator, ReadOptions, Snapshot, WriteOptions, DB};

type Model = BTreeMap<Vec<u8>, Vec<u8>>;

#[derive(Clone, Copy, PartialEq, Eq, Debug)]
enum Kind {
    Read,
    Write,
    Meta,
}

struct FaultPlan {
    /// Number of background-thread operations (of the selected kinds) seen so far.
    counter: AtomicI64,
    /// Fail the operation with this index (1-based). 0 disables.
    fail_at: AtomicI64,
    /// Keep failing after the first failure.
    sticky: AtomicBool,
    /// Which kinds of operations are counted/failed: bit 0 read, bit 1 write, bit 2 meta.
    kinds: AtomicU64,
    /// Set once a fault was injected.
    fired: AtomicBool,
    enabled: AtomicBool,
    /// A failing write/append first writes half of its buffer (like a full disk would)
    partial: AtomicBool,
    /// Count and fail operations of every thread, not only of the background thread
    any_thread: AtomicBool,
    fired_on: parking_lot_free::Mutex<String>,
}

/// Tiny std-only mutex wrapper so the test does not need extra crates.
mod parking_lot_free {
    pub struct Mutex<T>(std::sync::Mutex<T>);
    impl<T> Mutex<T> {
        pub fn new(v: T) -> Self {
            Mutex(std::sync::Mutex::new(v))
        }
        pub fn lock(&self) -> std::sync::MutexGuard<'_, T> {
            self.0.lock().unwrap_or_else(|e| e.into_inner())
        }
    }
}

impl FaultPlan {
    fn new() -> Arc<Self> {
        Arc::new(FaultPlan {
            counter: AtomicI64::new(0),
            fail_at: AtomicI64::new(0),
            sticky: AtomicBool::new(false),
            kinds: AtomicU64::new(7),
            fired: AtomicBool::new(false),
            enabled: AtomicBool::new(true),
            partial: AtomicBool::new(false),
            any_thread: AtomicBool::new(false),
            fired_on: parking_lot_free::Mutex::new(String::new()),
        })
    }

    fn check(&self, kind: Kind, what: &str) -> io::Result<()> {
        if !self.enabled.load(Ordering::SeqCst) {
            return Ok(());
        }
        let is_background = std::thread::current()
            .name()
            .map_or(false, |name| name.starts_with("raindb-"));
        if !is_background && !self.any_thread.load(Ordering::SeqCst) {
            return Ok(());
        }
        let bit = match kind {
            Kind::Read => 1,
            Kind::Write => 2,
            Kind::Meta => 4,
        };
        if self.kinds.load(Ordering::SeqCst) & bit == 0 {
            return Ok(());
        }
        let index = self.counter.fetch_add(1, Ordering::SeqCst) + 1;
        let fail_at = self.fail_at.load(Ordering::SeqCst);
        if fail_at == 0 {
            return Ok(());
        }
        let fire = index == fail_at || (self.sticky.load(Ordering::SeqCst) && index > fail_at);
        if fire {
            if !self.fired.swap(true, Ordering::SeqCst) {
                *self.fired_on.lock() = what.to_string();
            }
            return Err(io::Error::new(
                io::ErrorKind::Other,
                format!("injected fault #{index} on {what}"),
            ));
        }
        Ok(())
    }
}

struct FaultyFs {
    inner: InMemoryFileSystem,
    plan: Arc<FaultPlan>,
}

struct FaultyReadFile {
    inner: Box<dyn ReadonlyRandomAccessFile>,
    plan: Arc<FaultPlan>,
    path: PathBuf,
}

impl Read for FaultyReadFile {
    fn read(&mut self, buf: &mut [u8]) -> io::Result<usize> {
        self.plan
            .check(Kind::Read, &format!("read {:?}", self.path))?;
        self.inner.read(buf)
    }
}
impl Seek for FaultyReadFile {
    fn seek(&mut self, pos: SeekFrom) -> io::Result<u64> {
        self.inner.seek(pos)
    }
}
impl ReadonlyRandomAccessFile for FaultyReadFile {
    fn read_from(&self, buf: &mut [u8], offset: usize) -> io::Result<usize> {
        self.plan
            .check(Kind::Read, &format!("read_from {:?}", self.path))?;
        self.inner.read_from(buf, offset)
    }
    fn len(&self) -> io::Result<u64> {
        self.inner.len()
    }
}

struct FaultyFile {
    inner: Box<dyn RandomAccessFile>,
    plan: Arc<FaultPlan>,
    path: PathBuf,
}
impl Read for FaultyFile {
    fn read(&mut self, buf: &mut [u8]) -> io::Result<usize> {
        self.plan
            .check(Kind::Read, &format!("read {:?}", self.path))?;
        self.inner.read(buf)
    }
}
impl Seek for FaultyFile {
    fn seek(&mut self, pos: SeekFrom) -> io::Result<u64> {
        self.inner.seek(pos)
    }
}
impl Write for FaultyFile {
    fn write(&mut self, buf: &[u8]) -> io::Result<usize> {
        if let Err(err) = self
            .plan
            .check(Kind::Write, &format!("write {:?}", self.path))
        {
            if self.plan.partial.load(Ordering::SeqCst) && buf.len() > 1 {
                let _ = self.inner.write(&buf[..buf.len() / 2]);
            }
            return Err(err);
        }
        self.inner.write(buf)
    }
    fn flush(&mut self) -> io::Result<()> {
        self.plan
            .check(Kind::Write, &format!("flush {:?}", self.path))?;
        self.inner.flush()
    }
}
impl ReadonlyRandomAccessFile for FaultyFile {
    fn read_from(&self, buf: &mut [u8], offset: usize) -> io::Result<usize> {
        self.plan
            .check(Kind::Read, &format!("read_from {:?}", self.path))?;
        self.inner.read_from(buf, offset)
    }
    fn len(&self) -> io::Result<u64> {
        self.inner.len()
    }
}
impl RandomAccessFile for FaultyFile {
    fn append(&mut self, buf: &[u8]) -> io::Result<usize> {
        if let Err(err) = self
            .plan
            .check(Kind::Write, &format!("append {:?}", self.path))
        {
            if self.plan.partial.load(Ordering::SeqCst) && buf.len() > 1 {
                let _ = self.inner.append(&buf[..buf.len() / 2]);
            }
            return Err(err);
        }
        self.inner.append(buf)
    }
}

impl FileSystem for FaultyFs {
    fn get_name(&self) -> String {
        "FaultyFs".to_string()
    }
    fn create_dir(&self, path: &Path) -> io::Result<()> {
        self.inner.create_dir(path)
    }
    fn create_dir_all(&self, path: &Path) -> io::Result<()> {
        self.inner.create_dir_all(path)
    }
    fn list_dir(&self, path: &Path) -> io::Result<Vec<PathBuf>> {
        self.plan.check(Kind::Meta, &format!("list_dir {path:?}"))?;
        self.inner.list_dir(path)
    }
    fn open_file(&self, path: &Path) -> io::Result<Box<dyn ReadonlyRandomAccessFile>> {
        self.plan.check(Kind::Read, &format!("open_file {path:?}"))?;
        Ok(Box::new(FaultyReadFile {
            inner: self.inner.open_file(path)?,
            plan: Arc::clone(&self.plan),
            path: path.to_path_buf(),
        }))
    }
    fn rename(&self, from: &Path, to: &Path) -> io::Result<()> {
        self.plan.check(Kind::Meta, &format!("rename {from:?}"))?;
        self.inner.rename(from, to)
    }
    fn create_file(&self, path: &Path, append: bool) -> io::Result<Box<dyn RandomAccessFile>> {
        self.plan
            .check(Kind::Write, &format!("create_file {path:?}"))?;
        Ok(Box::new(FaultyFile {
            inner: self.inner.create_file(path, append)?,
            plan: Arc::clone(&self.plan),
            path: path.to_path_buf(),
        }))
    }
    fn remove_file(&self, path: &Path) -> io::Result<()> {
        self.plan.check(Kind::Meta, &format!("remove_file {path:?}"))?;
        self.inner.remove_file(path)
    }
    fn remove_dir(&self, path: &Path) -> io::Result<()> {
        self.inner.remove_dir(path)
    }
    fn remove_dir_all(&self, path: &Path) -> io::Result<()> {
        self.inner.remove_dir_all(path)
    }
    fn get_file_size(&self, path: &Path) -> io::Result<u64> {
        self.inner.get_file_size(path)
    }
    fn is_dir(&self, path: &Path) -> io::Result<bool> {
        self.inner.is_dir(path)
    }
    fn lock_file(&self, path: &Path) -> io::Result<FileLock> {
        self.inner.lock_file(path)
    }
}

struct Rng(u64);
impl Rng {
    fn next(&mut self) -> u64 {
        self.0 ^= self.0 >> 12;
        self.0 ^= self.0 << 25;
        self.0 ^= self.0 >> 27;
        self.0.wrapping_mul(0x2545F4914F6CDD1D)
    }
    fn below(&mut self, n: u64) -> u64 {
        self.next() % n
    }
}

/// Compare a view of the database with the model. Returns Err(description) on wrong data. Read
/// errors are counted in `read_errors` but are not failures.
fn check_view(
    db: &DB,
    snapshot: Option<&Snapshot>,
    model: &Model,
    keys: &[Vec<u8>],
    context: &str,
    read_errors: &mut usize,
) -> Result<(), String> {
    let read_options = || ReadOptions {
        fill_cache: false,
        snapshot: snapshot.cloned(),
    };
    for key in keys {
        let expected = model.get(key);
        match db.get(read_options(), key) {
            Ok(value) => {
                if expected != Some(&value) {
                    return Err(format!(
                        "{context}: get({:?}) returned {:?} but the property requires {:?}",
                        String::from_utf8_lossy(key),
                        String::from_utf8_lossy(&value[..value.len().min(12)]),
                        expected.map(|v| String::from_utf8_lossy(&v[..v.len().min(12)]).to_string())
                    ));
                }
            }
            Err(RainDBError::KeyNotFound) => {
                if let Some(v) = expected {
                    return Err(format!(
                        "{context}: get({:?}) returned KeyNotFound but the property requires {:?}",
                        String::from_utf8_lossy(key),
                        String::from_utf8_lossy(&v[..v.len().min(12)])
                    ));
                }
            }
            Err(_) => *read_errors += 1,
        }
    }

    let mut iter = match db.new_iterator(read_options()) {
        Ok(iter) => iter,
        Err(_) => {
            *read_errors += 1;
            return Ok(());
        }
    };
    if iter.seek_to_first().is_err() {
        *read_errors += 1;
        return Ok(());
    }
    let mut scanned: Vec<(Vec<u8>, Vec<u8>)> = vec![];
    while iter.is_valid() {
        let (k, v) = iter.current().unwrap();
        scanned.push((k.clone(), v.clone()));
        iter.next();
    }
    if iter.status().is_some() {
        *read_errors += 1;
        return Ok(());
    }
    let expected: Vec<(Vec<u8>, Vec<u8>)> =
        model.iter().map(|(k, v)| (k.clone(), v.clone())).collect();
    if scanned != expected {
        let got: Vec<String> = scanned
            .iter()
            .map(|e| String::from_utf8_lossy(&e.0).to_string())
            .collect();
        let want: Vec<String> = expected
            .iter()
            .map(|e| String::from_utf8_lossy(&e.0).to_string())
            .collect();
        return Err(format!(
            "{context}: a scan without error status returned keys {got:?} but the property requires {want:?} (same keys, different values: {})",
            got == want
        ));
    }
    Ok(())
}

struct Outcome {
    fired: bool,
    fired_on: String,
    ops_seen: i64,
    read_errors: usize,
}

fn run_workload(
    seed: u64,
    fail_at: i64,
    sticky: bool,
    kinds: u64,
    steps: usize,
) -> Result<Outcome, String> {
    run_workload_ext(seed, fail_at, sticky, kinds, steps, false, 0)
}

/// `open_fail_at` > 0: after the workload, the first attempt to reopen the database suffers a
/// fault at its `open_fail_at`-th file system operation (any thread, any kind). A failing open is
/// fine; the second, unfaulted open must succeed and show the model.
fn run_workload_ext(
    seed: u64,
    fail_at: i64,
    sticky: bool,
    kinds: u64,
    steps: usize,
    partial: bool,
    open_fail_at: i64,
) -> Result<Outcome, String> {
    let plan = FaultPlan::new();
    plan.partial.store(partial, Ordering::SeqCst);
    plan.fail_at.store(fail_at, Ordering::SeqCst);
    plan.sticky.store(sticky, Ordering::SeqCst);
    plan.kinds.store(kinds, Ordering::SeqCst);
    let fs: Arc<dyn FileSystem> = Arc::new(FaultyFs {
        inner: InMemoryFileSystem::new(),
        plan: Arc::clone(&plan),
    });
    let options = DbOptions {
        db_path: format!("/audit_faults_{seed}"),
        max_memtable_size: 700,
        max_file_size: 500,
        max_block_size: 128,
        filesystem_provider: Arc::clone(&fs),
        create_if_missing: true,
        reuse_log_files: seed % 2 == 0,
        ..DbOptions::default()
    };
    let keys: Vec<Vec<u8>> = (0..16u32)
        .map(|i| format!("k{:02}", i).into_bytes())
        .collect();
    let mut rng = Rng(seed.wrapping_mul(0x9E3779B97F4A7C15) | 1);
    let mut model = Model::new();
    let mut snapshots: Vec<(Snapshot, Model)> = vec![];
    let mut read_errors = 0usize;
    let ctx = format!(
        "seed {seed} fail_at {fail_at} sticky {sticky} kinds {kinds} partial {partial} open_fail_at {open_fail_at}"
    );

    let db = DB::open(options.clone()).map_err(|e| format!("{ctx}: open failed {e}"))?;
    let mut counter = 0u64;
    for step in 0..steps {
        let op = rng.below(100);
        let context = format!("{ctx} step {step}");
        if op < 50 {
            let key = keys[rng.below(keys.len() as u64) as usize].clone();
            counter += 1;
            let mut value = format!("v{counter}-").into_bytes();
            let len = rng.below(120) as usize;
            while value.len() < len {
                value.push(b'x');
            }
            if db
                .put(WriteOptions::default(), key.clone(), value.clone())
                .is_ok()
            {
                model.insert(key, value);
            }
        } else if op < 72 {
            let key = keys[rng.below(keys.len() as u64) as usize].clone();
            if db.delete(WriteOptions::default(), key.clone()).is_ok() {
                model.remove(&key);
            }
        } else if op < 77 {
            if snapshots.len() < 3 {
                snapshots.push((db.get_snapshot(), model.clone()));
            }
        } else if op < 80 {
            if !snapshots.is_empty() {
                let idx = rng.below(snapshots.len() as u64) as usize;
                let (snap, _) = snapshots.remove(idx);
                db.release_snapshot(snap);
            }
        } else if op < 88 {
            let a = keys[rng.below(keys.len() as u64) as usize].clone();
            let b = keys[rng.below(keys.len() as u64) as usize].clone();
            let (lo, hi) = if a <= b { (a, b) } else { (b, a) };
            let start = if rng.below(3) == 0 { None } else { Some(lo.as_slice()) };
            let end = if rng.below(3) == 0 { None } else { Some(hi.as_slice()) };
            db.compact_range(start..end);
        }

        if step % 4 == 0 || op >= 80 {
            check_view(&db, None, &model, &keys, &format!("{context} (latest)"), &mut read_errors)?;
            for (i, (snap, snap_model)) in snapshots.iter().enumerate() {
                check_view(
                    &db,
                    Some(snap),
                    snap_model,
                    &keys,
                    &format!("{context} (snapshot #{i})"),
                    &mut read_errors,
                )?;
            }
        }
    }
    check_view(&db, None, &model, &keys, &format!("{ctx} final (latest)"), &mut read_errors)?;
    for (snap, _) in snapshots.drain(..) {
        db.release_snapshot(snap);
    }
    drop(db);

    let mut open_ops = 0i64;
    if open_fail_at != 0 {
        // A faulted attempt to open first
        plan.counter.store(0, Ordering::SeqCst);
        plan.fired.store(false, Ordering::SeqCst);
        plan.kinds.store(7, Ordering::SeqCst);
        plan.sticky.store(false, Ordering::SeqCst);
        plan.any_thread.store(true, Ordering::SeqCst);
        plan.fail_at
            .store(if open_fail_at > 0 { open_fail_at } else { 0 }, Ordering::SeqCst);
        match DB::open(options.clone()) {
            Ok(db) => {
                let mut errors = 0usize;
                check_view(
                    &db,
                    None,
                    &model,
                    &keys,
                    &format!("{ctx} after an open that survived a fault on {:?}", plan.fired_on.lock()),
                    &mut errors,
                )?;
                drop(db);
            }
            Err(_) => {}
        }
        open_ops = plan.counter.load(Ordering::SeqCst);
    }

    // Reopen without faults. All acknowledged writes must be there and nothing else.
    plan.enabled.store(false, Ordering::SeqCst);
    let db = DB::open(options.clone()).map_err(|e| {
        format!(
            "{ctx}: reopen after the fault (fired on {:?}) failed: {e}",
            plan.fired_on.lock()
        )
    })?;
    let mut reopen_errors = 0usize;
    check_view(
        &db,
        None,
        &model,
        &keys,
        &format!("{ctx} after reopen (fault fired on {:?})", plan.fired_on.lock()),
        &mut reopen_errors,
    )?;
    if reopen_errors > 0 {
        return Err(format!("{ctx}: read errors after reopening without faults"));
    }
    db.compact_range(None..None);
    check_view(
        &db,
        None,
        &model,
        &keys,
        &format!("{ctx} after reopen and full compaction"),
        &mut reopen_errors,
    )?;
    drop(db);

    let fired_on = plan.fired_on.lock().clone();
    Ok(Outcome {
        fired: plan.fired.load(Ordering::SeqCst),
        fired_on,
        ops_seen: if open_fail_at != 0 {
            open_ops
        } else {
            plan.counter.load(Ordering::SeqCst)
        },
        read_errors,
    })
}

fn env_u64(name: &str, default: u64) -> u64 {
    std::env::var(name)
        .ok()
        .and_then(|s| s.parse().ok())
        .unwrap_or(default)
}

#[test]
fn background_io_fault_sweep() {
    let seeds = env_u64("AUDIT_FAULT_SEEDS", 2);
    let steps = env_u64("AUDIT_FAULT_STEPS", 250) as usize;
    let stride = env_u64("AUDIT_FAULT_STRIDE", 7) as i64;
    let mut failures: Vec<String> = vec![];
    let mut fired_total = 0usize;
    let mut kinds_seen: BTreeMap<String, usize> = BTreeMap::new();
    for seed in 1..=seeds {
        // Baseline to learn how many background operations the workload issues
        let baseline = match run_workload(seed, 0, false, 7, steps) {
            Ok(outcome) => outcome,
            Err(msg) => {
                failures.push(format!("baseline: {msg}"));
                continue;
            }
        };
        let total_ops = baseline.ops_seen;
        for (sticky, kinds) in [(false, 6u64), (true, 6u64), (false, 1u64)] {
            let mut fail_at = 1 + (seed as i64 % stride);
            while fail_at <= total_ops {
                match std::panic::catch_unwind(|| run_workload(seed, fail_at, sticky, kinds, steps)) {
                    Ok(Ok(outcome)) => {
                        if outcome.fired {
                            fired_total += 1;
                            let what = outcome
                                .fired_on
                                .split_whitespace()
                                .next()
                                .unwrap_or("")
                                .to_string();
                            *kinds_seen.entry(what).or_default() += 1;
                        }
                        let _ = outcome.read_errors;
                    }
                    Ok(Err(msg)) => {
                        eprintln!("FAIL {msg}");
                        failures.push(msg);
                    }
                    Err(p) => {
                        let msg = format!(
                            "seed {seed} fail_at {fail_at} sticky {sticky} kinds {kinds}: panic {:?}",
                            p.downcast_ref::<String>()
                                .cloned()
                                .or_else(|| p.downcast_ref::<&str>().map(|s| s.to_string()))
                        );
                        eprintln!("FAIL {msg}");
                        failures.push(msg);
                    }
                }
                fail_at += stride;
            }
        }
    }
    eprintln!("faults injected in {fired_total} runs; by operation: {kinds_seen:?}");
    assert!(
        failures.is_empty(),
        "{} fault runs violated the property; first: {}",
        failures.len(),
        failures[0]
    );
}

/// Like the sweep above, but a failing write leaves half of its bytes behind (full disk).
#[test]
fn background_partial_write_fault_sweep() {
    let seeds = env_u64("AUDIT_FAULT_SEEDS", 2);
    let steps = env_u64("AUDIT_FAULT_STEPS", 250) as usize;
    let stride = env_u64("AUDIT_FAULT_STRIDE", 7) as i64;
    let mut failures: Vec<String> = vec![];
    let mut fired_total = 0usize;
    for seed in 1..=seeds {
        let total_ops = match run_workload(seed, 0, false, 2, steps) {
            Ok(outcome) => outcome.ops_seen,
            Err(msg) => {
                failures.push(format!("baseline: {msg}"));
                continue;
            }
        };
        let mut fail_at = 1 + (seed as i64 % stride);
        while fail_at <= total_ops {
            match std::panic::catch_unwind(|| {
                run_workload_ext(seed, fail_at, false, 2, steps, true, 0)
            }) {
                Ok(Ok(outcome)) => {
                    if outcome.fired {
                        fired_total += 1;
                    }
                }
                Ok(Err(msg)) => {
                    eprintln!("FAIL {msg}");
                    failures.push(msg);
                }
                Err(p) => {
                    let msg = format!(
                        "seed {seed} fail_at {fail_at} partial: panic {:?}",
                        p.downcast_ref::<String>()
                            .cloned()
                            .or_else(|| p.downcast_ref::<&str>().map(|s| s.to_string()))
                    );
                    eprintln!("FAIL {msg}");
                    failures.push(msg);
                }
            }
            fail_at += stride;
        }
    }
    eprintln!("partial-write faults injected in {fired_total} runs");
    assert!(
        failures.is_empty(),
        "{} partial-write fault runs violated the property; first: {}",
        failures.len(),
        failures[0]
    );
}

/// Faults during recovery (which flushes the recovered write-ahead logs to table files and
/// installs a new manifest): the faulted open may fail, but it must not damage the database.
#[test]
fn fault_during_open_sweep() {
    let seeds = env_u64("AUDIT_FAULT_SEEDS", 2);
    let steps = env_u64("AUDIT_OPEN_FAULT_STEPS", 120) as usize;
    let mut failures: Vec<String> = vec![];
    let mut fired_total = 0usize;
    for seed in 1..=seeds {
        for partial in [false, true] {
            // Learn how many operations an unfaulted open issues (open_fail_at < 0 only counts)
            let total_ops = match run_workload_ext(seed, 0, false, 7, steps, partial, -1) {
                Ok(outcome) => outcome.ops_seen,
                Err(msg) => {
                    failures.push(format!("baseline: {msg}"));
                    continue;
                }
            };
            for open_fail_at in 1..=total_ops {
                match std::panic::catch_unwind(|| {
                    run_workload_ext(seed, 0, false, 7, steps, partial, open_fail_at)
                }) {
                    Ok(Ok(outcome)) => {
                        if outcome.fired {
                            fired_total += 1;
                        }
                    }
                    Ok(Err(msg)) => {
                        eprintln!("FAIL {msg}");
                        failures.push(msg);
                    }
                    Err(p) => {
                        let msg = format!(
                            "seed {seed} open_fail_at {open_fail_at} partial {partial}: panic {:?}",
                            p.downcast_ref::<String>()
                                .cloned()
                                .or_else(|| p.downcast_ref::<&str>().map(|s| s.to_string()))
                        );
                        eprintln!("FAIL {msg}");
                        failures.push(msg);
                    }
                }
            }
        }
    }
    eprintln!("faults injected into {fired_total} opens");
    assert!(
        failures.is_empty(),
        "{} faulted opens violated the property; first: {}",
        failures.len(),
        failures[0]
    );
}
