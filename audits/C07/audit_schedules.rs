//! Forced schedules (via the `verif` scheduling points) for the property "compaction and flushing
//! are invisible to readers".
#![cfg(feature = "verif")]

use std::collections::{BTreeMap, HashMap};
use std::sync::{Arc, Condvar, Mutex};
use std::thread;
use std::time::{Duration, Instant};

use raindb::fs::{FileSystem, InMemoryFileSystem};
use raindb::verif::{set_handler, Handler};
use raindb::{DbOptions, RainDBError, RainDbIterator, ReadOptions, Snapshot, WriteOptions, DB};

static SERIAL: Mutex<()> = Mutex::new(());

#[derive(Default)]
struct Gate {
    armed: usize,
    parked: usize,
    releases: usize,
    background_only: bool,
    foreground_only: bool,
}

#[derive(Default)]
struct Gates {
    gates: Mutex<HashMap<&'static str, Gate>>,
    cv: Condvar,
    notes: Mutex<Vec<(String, Vec<u64>)>>,
}

impl Gates {
    fn arm(&self, point: &'static str, background_only: bool, foreground_only: bool) {
        let mut gates = self.gates.lock().unwrap();
        let gate = gates.entry(point).or_default();
        gate.armed += 1;
        gate.background_only = background_only;
        gate.foreground_only = foreground_only;
    }

    fn wait_parked(&self, point: &'static str, timeout: Duration) -> bool {
        let deadline = Instant::now() + timeout;
        let mut gates = self.gates.lock().unwrap();
        loop {
            if gates.get(point).map_or(false, |g| g.parked > 0) {
                return true;
            }
            let now = Instant::now();
            if now >= deadline {
                return false;
            }
            let (guard, _) = self.cv.wait_timeout(gates, deadline - now).unwrap();
            gates = guard;
        }
    }

    fn release(&self, point: &'static str) {
        let mut gates = self.gates.lock().unwrap();
        let gate = gates.entry(point).or_default();
        gate.releases += 1;
        self.cv.notify_all();
    }

    fn disarm_all(&self) {
        let mut gates = self.gates.lock().unwrap();
        for gate in gates.values_mut() {
            gate.armed = 0;
            gate.releases += 1000;
        }
        self.cv.notify_all();
    }

    fn count_notes(&self, point: &str) -> usize {
        self.notes
            .lock()
            .unwrap()
            .iter()
            .filter(|(name, _)| name == point)
            .count()
    }
}

impl Handler for Gates {
    fn pause(&self, point: &'static str, _args: &[u64]) {
        let is_background = thread::current()
            .name()
            .map_or(false, |name| name.starts_with("raindb-"));
        let mut gates = self.gates.lock().unwrap();
        let gate = match gates.get_mut(point) {
            Some(gate) => gate,
            None => return,
        };
        if gate.armed == 0
            || (gate.background_only && !is_background)
            || (gate.foreground_only && is_background)
        {
            return;
        }
        gate.armed -= 1;
        gate.parked += 1;
        self.cv.notify_all();
        loop {
            let gate = gates.get_mut(point).unwrap();
            if gate.releases > 0 {
                gate.releases -= 1;
                gate.parked -= 1;
                self.cv.notify_all();
                return;
            }
            gates = self.cv.wait(gates).unwrap();
        }
    }

    fn note(&self, point: &'static str, args: &[u64]) {
        self.notes
            .lock()
            .unwrap()
            .push((point.to_string(), args.to_vec()));
    }
}

fn options(name: &str, mem: usize, file: u64) -> DbOptions {
    let fs: Arc<dyn FileSystem> = Arc::new(InMemoryFileSystem::new());
    DbOptions {
        db_path: format!("/audit_sched_{name}"),
        max_memtable_size: mem,
        max_file_size: file,
        max_block_size: 128,
        filesystem_provider: fs,
        create_if_missing: true,
        ..DbOptions::default()
    }
}

fn key(i: usize) -> Vec<u8> {
    format!("key{:03}", i).into_bytes()
}

fn value(tag: &str, i: usize) -> Vec<u8> {
    format!("{tag}-{i:03}-{}", "p".repeat(40)).into_bytes()
}

type Model = BTreeMap<Vec<u8>, Vec<u8>>;

fn scan(db: &DB, snapshot: Option<&Snapshot>) -> Result<Vec<(Vec<u8>, Vec<u8>)>, String> {
    let mut iter = db
        .new_iterator(ReadOptions {
            fill_cache: true,
            snapshot: snapshot.cloned(),
        })
        .map_err(|e| e.to_string())?;
    iter.seek_to_first().map_err(|e| e.to_string())?;
    let mut out = vec![];
    while iter.is_valid() {
        let (k, v) = iter.current().unwrap();
        out.push((k.clone(), v.clone()));
        iter.next();
    }
    if let Some(err) = iter.status() {
        return Err(err.to_string());
    }
    Ok(out)
}

fn assert_view(db: &DB, snapshot: Option<&Snapshot>, model: &Model, n_keys: usize, context: &str) {
    for i in 0..n_keys {
        let k = key(i);
        let got = db.get(
            ReadOptions {
                fill_cache: true,
                snapshot: snapshot.cloned(),
            },
            &k,
        );
        match (got, model.get(&k)) {
            (Ok(v), Some(want)) => assert!(
                &v == want,
                "{context}: get({}) returned {:?} but the property requires {:?}",
                String::from_utf8_lossy(&k),
                String::from_utf8_lossy(&v[..8.min(v.len())]),
                String::from_utf8_lossy(&want[..8.min(want.len())])
            ),
            (Err(RainDBError::KeyNotFound), None) => {}
            (Ok(v), None) => panic!(
                "{context}: get({}) returned {:?} but the property requires the key to be absent (deleted key reappeared)",
                String::from_utf8_lossy(&k),
                String::from_utf8_lossy(&v[..8.min(v.len())])
            ),
            (Err(e), want) => panic!(
                "{context}: get({}) failed with {e} but the property requires {:?}",
                String::from_utf8_lossy(&k),
                want.map(|w| String::from_utf8_lossy(&w[..8.min(w.len())]).to_string())
            ),
        }
    }
    let scanned = scan(db, snapshot).unwrap_or_else(|e| panic!("{context}: scan failed: {e}"));
    let want: Vec<(Vec<u8>, Vec<u8>)> = model.iter().map(|(k, v)| (k.clone(), v.clone())).collect();
    assert!(
        scanned == want,
        "{context}: scan returned keys {:?} but the property requires {:?}",
        scanned
            .iter()
            .map(|e| String::from_utf8_lossy(&e.0).to_string())
            .collect::<Vec<_>>(),
        want.iter()
            .map(|e| String::from_utf8_lossy(&e.0).to_string())
            .collect::<Vec<_>>()
    );
}

fn wait_idle(db: &DB) {
    for _ in 0..20000 {
        let probe = db.verif_probe();
        if !probe.background_compaction_scheduled && !probe.has_immutable_memtable {
            return;
        }
        thread::sleep(Duration::from_millis(1));
    }
    panic!("database did not become idle");
}

/// A point lookup that already chose its version is parked before touching the table files while
/// a full compaction replaces (and garbage collects) every file of that version.
#[test]
fn parked_get_survives_compaction_and_gc() {
    let _serial = SERIAL.lock().unwrap_or_else(|e| e.into_inner());
    let gates = Arc::new(Gates::default());
    set_handler(Some(gates.clone()));

    let db = Arc::new(DB::open(options("parked_get", 4000, 600)).unwrap());
    let n = 30;
    let mut model = Model::new();
    for i in 0..n {
        db.put(WriteOptions::default(), key(i), value("old", i)).unwrap();
        model.insert(key(i), value("old", i));
    }
    db.compact_range(None..None);
    wait_idle(&db);
    let files_before: Vec<u64> = db.verif_files().iter().map(|f| f.number).collect();
    assert!(!files_before.is_empty());

    gates.arm("get.before_tables", false, true);
    let reader_db = Arc::clone(&db);
    let reader = thread::spawn(move || reader_db.get(ReadOptions::default(), &key(17)));
    assert!(
        gates.wait_parked("get.before_tables", Duration::from_secs(20)),
        "reader did not reach the scheduling point"
    );

    // Replace every file while the reader is parked
    for i in 0..n {
        if i % 3 == 0 {
            db.delete(WriteOptions::default(), key(i)).unwrap();
            model.remove(&key(i));
        } else {
            db.put(WriteOptions::default(), key(i), value("new", i)).unwrap();
            model.insert(key(i), value("new", i));
        }
    }
    db.compact_range(None..None);
    wait_idle(&db);
    let files_after: Vec<u64> = db.verif_files().iter().map(|f| f.number).collect();
    assert!(
        files_before.iter().all(|f| !files_after.contains(f)),
        "test setup: the old files should have been compacted away"
    );

    gates.release("get.before_tables");
    let result = reader.join().unwrap();
    // The lookup started before the overwrite, so it reads at the old sequence number
    match result {
        Ok(v) => assert!(
            v == value("old", 17),
            "a get that started before the compaction returned {:?}; the property requires the value {:?} it would have returned without the compaction",
            String::from_utf8_lossy(&v[..8]),
            "old-017"
        ),
        Err(e) => panic!(
            "a get that started before the compaction failed with {e}; the property requires the value old-017 (compaction must be invisible)"
        ),
    }
    assert_view(&db, None, &model, n, "after compaction");

    gates.disarm_all();
    set_handler(None);
}

/// An iterator (with and without an explicit snapshot) that is half way through its scan while
/// flushes, compactions and file removals happen must yield exactly the contents at its creation.
#[test]
fn open_iterators_survive_compaction_and_gc() {
    let _serial = SERIAL.lock().unwrap_or_else(|e| e.into_inner());
    set_handler(None);

    let db = DB::open(options("open_iter", 1500, 400)).unwrap();
    let n = 60;
    let mut model = Model::new();
    for round in 0..3 {
        for i in 0..n {
            if (i + round) % 4 == 0 {
                db.delete(WriteOptions::default(), key(i)).unwrap();
                model.remove(&key(i));
            } else {
                let v = value(&format!("r{round}"), i);
                db.put(WriteOptions::default(), key(i), v.clone()).unwrap();
                model.insert(key(i), v);
            }
        }
    }
    let frozen = model.clone();
    let snapshot = db.get_snapshot();
    let mut iter_plain = db.new_iterator(ReadOptions::default()).unwrap();
    let mut iter_snap = db
        .new_iterator(ReadOptions {
            fill_cache: true,
            snapshot: Some(snapshot.clone()),
        })
        .unwrap();
    iter_plain.seek_to_first().unwrap();
    iter_snap.seek_to_last().unwrap();
    let mut got_plain: Vec<(Vec<u8>, Vec<u8>)> = vec![];
    let mut got_snap_rev: Vec<(Vec<u8>, Vec<u8>)> = vec![];
    for _ in 0..10 {
        let (k, v) = iter_plain.current().unwrap();
        got_plain.push((k.clone(), v.clone()));
        iter_plain.next();
        let (k, v) = iter_snap.current().unwrap();
        got_snap_rev.push((k.clone(), v.clone()));
        iter_snap.prev();
    }

    // Churn: overwrite everything several times, compact everything, repeatedly
    for round in 3..8 {
        for i in 0..n {
            if (i + round) % 3 == 0 {
                db.delete(WriteOptions::default(), key(i)).unwrap();
                model.remove(&key(i));
            } else {
                let v = value(&format!("r{round}"), i);
                db.put(WriteOptions::default(), key(i), v.clone()).unwrap();
                model.insert(key(i), v);
            }
        }
        db.compact_range(None..None);
    }
    wait_idle(&db);

    while iter_plain.is_valid() {
        let (k, v) = iter_plain.current().unwrap();
        got_plain.push((k.clone(), v.clone()));
        iter_plain.next();
    }
    assert!(iter_plain.status().is_none(), "plain iterator error: {:?}", iter_plain.status());
    while iter_snap.is_valid() {
        let (k, v) = iter_snap.current().unwrap();
        got_snap_rev.push((k.clone(), v.clone()));
        iter_snap.prev();
    }
    assert!(iter_snap.status().is_none(), "snapshot iterator error: {:?}", iter_snap.status());
    got_snap_rev.reverse();
    let want: Vec<(Vec<u8>, Vec<u8>)> = frozen.iter().map(|(k, v)| (k.clone(), v.clone())).collect();
    assert!(
        got_plain == want,
        "an iterator opened before the compactions yielded {} entries; the property requires the {} entries that existed when it was opened",
        got_plain.len(),
        want.len()
    );
    assert!(
        got_snap_rev == want,
        "a snapshot iterator (backward) opened before the compactions yielded {} entries; the property requires {}",
        got_snap_rev.len(),
        want.len()
    );
    assert_view(&db, Some(&snapshot), &frozen, n, "snapshot after churn");
    assert_view(&db, None, &model, n, "latest after churn");
    drop(iter_plain);
    drop(iter_snap);
    db.release_snapshot(snapshot);
}

/// A table compaction is parked in the middle of its merge loop. Meanwhile a snapshot is taken,
/// keys of the compaction's range are overwritten and deleted, and the memtable is rotated so that
/// the compaction thread flushes it from inside the compaction. Then the compaction finishes.
#[test]
fn snapshot_and_nested_flush_inside_a_parked_compaction() {
    let _serial = SERIAL.lock().unwrap_or_else(|e| e.into_inner());
    let gates = Arc::new(Gates::default());
    set_handler(Some(gates.clone()));

    let db = Arc::new(DB::open(options("nested", 2500, 500)).unwrap());
    let n = 40;
    let mut model = Model::new();
    // Base data, pushed down into the tree
    for i in 0..n {
        db.put(WriteOptions::default(), key(i), value("base", i)).unwrap();
        model.insert(key(i), value("base", i));
    }
    db.compact_range(None..None);
    // Newer data and tombstones above it
    for i in 0..n {
        if i % 2 == 0 {
            db.delete(WriteOptions::default(), key(i)).unwrap();
            model.remove(&key(i));
        } else {
            db.put(WriteOptions::default(), key(i), value("mid", i)).unwrap();
            model.insert(key(i), value("mid", i));
        }
    }
    wait_idle(&db);
    let before = model.clone();

    // Park the next table compaction after a few merge steps
    gates.arm("compact.step", true, false);
    let compactor_db = Arc::clone(&db);
    let compactor = thread::spawn(move || compactor_db.compact_range(None..None));
    assert!(
        gates.wait_parked("compact.step", Duration::from_secs(30)),
        "no table compaction reached the merge loop"
    );

    // The compaction has fixed its smallest snapshot already. Take a snapshot now.
    let snapshot = db.get_snapshot();
    let at_snapshot = model.clone();
    assert_view(&db, None, &before, n, "while the compaction is parked");

    // Overwrite / delete / resurrect keys, enough to rotate the memtable at least once
    let writer_db = Arc::clone(&db);
    let mut model_after = model.clone();
    for i in 0..n {
        match i % 4 {
            0 => {
                model_after.insert(key(i), value("late", i));
            }
            1 => {
                model_after.remove(&key(i));
            }
            _ => {}
        }
    }
    let writer = thread::spawn(move || {
        for i in 0..n {
            match i % 4 {
                0 => writer_db
                    .put(WriteOptions::default(), key(i), value("late", i))
                    .unwrap(),
                1 => writer_db.delete(WriteOptions::default(), key(i)).unwrap(),
                _ => {}
            }
        }
    });
    // The writer may block on a full memtable until the parked compaction thread flushes it, so
    // release the compaction step by step.
    let start = Instant::now();
    while !writer.is_finished() {
        gates.arm("compact.step", true, false);
        gates.release("compact.step");
        thread::sleep(Duration::from_millis(2));
        assert!(start.elapsed() < Duration::from_secs(60), "writer stuck");
    }
    writer.join().unwrap();
    let model = model_after;
    let flushes_inside = gates.count_notes("imm.drop");

    assert_view(&db, Some(&snapshot), &at_snapshot, n, "snapshot taken during the compaction (compaction still running)");
    assert_view(&db, None, &model, n, "latest (compaction still running)");

    gates.disarm_all();
    compactor.join().unwrap();
    wait_idle(&db);
    eprintln!("flushes observed while the compaction was throttled: {flushes_inside}");

    assert_view(&db, Some(&snapshot), &at_snapshot, n, "snapshot taken during the compaction (after it finished)");
    assert_view(&db, None, &model, n, "latest (after the compaction finished)");
    db.compact_range(None..None);
    wait_idle(&db);
    assert_view(&db, Some(&snapshot), &at_snapshot, n, "snapshot after a further full compaction");
    assert_view(&db, None, &model, n, "latest after a further full compaction");
    db.release_snapshot(snapshot);
    db.compact_range(None..None);
    assert_view(&db, None, &model, n, "latest after releasing the snapshot and compacting");

    set_handler(None);
}

/// The database is closed while a table compaction is parked in its merge loop; after reopening
/// the contents must be unchanged.
#[test]
fn close_during_compaction_then_reopen() {
    let _serial = SERIAL.lock().unwrap_or_else(|e| e.into_inner());
    let gates = Arc::new(Gates::default());
    set_handler(Some(gates.clone()));

    let opts = options("close", 2000, 400);
    let db = Arc::new(DB::open(opts.clone()).unwrap());
    let n = 50;
    let mut model = Model::new();
    for round in 0..3 {
        for i in 0..n {
            if (i + round) % 5 == 0 {
                db.delete(WriteOptions::default(), key(i)).unwrap();
                model.remove(&key(i));
            } else {
                let v = value(&format!("r{round}"), i);
                db.put(WriteOptions::default(), key(i), v.clone()).unwrap();
                model.insert(key(i), v);
            }
        }
    }
    wait_idle(&db);
    gates.arm("compact.step", true, false);
    let compactor_db = Arc::clone(&db);
    let compactor = thread::spawn(move || compactor_db.compact_range(None..None));
    assert!(gates.wait_parked("compact.step", Duration::from_secs(30)));
    // Let a few steps pass so that an output file is open
    for _ in 0..15 {
        gates.arm("compact.step", true, false);
        gates.release("compact.step");
        gates.wait_parked("compact.step", Duration::from_secs(5));
    }
    assert_view(&db, None, &model, n, "while the compaction is parked");

    // Close: drop our handle in another thread (drop waits for the background work), then let the
    // compaction go on.
    let db_for_drop = Arc::clone(&db);
    drop(db);
    let dropper = thread::spawn(move || {
        // wait until the compactor thread released its clone
        let mut handle = db_for_drop;
        loop {
            match Arc::try_unwrap(handle) {
                Ok(db) => {
                    drop(db);
                    return;
                }
                Err(again) => {
                    handle = again;
                    thread::sleep(Duration::from_millis(1));
                }
            }
        }
    });
    thread::sleep(Duration::from_millis(50));
    gates.disarm_all();
    compactor.join().unwrap();
    dropper.join().unwrap();
    set_handler(None);

    let db = DB::open(opts).unwrap();
    assert_view(&db, None, &model, n, "after close during compaction and reopen");
    db.compact_range(None..None);
    assert_view(&db, None, &model, n, "after reopen and full compaction");
}
