// Search harness (not a deliverable): randomized concurrent histories with a per-key register
// checker, snapshot prefix checks and schedule perturbation through the verif hooks.
//
// cargo test --offline --features verif --test audit_search -- --nocapture
#![cfg(feature = "verif")]

use std::cell::Cell;
use std::collections::HashMap;
use std::sync::atomic::{AtomicBool, AtomicU64, Ordering};
use std::sync::Arc;
use std::thread;
use std::time::Duration;

use raindb::fs::InMemoryFileSystem;
use raindb::verif::Handler;
use raindb::{Batch, DbOptions, RainDBError, RainDbIterator, ReadOptions, WriteOptions, DB};

static CLOCK: AtomicU64 = AtomicU64::new(1);
fn tick() -> u64 {
    CLOCK.fetch_add(1, Ordering::SeqCst)
}

thread_local! {
    static RNG: Cell<u64> = Cell::new(0x9E3779B97F4A7C15);
}
fn seed_thread(seed: u64) {
    let mut z = seed.wrapping_add(0x9E3779B97F4A7C15);
    z = (z ^ (z >> 30)).wrapping_mul(0xBF58476D1CE4E5B9);
    z = (z ^ (z >> 27)).wrapping_mul(0x94D049BB133111EB);
    z ^= z >> 31;
    RNG.with(|r| r.set(z | 1));
}
fn rnd() -> u64 {
    RNG.with(|r| {
        let mut x = r.get();
        x ^= x << 13;
        x ^= x >> 7;
        x ^= x << 17;
        r.set(x);
        x
    })
}

static PARKS: std::sync::Mutex<std::collections::BTreeMap<&'static str, u64>> = std::sync::Mutex::new(std::collections::BTreeMap::new());

struct Chaos {
    level: u64,
}
impl Handler for Chaos {
    fn pause(&self, point: &'static str, _args: &[u64]) {
        let lp = env("LONGPARK", 0);
        if lp > 0 && point != "compact.step" && point != "worker.idle" && rnd() % lp == 0 {
            {
                let mut m = PARKS.lock().unwrap();
                *m.entry(point).or_insert(0) += 1;
            }
            thread::sleep(Duration::from_millis(30 + rnd() % 60));
            return;
        }
        let r = rnd() % 1000;
        let reader = point.starts_with("get.");
        if self.level == 0 {
            return;
        }
        if reader {
            if r < 30 * self.level {
                thread::sleep(Duration::from_micros(200 + rnd() % 3000));
            } else if r < 300 {
                thread::yield_now();
            }
        } else if point == "compact.step" {
            if self.level >= 3 && r < 150 {
                thread::sleep(Duration::from_micros(500 + rnd() % 1500));
            } else if r < 5 {
                thread::sleep(Duration::from_micros(rnd() % 300));
            }
        } else if r < 10 * self.level {
            thread::sleep(Duration::from_micros(50 + rnd() % 800));
        } else if r < 200 {
            thread::yield_now();
        }
    }
    fn note(&self, _point: &'static str, _args: &[u64]) {}
}

#[derive(Clone, Debug)]
struct WriteRec {
    writer: usize,
    key: usize,
    ver: u64,
    is_delete: bool,
    op: u64,
    inv: u64,
    resp: u64,
}
#[derive(Clone, Debug)]
struct ReadRec {
    thread: usize,
    writer: usize,
    key: usize,
    got: Option<u64>,
    inv: u64,
    resp: u64,
}
#[derive(Clone, Debug)]
struct SnapRec {
    writer: usize,
    kind: &'static str,
    got: Vec<Option<u64>>,
    inv: u64,
    resp: u64,
}

fn key_of(w: usize, k: usize, long: bool) -> Vec<u8> {
    let mut s = format!("w{:02}k{:03}", w, k).into_bytes();
    if long {
        s.extend(std::iter::repeat(b'K').take(200));
    }
    s
}
fn val_of(w: usize, k: usize, ver: u64, pad: usize) -> Vec<u8> {
    let mut s = format!("{}:{}:{}:", w, k, ver).into_bytes();
    s.extend(std::iter::repeat(b'x').take(pad));
    s
}
fn parse_val(v: &[u8]) -> (usize, usize, u64) {
    let s = std::str::from_utf8(v).unwrap();
    let mut it = s.split(':');
    (
        it.next().unwrap().parse().unwrap(),
        it.next().unwrap().parse().unwrap(),
        it.next().unwrap().parse().unwrap(),
    )
}

struct Cfg {
    seed: u64,
    writers: usize,
    readers: usize,
    keys: usize,
    ops: usize,
    memtable: usize,
    file: u64,
    block: usize,
    chaos: u64,
    long_keys: bool,
    pad: usize,
    compactor: bool,
}

fn run(cfg: &Cfg) -> Vec<String> {
    let mut opts = DbOptions::with_memory_env();
    opts.filesystem_provider = Arc::new(InMemoryFileSystem::new());
    if cfg.seed % 2 == 1 && env("DISK", 0) == 1 {
        opts.filesystem_provider = Arc::new(raindb::fs::TmpFileSystem::new(Some(std::path::Path::new("/tmp/a3/C05/target/tmpfs"))));
    }
    opts.db_path = format!("audit{}", cfg.seed);
    opts.create_if_missing = true;
    opts.max_memtable_size = cfg.memtable;
    opts.max_file_size = cfg.file;
    opts.max_block_size = cfg.block;
    let db = Arc::new(DB::open(opts).unwrap());
    raindb::verif::set_handler(Some(Arc::new(Chaos { level: cfg.chaos })));

    let stop = Arc::new(AtomicBool::new(false));
    let mut whandles = vec![];
    for w in 0..cfg.writers {
        let db = Arc::clone(&db);
        let (keys, ops, seed, long, padmax) = (cfg.keys, cfg.ops, cfg.seed, cfg.long_keys, cfg.pad);
        whandles.push(thread::spawn(move || {
            seed_thread(seed.wrapping_mul(7919).wrapping_add(w as u64 * 104729 + 1));
            let mut vers = vec![0u64; keys];
            let mut log: Vec<WriteRec> = vec![];
            for op in 1..=(ops as u64) {
                let r = rnd() % 100;
                let sync = rnd() % 4 == 0;
                let wo = WriteOptions { synchronous: sync };
                if r < 60 {
                    let k = (rnd() as usize) % keys;
                    vers[k] += 1;
                    let v = val_of(w, k, vers[k], (rnd() as usize) % (padmax + 1));
                    let inv = tick();
                    let res = db.put(wo, key_of(w, k, long), v);
                    let resp = tick();
                    res.unwrap();
                    log.push(WriteRec { writer: w, key: k, ver: vers[k], is_delete: false, op, inv, resp });
                } else if r < 75 {
                    let k = (rnd() as usize) % keys;
                    vers[k] += 1;
                    let inv = tick();
                    let res = db.delete(wo, key_of(w, k, long));
                    let resp = tick();
                    res.unwrap();
                    log.push(WriteRec { writer: w, key: k, ver: vers[k], is_delete: true, op, inv, resp });
                } else {
                    let n = 1 + (rnd() as usize) % 6;
                    let mut b = Batch::new();
                    let mut recs = vec![];
                    for _ in 0..n {
                        let k = (rnd() as usize) % keys;
                        vers[k] += 1;
                        let del = rnd() % 5 == 0;
                        if del {
                            b.add_delete(key_of(w, k, long));
                        } else {
                            b.add_put(key_of(w, k, long), val_of(w, k, vers[k], (rnd() as usize) % (padmax + 1)));
                        }
                        recs.push((k, vers[k], del));
                    }
                    let inv = tick();
                    let res = db.apply(wo, b);
                    let resp = tick();
                    res.unwrap();
                    for (k, ver, del) in recs {
                        log.push(WriteRec { writer: w, key: k, ver, is_delete: del, op, inv, resp });
                    }
                }
            }
            log
        }));
    }

    let mut rhandles = vec![];
    for t in 0..cfg.readers {
        let db = Arc::clone(&db);
        let stop = Arc::clone(&stop);
        let (keys, writers, seed, long) = (cfg.keys, cfg.writers, cfg.seed, cfg.long_keys);
        rhandles.push(thread::spawn(move || {
            seed_thread(seed.wrapping_mul(15485863).wrapping_add(t as u64 * 32452843 + 17));
            let mut reads: Vec<ReadRec> = vec![];
            let mut snaps: Vec<SnapRec> = vec![];
            let mut errs: Vec<String> = vec![];
            while !stop.load(Ordering::Acquire) {
                let r = rnd() % 100;
                let w = (rnd() as usize) % writers;
                if r < 80 {
                    let k = (rnd() as usize) % keys;
                    let inv = tick();
                    let res = db.get(ReadOptions::default(), &key_of(w, k, long));
                    let resp = tick();
                    let got = match res {
                        Ok(v) => {
                            let (pw, pk, ver) = parse_val(&v);
                            if pw != w || pk != k {
                                errs.push(format!("get of w{} k{} returned value of w{} k{}", w, k, pw, pk));
                            }
                            Some(ver)
                        }
                        Err(RainDBError::KeyNotFound) => None,
                        Err(e) => {
                            errs.push(format!("get error {}", e));
                            continue;
                        }
                    };
                    reads.push(ReadRec { thread: t, writer: w, key: k, got, inv, resp });
                } else if r < 90 {
                    // snapshot gets, twice
                    let inv = tick();
                    let snap = db.get_snapshot();
                    let resp = tick();
                    let mut got = vec![];
                    for k in 0..keys {
                        let ro = ReadOptions { fill_cache: rnd() % 2 == 0, snapshot: Some(snap.clone()) };
                        match db.get(ro, &key_of(w, k, long)) {
                            Ok(v) => got.push(Some(parse_val(&v).2)),
                            Err(RainDBError::KeyNotFound) => got.push(None),
                            Err(e) => {
                                errs.push(format!("snapshot get error {}", e));
                                got.push(None)
                            }
                        }
                    }
                    if rnd() % 2 == 0 {
                        thread::sleep(Duration::from_micros(rnd() % 2000));
                    } else if rnd() % 3 == 0 {
                        thread::sleep(Duration::from_millis(rnd() % 40));
                    }
                    let mut got2 = vec![];
                    for k in 0..keys {
                        let ro = ReadOptions { fill_cache: true, snapshot: Some(snap.clone()) };
                        match db.get(ro, &key_of(w, k, long)) {
                            Ok(v) => got2.push(Some(parse_val(&v).2)),
                            Err(RainDBError::KeyNotFound) => got2.push(None),
                            Err(e) => {
                                errs.push(format!("snapshot get error {}", e));
                                got2.push(None)
                            }
                        }
                    }
                    if got != got2 {
                        errs.push(format!("snapshot reads not repeatable: {:?} vs {:?}", got, got2));
                    }
                    // iterator under the snapshot
                    let ro = ReadOptions { fill_cache: true, snapshot: Some(snap.clone()) };
                    let mut it = db.new_iterator(ro).unwrap();
                    let mut got3 = vec![None; keys];
                    it.seek(&key_of(w, 0, false)).unwrap();
                    while it.is_valid() {
                        let (k, v) = it.current().unwrap();
                        if !k.starts_with(format!("w{:02}", w).as_bytes()) {
                            break;
                        }
                        let (pw, pk, ver) = parse_val(v);
                        assert_eq!(pw, w);
                        got3[pk] = Some(ver);
                        it.next();
                    }
                    if let Some(e) = it.status() {
                        errs.push(format!("iterator status {}", e));
                    }
                    drop(it);
                    if got3 != got {
                        errs.push(format!("snapshot iterator differs from snapshot gets: {:?} vs {:?}", got3, got));
                    }
                    db.release_snapshot(snap);
                    snaps.push(SnapRec { writer: w, kind: "snapshot", got, inv, resp });
                } else {
                    // plain iterator
                    let inv = tick();
                    let mut it = db.new_iterator(ReadOptions::default()).unwrap();
                    let resp = tick();
                    let mut got3 = vec![None; keys];
                    let backward = rnd() % 3 == 0;
                    if rnd() % 3 == 0 {
                        thread::sleep(Duration::from_millis(rnd() % 40));
                    }
                    if !backward {
                        it.seek(&key_of(w, 0, false)).unwrap();
                        while it.is_valid() {
                            let (k, v) = it.current().unwrap();
                            if !k.starts_with(format!("w{:02}", w).as_bytes()) {
                                break;
                            }
                            let (_, pk, ver) = parse_val(v);
                            got3[pk] = Some(ver);
                            it.next();
                        }
                    } else {
                        it.seek(&key_of(w + 1, 0, false)).unwrap();
                        if !it.is_valid() {
                            it.seek_to_last().unwrap();
                        } else {
                            it.prev();
                        }
                        while it.is_valid() {
                            let (k, v) = it.current().unwrap();
                            if !k.starts_with(format!("w{:02}", w).as_bytes()) {
                                break;
                            }
                            let (_, pk, ver) = parse_val(v);
                            got3[pk] = Some(ver);
                            it.prev();
                        }
                    }
                    if let Some(e) = it.status() {
                        errs.push(format!("iterator status {}", e));
                    }
                    snaps.push(SnapRec { writer: w, kind: if backward { "iter-back" } else { "iter" }, got: got3, inv, resp });
                }
            }
            (reads, snaps, errs)
        }));
    }

    let comp = if cfg.compactor {
        let db = Arc::clone(&db);
        let stop = Arc::clone(&stop);
        let seed = cfg.seed;
        let writers = cfg.writers;
        Some(thread::spawn(move || {
            seed_thread(seed ^ 0xABCDEF);
            while !stop.load(Ordering::Acquire) {
                thread::sleep(Duration::from_millis(1 + rnd() % 10));
                let r = rnd() % 3;
                if r == 0 {
                    db.compact_range(None..None);
                } else {
                    let a = key_of((rnd() as usize) % writers, 0, false);
                    let b = key_of((rnd() as usize) % writers, 5, false);
                    if r == 1 {
                        db.compact_range(Some(a.as_slice())..Some(b.as_slice()));
                    } else {
                        db.compact_range(Some(a.as_slice())..None);
                    }
                }
            }
        }))
    } else {
        None
    };

    let mut writes: Vec<WriteRec> = vec![];
    for h in whandles {
        writes.extend(h.join().unwrap());
    }
    stop.store(true, Ordering::Release);
    let mut reads: Vec<ReadRec> = vec![];
    let mut snaps: Vec<SnapRec> = vec![];
    let mut errs: Vec<String> = vec![];
    for h in rhandles {
        let (r, s, e) = h.join().unwrap();
        reads.extend(r);
        snaps.extend(s);
        errs.extend(e);
    }
    if let Some(h) = comp {
        h.join().unwrap();
    }
    raindb::verif::set_handler(None);

    // index writes
    let mut wmap: HashMap<(usize, usize), Vec<WriteRec>> = HashMap::new();
    for wr in &writes {
        wmap.entry((wr.writer, wr.key)).or_default().push(wr.clone());
    }
    for v in wmap.values_mut() {
        v.sort_by_key(|x| x.ver);
        for (i, x) in v.iter().enumerate() {
            assert_eq!(x.ver, i as u64 + 1);
        }
    }
    let empty: Vec<WriteRec> = vec![];
    // ver 0 = initial absent
    let wr_of = |w: usize, k: usize, ver: u64| -> (u64, u64, bool, u64) {
        if ver == 0 {
            return (0, 0, true, 0);
        }
        let v = wmap.get(&(w, k)).unwrap_or(&empty);
        let x = &v[(ver - 1) as usize];
        (x.inv, x.resp, x.is_delete, x.op)
    };
    let nvers = |w: usize, k: usize| -> u64 { wmap.get(&(w, k)).map(|v| v.len() as u64).unwrap_or(0) };

    // final state
    for w in 0..cfg.writers {
        for k in 0..cfg.keys {
            let n = nvers(w, k);
            let expect = if n == 0 || wr_of(w, k, n).2 { None } else { Some(n) };
            let got = match db.get(ReadOptions::default(), &key_of(w, k, cfg.long_keys)) {
                Ok(v) => Some(parse_val(&v).2),
                Err(RainDBError::KeyNotFound) => None,
                Err(e) => {
                    errs.push(format!("final get error {}", e));
                    None
                }
            };
            if got != expect {
                errs.push(format!("FINAL w{} k{}: got {:?} expected {:?}", w, k, got, expect));
            }
        }
    }

    // per-key register check
    let mut by_key: HashMap<(usize, usize), Vec<(u64, u64, u64, u64, usize)>> = HashMap::new(); // inv, resp, lo, hi, thread
    for r in &reads {
        let n = nvers(r.writer, r.key);
        let (lo, hi) = match r.got {
            Some(v) => {
                if v == 0 || v > n {
                    errs.push(format!("PHANTOM read {:?}: version never written (n={})", r, n));
                    continue;
                }
                let (winv, _wresp, del, _) = wr_of(r.writer, r.key, v);
                if del {
                    errs.push(format!("PHANTOM read {:?}: version is a delete", r));
                    continue;
                }
                if winv > r.resp {
                    errs.push(format!("FUTURE read {:?}: write began at {}", r, winv));
                }
                if v < n {
                    let (_, nresp, _, _) = wr_of(r.writer, r.key, v + 1);
                    if nresp < r.inv {
                        errs.push(format!("STALE read {:?}: version {} completed at {} before the read began", r, v + 1, nresp));
                    }
                }
                (v, v)
            }
            None => {
                let mut cands = vec![];
                for d in 0..=n {
                    let (dinv, _, del, _) = wr_of(r.writer, r.key, d);
                    if !del || dinv > r.resp {
                        continue;
                    }
                    if d < n {
                        let (_, nresp, _, _) = wr_of(r.writer, r.key, d + 1);
                        if nresp < r.inv {
                            continue;
                        }
                    }
                    cands.push(d);
                }
                if cands.is_empty() {
                    errs.push(format!("LOST read {:?}: not-found is explained by no deletion", r));
                    continue;
                }
                (*cands.first().unwrap(), *cands.last().unwrap())
            }
        };
        by_key.entry((r.writer, r.key)).or_default().push((r.inv, r.resp, lo, hi, r.thread));
    }
    for ((w, k), mut rs) in by_key {
        rs.sort_by_key(|x| x.0);
        let mut by_resp = rs.clone();
        by_resp.sort_by_key(|x| x.1);
        let mut j = 0;
        let mut maxlo = 0u64;
        for r2 in &rs {
            while j < by_resp.len() && by_resp[j].1 < r2.0 {
                maxlo = maxlo.max(by_resp[j].2);
                j += 1;
            }
            if r2.3 < maxlo {
                errs.push(format!("BACKWARDS w{} k{}: read at [{},{}] returned at most version {} after an earlier read returned at least {}", w, k, r2.0, r2.1, r2.3, maxlo));
            }
        }
    }

    // snapshot / iterator prefix checks
    for s in &snaps {
        // the cut must be a prefix of the writer's operations
        let mut pmax = 0u64;
        for (k, g) in s.got.iter().enumerate() {
            let n = nvers(s.writer, k);
            match g {
                Some(v) => {
                    if *v == 0 || *v > n || wr_of(s.writer, k, *v).2 {
                        errs.push(format!("PHANTOM in {} {:?} key {}", s.kind, s, k));
                        continue;
                    }
                    pmax = pmax.max(wr_of(s.writer, k, *v).3);
                }
                None => {}
            }
        }
        for (k, g) in s.got.iter().enumerate() {
            let n = nvers(s.writer, k);
            match g {
                Some(v) => {
                    if *v < n && *v > 0 && *v <= n {
                        let nop = wr_of(s.writer, k, v + 1).3;
                        if nop <= pmax {
                            errs.push(format!("NON-PREFIX {} writer {} key {}: has version {} but op {} (version {}) is inside the cut (op {})", s.kind, s.writer, k, v, nop, v + 1, pmax));
                        }
                    }
                    // real time: the version read must have begun before the cut was taken..
                    if *v > 0 && *v <= n {
                        let (winv, _, _, _) = wr_of(s.writer, k, *v);
                        if winv > s.resp {
                            errs.push(format!("FUTURE in {} writer {} key {}", s.kind, s.writer, k));
                        }
                        if *v < n && wr_of(s.writer, k, v + 1).1 < s.inv {
                            errs.push(format!("STALE in {} writer {} key {}: version {} but {} completed before", s.kind, s.writer, k, v, v + 1));
                        }
                    }
                }
                None => {
                    // some delete (or initial) d with next op > pmax .. find any candidate
                    let mut ok = false;
                    for d in 0..=n {
                        let (dinv, _, del, _) = wr_of(s.writer, k, d);
                        if !del || dinv > s.resp {
                            continue;
                        }
                        if d < n {
                            let (_, nresp, _, nop) = wr_of(s.writer, k, d + 1);
                            if nresp < s.inv || nop <= pmax {
                                continue;
                            }
                        }
                        ok = true;
                        break;
                    }
                    if !ok {
                        errs.push(format!("LOST/NON-PREFIX in {} writer {} key {}: absent is not explained (cut op {})", s.kind, s.writer, k, pmax));
                    }
                }
            }
        }
    }

    eprintln!(
        "seed {} writes {} reads {} cuts {} errs {}",
        cfg.seed,
        writes.len(),
        reads.len(),
        snaps.len(),
        errs.len()
    );
    errs
}

fn env(name: &str, default: u64) -> u64 {
    std::env::var(name).ok().and_then(|v| v.parse().ok()).unwrap_or(default)
}

#[test]
fn search() {
    let start = env("SEED0", 1);
    let n = env("NSEEDS", 10);
    let mut total = 0;
    for seed in start..start + n {
        seed_thread(seed);
        let memtables = [200usize, 600, 1500, 4000, 16000];
        let files = [300u64, 1000, 4000, 30000];
        let blocks = [1usize, 40, 200, 4096];
        let cfg = Cfg {
            seed,
            writers: 1 + (rnd() % 5) as usize,
            readers: 1 + (rnd() % 4) as usize,
            keys: 2 + (rnd() % 10) as usize,
            ops: env("OPS", 1500) as usize,
            memtable: memtables[(rnd() % 5) as usize],
            file: files[(rnd() % 4) as usize],
            block: blocks[(rnd() % 4) as usize],
            chaos: env("CHAOS", rnd() % 4),
            long_keys: rnd() % 4 == 0,
            pad: [0usize, 30, 300, 2000][(rnd() % 4) as usize],
            compactor: rnd() % 2 == 0,
        };
        eprintln!(
            "cfg seed {} w {} r {} keys {} mem {} file {} block {} chaos {} long {} pad {} compactor {}",
            seed, cfg.writers, cfg.readers, cfg.keys, cfg.memtable, cfg.file, cfg.block, cfg.chaos, cfg.long_keys, cfg.pad, cfg.compactor
        );
        let errs = run(&cfg);
        for e in errs.iter().take(15) {
            eprintln!("  VIOLATION seed {}: {}", seed, e);
        }
        total += errs.len();
    }
    eprintln!("long parks per point: {:?}", PARKS.lock().unwrap());
    assert_eq!(total, 0, "violations found");
}

// ---------------------------------------------------------------------------------------------
// Shared keys: several writers on the same keys (group commits mix their batches). Weak but sound
// register check.
#[derive(Clone, Debug)]
struct SW {
    w: usize,
    k: usize,
    ver: u64,
    del: bool,
    inv: u64,
    resp: u64,
}

fn run_shared(seed: u64, writers: usize, readers: usize, keys: usize, ops: usize, mem: usize, file: u64, block: usize, chaos: u64, pad: usize, tiny_cache: bool, disk: bool) -> Vec<String> {
    use raindb::fs::TmpFileSystem;
    let mut opts = DbOptions::with_memory_env();
    if disk {
        opts.filesystem_provider = Arc::new(TmpFileSystem::new(Some(std::path::Path::new("/tmp/a3/C05/target/tmpfs"))));
    } else {
        opts.filesystem_provider = Arc::new(InMemoryFileSystem::new());
    }
    opts.db_path = format!("shared{}", seed);
    opts.create_if_missing = true;
    opts.max_memtable_size = mem;
    opts.max_file_size = file;
    opts.max_block_size = block;
    let _ = tiny_cache;
    let db = Arc::new(DB::open(opts).unwrap());
    raindb::verif::set_handler(Some(Arc::new(Chaos { level: chaos })));
    let stop = Arc::new(AtomicBool::new(false));
    let mut wh = vec![];
    for w in 0..writers {
        let db = Arc::clone(&db);
        wh.push(thread::spawn(move || {
            seed_thread(seed * 1000 + w as u64);
            let mut vers = vec![0u64; keys];
            let mut log = vec![];
            for _ in 0..ops {
                let r = rnd() % 100;
                let wo = WriteOptions { synchronous: rnd() % 3 == 0 };
                if r < 70 {
                    let k = (rnd() as usize) % keys;
                    vers[k] += 1;
                    let del = r < 15;
                    let inv = tick();
                    let res = if del {
                        db.delete(wo, key_of(99, k, false))
                    } else {
                        db.put(wo, key_of(99, k, false), val_of(w, k, vers[k], (rnd() as usize) % (pad + 1)))
                    };
                    let resp = tick();
                    res.unwrap();
                    log.push(SW { w, k, ver: vers[k], del, inv, resp });
                } else {
                    let mut b = Batch::new();
                    let mut recs = vec![];
                    for _ in 0..(1 + rnd() % 5) {
                        let k = (rnd() as usize) % keys;
                        vers[k] += 1;
                        let del = rnd() % 4 == 0;
                        if del {
                            b.add_delete(key_of(99, k, false));
                        } else {
                            b.add_put(key_of(99, k, false), val_of(w, k, vers[k], (rnd() as usize) % (pad + 1)));
                        }
                        recs.push((k, vers[k], del));
                    }
                    let inv = tick();
                    let res = db.apply(wo, b);
                    let resp = tick();
                    res.unwrap();
                    // within a batch only the last write of a key is observable
                    for (i, (k, ver, del)) in recs.iter().enumerate() {
                        if recs[i + 1..].iter().any(|x| x.0 == *k) {
                            continue;
                        }
                        log.push(SW { w, k: *k, ver: *ver, del: *del, inv, resp });
                    }
                }
            }
            log
        }));
    }
    let mut rh = vec![];
    for t in 0..readers {
        let db = Arc::clone(&db);
        let stop = Arc::clone(&stop);
        rh.push(thread::spawn(move || {
            seed_thread(seed * 7777 + t as u64);
            let mut reads = vec![];
            let mut errs = vec![];
            while !stop.load(Ordering::Acquire) {
                let k = (rnd() as usize) % keys;
                let inv = tick();
                let res = db.get(ReadOptions::default(), &key_of(99, k, false));
                let resp = tick();
                match res {
                    Ok(v) => {
                        let (pw, pk, ver) = parse_val(&v);
                        if pk != k {
                            errs.push(format!("wrong key value"));
                        }
                        reads.push((k, Some((pw, ver)), inv, resp, t));
                    }
                    Err(RainDBError::KeyNotFound) => reads.push((k, None, inv, resp, t)),
                    Err(e) => errs.push(format!("get error {}", e)),
                }
            }
            (reads, errs)
        }));
    }
    let mut writes: Vec<SW> = vec![];
    for h in wh {
        writes.extend(h.join().unwrap());
    }
    stop.store(true, Ordering::Release);
    let mut errs = vec![];
    let mut reads = vec![];
    for h in rh {
        let (r, e) = h.join().unwrap();
        reads.extend(r);
        errs.extend(e);
    }
    raindb::verif::set_handler(None);
    let mut per_key: Vec<Vec<SW>> = vec![vec![]; keys];
    for w in &writes {
        per_key[w.k].push(w.clone());
    }
    // a write is "dead before t" if some other write began after it returned and returned before t
    let dead_before = |k: usize, x_resp: u64, t: u64| -> bool { per_key[k].iter().any(|o| o.inv > x_resp && o.resp < t) };
    let mut nreads = 0;
    for (k, got, inv, resp, _t) in &reads {
        nreads += 1;
        match got {
            Some((pw, ver)) => {
                // a value of an intermediate write of a batch can never be seen
                match per_key[*k].iter().find(|x| x.w == *pw && x.ver == *ver) {
                    None => errs.push(format!("PHANTOM shared k{} value ({},{}) not an observable write", k, pw, ver)),
                    Some(x) => {
                        if x.del {
                            errs.push(format!("PHANTOM shared: delete version read"));
                        }
                        if x.inv > *resp {
                            errs.push(format!("FUTURE shared k{}", k));
                        }
                        if dead_before(*k, x.resp, *inv) {
                            errs.push(format!("STALE shared k{}: read [{},{}] got write {:?}", k, inv, resp, x));
                        }
                    }
                }
            }
            None => {
                let initial_ok = !per_key[*k].iter().any(|o| o.resp < *inv);
                let ok = initial_ok || per_key[*k].iter().any(|d| d.del && d.inv < *resp && !dead_before(*k, d.resp, *inv));
                if !ok {
                    errs.push(format!("LOST shared k{}: read [{},{}] not found", k, inv, resp));
                }
            }
        }
    }
    for k in 0..keys {
        let got = match db.get(ReadOptions::default(), &key_of(99, k, false)) {
            Ok(v) => {
                let (pw, _, ver) = parse_val(&v);
                Some((pw, ver))
            }
            Err(_) => None,
        };
        let ok = match got {
            Some((pw, ver)) => per_key[k].iter().any(|x| x.w == pw && x.ver == ver && !x.del && !dead_before(k, x.resp, u64::MAX)),
            None => per_key[k].is_empty() || per_key[k].iter().any(|x| x.del && !dead_before(k, x.resp, u64::MAX)),
        };
        if !ok {
            errs.push(format!("FINAL shared k{} got {:?}", k, got));
        }
    }
    eprintln!("shared seed {} writes {} reads {} errs {}", seed, writes.len(), nreads, errs.len());
    errs
}

#[test]
fn search_shared() {
    let start = env("SEED0", 1);
    let n = env("NSEEDS", 10);
    let mut total = 0;
    for seed in start..start + n {
        seed_thread(seed ^ 0x5555);
        let memtables = [200usize, 600, 1500, 4000, 16000, 200000];
        let files = [300u64, 1000, 4000, 30000];
        let blocks = [1usize, 40, 200, 4096];
        let pads = [0usize, 30, 300, 2000, 200000];
        let (w, r, k) = (2 + (rnd() % 5) as usize, 1 + (rnd() % 3) as usize, 1 + (rnd() % 4) as usize);
        let (m, f, b) = (memtables[(rnd() % 6) as usize], files[(rnd() % 4) as usize], blocks[(rnd() % 4) as usize]);
        let chaos = rnd() % 4;
        let pad = pads[(rnd() % 5) as usize];
        let disk = rnd() % 4 == 0;
        let ops = if pad > 10000 { 150 } else { env("OPS", 1000) as usize };
        eprintln!("shared cfg seed {} w {} r {} k {} mem {} file {} block {} chaos {} pad {} disk {}", seed, w, r, k, m, f, b, chaos, pad, disk);
        let errs = run_shared(seed, w, r, k, ops, m, f, b, chaos, pad, false, disk);
        for e in errs.iter().take(10) {
            eprintln!("  VIOLATION shared seed {}: {}", seed, e);
        }
        total += errs.len();
    }
    assert_eq!(total, 0);
}
