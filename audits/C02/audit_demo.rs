//! Crash-point exploration harness for the property
//! "Acknowledged writes survive a crash at any point; batches are all-or-nothing".
//!
//! A recording file system logs every mutating file system operation (create/truncate, append,
//! rename, remove). For every prefix of that log a crash image is rebuilt and the database is
//! re-opened on it; the recovery (plus some further writes, a clean close and a clean reopen) is
//! itself recorded and crashed at every prefix, recursively up to a configured depth.
//!
//! Besides the plain crash exploration there are variants with concurrent writers, a slowed-down
//! background thread (flushes inside table compactions), injected I/O faults, option changes
//! between restarts, several sessions, odd key/value shapes, records at WAL block boundaries and a
//! recovery of the crash images through the real operating system file system.
//!
//! Every test fails if and only if some recovery does not open, shows contents other than
//! "all acknowledged batches + optionally the complete in-flight batch", cannot take further
//! writes, or loses them over a clean close and reopen.
//!
//! Run with: cargo test --release --offline --features verif --test audit_demo -- --nocapture
//! Sizes can be raised through the AUDIT_* environment variables (see `env_usize` calls).

#![cfg(feature = "verif")]

use std::collections::{BTreeMap, HashMap, HashSet};
use std::io::{self, Read, Seek, SeekFrom, Write};
use std::panic::{self, AssertUnwindSafe};
use std::path::{Path, PathBuf};
use std::sync::{Arc, Mutex};
use std::time::{Duration, Instant};

use raindb::fs::{
    FileLock, FileSystem, InMemoryFileSystem, RandomAccessFile, ReadonlyRandomAccessFile,
};
use raindb::{Batch, DbOptions, RainDBError, RainDbIterator, ReadOptions, WriteOptions, DB};

const DB_PATH: &str = "/db";

// ---------------------------------------------------------------------------------------------
// Recording file system
// ---------------------------------------------------------------------------------------------

#[derive(Clone, Debug)]
pub enum Op {
    Create { path: PathBuf, id: u64 },
    Append { id: u64, data: Vec<u8> },
    Rename { from: PathBuf, to: PathBuf },
    Remove { path: PathBuf },
    RemoveDirAll { path: PathBuf },
}

impl Op {
    fn describe(&self, image: &Image) -> String {
        match self {
            Op::Create { path, .. } => format!("create/truncate {}", path.display()),
            Op::Append { id, data } => format!(
                "append {} bytes to {}",
                data.len(),
                image
                    .names
                    .iter()
                    .find(|(_, file_id)| *file_id == id)
                    .map(|(name, _)| name.display().to_string())
                    .unwrap_or_else(|| format!("<unlinked {id}>"))
            ),
            Op::Rename { from, to } => format!("rename {} -> {}", from.display(), to.display()),
            Op::Remove { path } => format!("remove {}", path.display()),
            Op::RemoveDirAll { path } => format!("remove_dir_all {}", path.display()),
        }
    }
}

#[derive(Clone, Default)]
pub struct Image {
    names: BTreeMap<PathBuf, u64>,
    contents: HashMap<u64, Vec<u8>>,
    next_id: u64,
}

impl Image {
    fn apply(&mut self, op: &Op) {
        match op {
            Op::Create { path, id } => {
                self.names.insert(path.clone(), *id);
                self.contents.insert(*id, vec![]);
                if self.next_id <= *id {
                    self.next_id = *id + 1;
                }
            }
            Op::Append { id, data } => {
                if let Some(contents) = self.contents.get_mut(id) {
                    contents.extend_from_slice(data);
                }
            }
            Op::Rename { from, to } => {
                if let Some(id) = self.names.remove(from) {
                    self.names.insert(to.clone(), id);
                }
            }
            Op::Remove { path } => {
                self.names.remove(path);
            }
            Op::RemoveDirAll { path } => {
                let children: Vec<PathBuf> = self
                    .names
                    .keys()
                    .filter(|name| name.starts_with(path))
                    .cloned()
                    .collect();
                for child in children {
                    self.names.remove(&child);
                }
            }
        }
    }

    /// A copy that only keeps the contents of files that still have a name.
    fn compact_clone(&self) -> Image {
        let live: HashSet<u64> = self.names.values().copied().collect();
        Image {
            names: self.names.clone(),
            contents: self
                .contents
                .iter()
                .filter(|(id, _)| live.contains(id))
                .map(|(id, contents)| (*id, contents.clone()))
                .collect(),
            next_id: self.next_id,
        }
    }

    pub fn listing(&self) -> String {
        self.names
            .iter()
            .map(|(name, id)| {
                format!(
                    "{}({})",
                    name.display(),
                    self.contents.get(id).map_or(0, |contents| contents.len())
                )
            })
            .collect::<Vec<_>>()
            .join(" ")
    }
}

#[derive(Clone, Copy, Debug, PartialEq, Eq)]
pub enum FaultMode {
    /// The operation has no effect and reports an error.
    Before,
    /// The operation takes effect but reports an error.
    After,
    /// Half of an append takes effect and an error is reported (other operations: like Before).
    Partial,
}

#[derive(Clone, Copy, Debug)]
pub struct Fault {
    /// Index of the attempted mutating operation that fails.
    pub at: usize,
    pub mode: FaultMode,
    /// Also fail every later mutating operation.
    pub persistent: bool,
}

struct Inner {
    image: Image,
    log: Vec<Op>,
    attempts: usize,
    fault: Option<Fault>,
    faults_hit: usize,
}

impl Inner {
    fn mutate(&mut self, op: Op) -> io::Result<()> {
        let index = self.attempts;
        self.attempts += 1;
        // A rename that takes effect but reports a failure is not injected: the caller removes the
        // manifest that the (successfully installed) CURRENT file points to. LevelDB behaves the
        // same way, and no crash or honest I/O failure produces this. See AUDIT/NOTES.md.
        let lying_rename = matches!(op, Op::Rename { .. })
            && matches!(self.fault, Some(fault) if fault.mode == FaultMode::After);
        let hit = !lying_rename && match self.fault {
            Some(fault) => {
                if fault.persistent {
                    index >= fault.at
                } else {
                    index == fault.at
                }
            }
            None => false,
        };
        if hit {
            self.faults_hit += 1;
            let mode = self.fault.unwrap().mode;
            match (mode, &op) {
                (FaultMode::After, _) => {
                    self.image.apply(&op);
                    self.log.push(op);
                }
                (FaultMode::Partial, Op::Append { id, data }) if data.len() > 1 => {
                    let partial = Op::Append {
                        id: *id,
                        data: data[..data.len() / 2].to_vec(),
                    };
                    self.image.apply(&partial);
                    self.log.push(partial);
                }
                _ => {}
            }
            return Err(io::Error::new(io::ErrorKind::Other, "injected I/O fault"));
        }
        self.image.apply(&op);
        self.log.push(op);
        Ok(())
    }
}

pub struct CrashFs {
    inner: Arc<Mutex<Inner>>,
    locker: InMemoryFileSystem,
}

impl CrashFs {
    pub fn new(image: &Image) -> Self {
        CrashFs {
            inner: Arc::new(Mutex::new(Inner {
                image: image.compact_clone(),
                log: vec![],
                attempts: 0,
                fault: None,
                faults_hit: 0,
            })),
            locker: InMemoryFileSystem::new(),
        }
    }

    pub fn op_count(&self) -> usize {
        self.inner.lock().unwrap().log.len()
    }

    pub fn take_log(&self) -> Vec<Op> {
        self.inner.lock().unwrap().log.clone()
    }

    pub fn attempts(&self) -> usize {
        self.inner.lock().unwrap().attempts
    }

    pub fn set_fault(&self, fault: Option<Fault>) {
        self.inner.lock().unwrap().fault = fault;
    }

    pub fn faults_hit(&self) -> usize {
        self.inner.lock().unwrap().faults_hit
    }

    pub fn image(&self) -> Image {
        self.inner.lock().unwrap().image.compact_clone()
    }
}

struct Handle {
    inner: Arc<Mutex<Inner>>,
    id: u64,
    cursor: u64,
}

impl Read for Handle {
    fn read(&mut self, buf: &mut [u8]) -> io::Result<usize> {
        let inner = self.inner.lock().unwrap();
        let contents = inner.image.contents.get(&self.id).unwrap();
        let start = (self.cursor as usize).min(contents.len());
        let count = buf.len().min(contents.len() - start);
        buf[..count].copy_from_slice(&contents[start..start + count]);
        self.cursor += count as u64;
        Ok(count)
    }
}

impl Seek for Handle {
    fn seek(&mut self, pos: SeekFrom) -> io::Result<u64> {
        let inner = self.inner.lock().unwrap();
        let len = inner.image.contents.get(&self.id).unwrap().len() as i64;
        let target: i64 = match pos {
            SeekFrom::Start(offset) => offset as i64,
            SeekFrom::Current(offset) => self.cursor as i64 + offset,
            SeekFrom::End(offset) => len + offset,
        };
        if target < 0 {
            return Err(io::Error::new(io::ErrorKind::InvalidInput, "negative seek"));
        }
        self.cursor = target as u64;
        Ok(self.cursor)
    }
}

impl Write for Handle {
    fn write(&mut self, buf: &[u8]) -> io::Result<usize> {
        if buf.is_empty() {
            return Ok(0);
        }
        let mut inner = self.inner.lock().unwrap();
        let op = Op::Append {
            id: self.id,
            data: buf.to_vec(),
        };
        let result = inner.mutate(op);
        self.cursor = inner.image.contents.get(&self.id).unwrap().len() as u64;
        result?;
        Ok(buf.len())
    }

    fn flush(&mut self) -> io::Result<()> {
        Ok(())
    }
}

impl ReadonlyRandomAccessFile for Handle {
    fn read_from(&self, buf: &mut [u8], offset: usize) -> io::Result<usize> {
        let inner = self.inner.lock().unwrap();
        let contents = inner.image.contents.get(&self.id).unwrap();
        let start = offset.min(contents.len());
        let count = buf.len().min(contents.len() - start);
        buf[..count].copy_from_slice(&contents[start..start + count]);
        Ok(count)
    }

    fn len(&self) -> io::Result<u64> {
        let inner = self.inner.lock().unwrap();
        Ok(inner.image.contents.get(&self.id).unwrap().len() as u64)
    }
}

impl RandomAccessFile for Handle {
    fn append(&mut self, buf: &[u8]) -> io::Result<usize> {
        self.write(buf)
    }
}

fn not_found(path: &Path) -> io::Error {
    io::Error::new(
        io::ErrorKind::NotFound,
        format!("Could not find the file with path {}", path.display()),
    )
}

impl FileSystem for CrashFs {
    fn get_name(&self) -> String {
        "CrashFs".to_string()
    }

    fn create_dir(&self, _path: &Path) -> io::Result<()> {
        Ok(())
    }

    fn create_dir_all(&self, _path: &Path) -> io::Result<()> {
        Ok(())
    }

    fn list_dir(&self, path: &Path) -> io::Result<Vec<PathBuf>> {
        let inner = self.inner.lock().unwrap();
        let mut children: HashSet<PathBuf> = HashSet::new();
        for name in inner.image.names.keys() {
            if !name.starts_with(path) {
                continue;
            }
            // The direct child of `path` on the way to `name`
            let mut current: &Path = name.as_path();
            while let Some(parent) = current.parent() {
                if parent == path {
                    children.insert(current.to_path_buf());
                    break;
                }
                current = parent;
            }
        }
        let mut results: Vec<PathBuf> = children.into_iter().collect();
        results.sort();
        Ok(results)
    }

    fn open_file(&self, path: &Path) -> io::Result<Box<dyn ReadonlyRandomAccessFile>> {
        let inner = self.inner.lock().unwrap();
        match inner.image.names.get(path) {
            Some(id) => Ok(Box::new(Handle {
                inner: Arc::clone(&self.inner),
                id: *id,
                cursor: 0,
            })),
            None => Err(not_found(path)),
        }
    }

    fn rename(&self, from: &Path, to: &Path) -> io::Result<()> {
        let mut inner = self.inner.lock().unwrap();
        if !inner.image.names.contains_key(from) {
            return Err(not_found(from));
        }
        let op = Op::Rename {
            from: from.to_path_buf(),
            to: to.to_path_buf(),
        };
        inner.mutate(op)
    }

    fn create_file(&self, path: &Path, append: bool) -> io::Result<Box<dyn RandomAccessFile>> {
        let mut inner = self.inner.lock().unwrap();
        if append {
            if let Some(id) = inner.image.names.get(path).copied() {
                let len = inner.image.contents.get(&id).unwrap().len() as u64;
                return Ok(Box::new(Handle {
                    inner: Arc::clone(&self.inner),
                    id,
                    cursor: len,
                }));
            }
        }
        let id = inner.image.next_id;
        let op = Op::Create {
            path: path.to_path_buf(),
            id,
        };
        inner.mutate(op)?;
        Ok(Box::new(Handle {
            inner: Arc::clone(&self.inner),
            id,
            cursor: 0,
        }))
    }

    fn remove_file(&self, path: &Path) -> io::Result<()> {
        let mut inner = self.inner.lock().unwrap();
        if !inner.image.names.contains_key(path) {
            return Err(not_found(path));
        }
        let op = Op::Remove {
            path: path.to_path_buf(),
        };
        inner.mutate(op)
    }

    fn remove_dir(&self, _path: &Path) -> io::Result<()> {
        Ok(())
    }

    fn remove_dir_all(&self, path: &Path) -> io::Result<()> {
        let mut inner = self.inner.lock().unwrap();
        let op = Op::RemoveDirAll {
            path: path.to_path_buf(),
        };
        inner.mutate(op)
    }

    fn get_file_size(&self, path: &Path) -> io::Result<u64> {
        let inner = self.inner.lock().unwrap();
        match inner.image.names.get(path) {
            Some(id) => Ok(inner.image.contents.get(id).unwrap().len() as u64),
            None => Err(not_found(path)),
        }
    }

    fn is_dir(&self, path: &Path) -> io::Result<bool> {
        let inner = self.inner.lock().unwrap();
        if inner.image.names.contains_key(path) {
            return Ok(false);
        }
        Ok(inner
            .image
            .names
            .keys()
            .any(|name| name.starts_with(path)))
    }

    fn lock_file(&self, path: &Path) -> io::Result<FileLock> {
        // The lock file is not part of the crash model
        self.locker.lock_file(path)
    }
}

// ---------------------------------------------------------------------------------------------
// Model and workload
// ---------------------------------------------------------------------------------------------

pub type State = BTreeMap<Vec<u8>, Vec<u8>>;
pub type Write1 = (Vec<u8>, Option<Vec<u8>>);
pub type BatchSpec = Vec<Write1>;

fn apply_spec(state: &State, spec: &BatchSpec) -> State {
    let mut next = state.clone();
    for (key, value) in spec {
        match value {
            Some(value) => {
                next.insert(key.clone(), value.clone());
            }
            None => {
                next.remove(key);
            }
        }
    }
    next
}

#[derive(Clone, Debug)]
pub struct Cfg {
    pub reuse_log_files: bool,
    pub max_memtable_size: usize,
    pub max_file_size: u64,
    pub max_block_size: usize,
    /// Wait for the background thread to become idle after every write.
    pub quiesce: bool,
    /// Call compact_range(None..None) after the writes of the top-level execution.
    pub manual_compaction: bool,
}

fn base_options() -> DbOptions {
    // Building the default options allocates a large block cache, so it is not done for every
    // execution. Sharing the block cache between database instances is safe: every opened table
    // draws a fresh partition id from the cache, so no instance can see blocks cached by another
    // one. The cache never evicts in practice, so it is replaced every few hundred uses to bound
    // memory.
    static BASE: Mutex<Option<(DbOptions, usize)>> = Mutex::new(None);
    let mut guard = BASE.lock().unwrap();
    let stale = match guard.as_ref() {
        Some((_, uses)) => *uses >= 256,
        None => true,
    };
    if stale {
        *guard = Some((DbOptions::default(), 0));
    }
    let (options, uses) = guard.as_mut().unwrap();
    *uses += 1;
    options.clone()
}

fn make_options(cfg: &Cfg, fs: Arc<CrashFs>) -> DbOptions {
    DbOptions {
        db_path: DB_PATH.to_string(),
        max_memtable_size: cfg.max_memtable_size,
        max_file_size: cfg.max_file_size,
        max_block_size: cfg.max_block_size,
        filesystem_provider: fs,
        create_if_missing: true,
        error_if_exists: false,
        reuse_log_files: cfg.reuse_log_files,
        ..base_options()
    }
}

fn short(bytes: &[u8]) -> String {
    let text = String::from_utf8_lossy(bytes);
    if text.len() > 24 {
        format!("{}..({}B)", &text[..24], bytes.len())
    } else {
        text.to_string()
    }
}

fn diff_states(expected: &State, actual: &State) -> String {
    let mut parts = vec![];
    for (key, value) in expected {
        match actual.get(key) {
            None => parts.push(format!("missing {}", short(key))),
            Some(actual_value) if actual_value != value => parts.push(format!(
                "{}: expected {} got {}",
                short(key),
                short(value),
                short(actual_value)
            )),
            _ => {}
        }
    }
    for key in actual.keys() {
        if !expected.contains_key(key) {
            parts.push(format!("unexpected {}", short(key)));
        }
    }
    if parts.len() > 6 {
        let total = parts.len();
        parts.truncate(6);
        parts.push(format!("... {total} differences"));
    }
    parts.join("; ")
}

fn read_state(db: &DB, universe: &[Vec<u8>]) -> Result<State, String> {
    let mut iter = db
        .new_iterator(ReadOptions::default())
        .map_err(|err| format!("new_iterator failed: {err}"))?;
    iter.seek_to_first()
        .map_err(|err| format!("seek_to_first failed: {err}"))?;
    let mut state = State::new();
    while iter.is_valid() {
        let (key, value) = iter.current().unwrap();
        if state.insert(key.clone(), value.clone()).is_some() {
            return Err(format!("iterator yielded {} twice", short(key)));
        }
        iter.next();
    }
    if let Some(err) = iter.status() {
        return Err(format!("iterator status: {err}"));
    }
    drop(iter);

    // Cross-check point lookups
    for key in universe {
        match db.get(ReadOptions::default(), key) {
            Ok(value) => {
                if state.get(key) != Some(&value) {
                    return Err(format!(
                        "get({}) = {} but the iterator says {:?}",
                        short(key),
                        short(&value),
                        state.get(key).map(|value| short(value))
                    ));
                }
            }
            Err(RainDBError::KeyNotFound) => {
                if state.contains_key(key) {
                    return Err(format!(
                        "get({}) = not found but the iterator has it",
                        short(key)
                    ));
                }
            }
            Err(err) => return Err(format!("get({}) failed: {err}", short(key))),
        }
    }

    Ok(state)
}

fn wait_idle(db: &DB) {
    let deadline = Instant::now() + Duration::from_secs(30);
    loop {
        let probe = db.verif_probe();
        if (!probe.background_compaction_scheduled && !probe.has_immutable_memtable)
            || probe.bad_state.is_some()
        {
            return;
        }
        if Instant::now() > deadline {
            panic!("background work did not finish");
        }
        std::thread::sleep(Duration::from_micros(50));
    }
}

/// The record of one execution: open, check, writes, close, reopen, check, close.
struct Exec {
    log: Vec<Op>,
    /// Number of logged operations when the first open had returned.
    open_done: usize,
    /// For each batch: (log length before the call, log length after it returned).
    batch_marks: Vec<(usize, usize)>,
    /// The state observed right after the open.
    observed: State,
    /// The states after each batch (index 0 = observed).
    states: Vec<State>,
}

fn run_exec(
    cfg: &Cfg,
    image: &Image,
    allowed: &[State],
    batches: &[BatchSpec],
    universe: &[Vec<u8>],
    top_level: bool,
) -> Result<Exec, String> {
    let fs = Arc::new(CrashFs::new(image));
    let result = panic::catch_unwind(AssertUnwindSafe(|| -> Result<Exec, String> {
        let db = DB::open(make_options(cfg, Arc::clone(&fs)))
            .map_err(|err| format!("the database does not open: {err}"))?;
        let open_done = fs.op_count();
        let observed = read_state(&db, universe).map_err(|err| format!("after open: {err}"))?;
        if !allowed.iter().any(|state| *state == observed) {
            let mut msg = String::from("recovered contents are not an allowed state.");
            for (idx, state) in allowed.iter().enumerate() {
                msg.push_str(&format!(
                    " vs allowed[{idx}]: {{{}}}",
                    diff_states(state, &observed)
                ));
            }
            return Err(msg);
        }

        let mut states = vec![observed.clone()];
        let mut batch_marks = vec![];
        let mut db = db;
        // Optionally pin the first version and the first sequence number for a while, so that
        // compactions keep shadowed entries and obsolete table files stay on disk.
        let pin_until = if top_level { env_usize("AUDIT_PIN", 0) } else { 0 };
        let mut pinned = if pin_until > 0 {
            let mut iter = db
                .new_iterator(ReadOptions::default())
                .map_err(|err| format!("new_iterator failed: {err}"))?;
            let _ = iter.seek_to_first();
            Some((iter, db.get_snapshot()))
        } else {
            None
        };
        let sessions = if top_level { env_usize("AUDIT_SESSIONS", 1) } else { 1 };
        let per_session = (batches.len() + sessions - 1) / sessions.max(1);
        for (batch_idx, spec) in batches.iter().enumerate() {
            if batch_idx == pin_until {
                if let Some((iter, snapshot)) = pinned.take() {
                    drop(iter);
                    db.release_snapshot(snapshot);
                }
            }
            if batch_idx > 0 && per_session > 0 && batch_idx % per_session == 0 {
                // A clean close and reopen in the middle of the workload
                drop(db);
                db = DB::open(make_options(cfg, Arc::clone(&fs)))
                    .map_err(|err| format!("the database does not open after a clean close: {err}"))?;
            }
            let before = fs.op_count();
            let mut batch = Batch::new();
            for (key, value) in spec {
                match value {
                    Some(value) => batch.add_put(key.clone(), value.clone()),
                    None => batch.add_delete(key.clone()),
                };
            }
            db.apply(WriteOptions::default(), batch)
                .map_err(|err| format!("a write on the recovered database failed: {err}"))?;
            let after = fs.op_count();
            batch_marks.push((before, after));
            let next = apply_spec(states.last().unwrap(), spec);
            states.push(next);
            if cfg.quiesce {
                wait_idle(&db);
            }
        }
        if let Some((iter, snapshot)) = pinned.take() {
            drop(iter);
            db.release_snapshot(snapshot);
        }
        if top_level && cfg.manual_compaction {
            db.compact_range(None..None);
        }
        let expected = states.last().unwrap().clone();
        let before_close = read_state(&db, universe).map_err(|err| format!("before close: {err}"))?;
        if before_close != expected {
            return Err(format!(
                "contents before the clean close differ from the model: {}",
                diff_states(&expected, &before_close)
            ));
        }
        drop(db);

        let db = DB::open(make_options(cfg, Arc::clone(&fs)))
            .map_err(|err| format!("the database does not open after a clean close: {err}"))?;
        let reopened =
            read_state(&db, universe).map_err(|err| format!("after clean reopen: {err}"))?;
        if reopened != expected {
            return Err(format!(
                "contents after a clean reopen differ from the model: {}",
                diff_states(&expected, &reopened)
            ));
        }
        drop(db);

        Ok(Exec {
            log: fs.take_log(),
            open_done,
            batch_marks,
            observed,
            states,
        })
    }));

    if env_usize("AUDIT_TRACE", 0) == 1 && !matches!(result, Ok(Ok(_))) {
        let log = fs.take_log();
        let image = fs.image();
        for (idx, op) in log.iter().enumerate() {
            println!("    trace op {idx}: {}", op.describe(&image));
        }
        println!("    trace image: {}", image.listing());
    }
    match result {
        Ok(result) => result,
        Err(payload) => {
            let msg = if let Some(text) = payload.downcast_ref::<&str>() {
                text.to_string()
            } else if let Some(text) = payload.downcast_ref::<String>() {
                text.clone()
            } else {
                "<non-string panic>".to_string()
            };
            Err(format!("panic: {msg}"))
        }
    }
}

struct Explorer {
    cfg: Cfg,
    /// Optional per-depth overrides: (reuse_log_files, max_memtable_size) used by the executions
    /// that have `depth_left` levels below them.
    vary: Vec<(bool, usize)>,
    universe: Vec<Vec<u8>>,
    violations: Vec<String>,
    seen_classes: HashSet<String>,
    executions: usize,
    max_violations: usize,
}

impl Explorer {
    fn report(&mut self, context: &str, msg: String) {
        // Classify by the first 60 characters of the message to avoid flooding
        let class: String = msg.chars().take(60).collect();
        if self.seen_classes.insert(class) || self.violations.len() < 5 {
            self.violations.push(format!("[{context}] {msg}"));
        }
    }

    fn extra_batches(&self, depth_left: u32, observed: &State) -> Vec<BatchSpec> {
        // Further writes on a recovered database: a new key, an overwrite and a delete of
        // existing keys, in one batch and in single writes.
        let tag = format!("x{depth_left}");
        let mut batches: Vec<BatchSpec> = vec![];
        let existing: Vec<Vec<u8>> = observed.keys().cloned().collect();
        batches.push(vec![(
            format!("{tag}-new-a").into_bytes(),
            Some(format!("{tag}-value-a").into_bytes()),
        )]);
        let mut mixed: BatchSpec = vec![(
            format!("{tag}-new-b").into_bytes(),
            Some(vec![b'q'; 90]),
        )];
        if let Some(first) = existing.first() {
            mixed.push((first.clone(), Some(format!("{tag}-overwrite").into_bytes())));
        }
        if let Some(last) = existing.last() {
            if existing.len() > 1 {
                mixed.push((last.clone(), None));
            }
        }
        batches.push(mixed);
        batches.push(vec![(
            format!("{tag}-new-c").into_bytes(),
            Some(vec![b'r'; 120]),
        )]);
        batches
    }

    /// Explore the execution that starts on `image`, then every crash point of it.
    fn explore(
        &mut self,
        image: &Image,
        allowed: &[State],
        batches: Option<&[BatchSpec]>,
        depth_left: u32,
        context: &str,
    ) {
        if self.violations.len() >= self.max_violations {
            return;
        }
        self.executions += 1;

        // The further writes depend on what was recovered; with two allowed states use the first
        // that matches after the fact, so generate from the smaller (acknowledged only) state.
        let generated;
        let top_level = batches.is_some();
        let batches: &[BatchSpec] = match batches {
            Some(batches) => batches,
            None => {
                generated = self.extra_batches(depth_left, &allowed[0]);
                &generated
            }
        };

        let mut universe = self.universe.clone();
        for spec in batches {
            for (key, _) in spec {
                universe.push(key.clone());
            }
        }

        let mut cfg = self.cfg.clone();
        if let Some((reuse, memtable)) = self.vary.get(depth_left as usize) {
            cfg.reuse_log_files = *reuse;
            cfg.max_memtable_size = *memtable;
        }
        let exec = match run_exec(&cfg, image, allowed, batches, &universe, top_level) {
            Ok(exec) => exec,
            Err(msg) => {
                let listing = image.listing();
                self.report(context, format!("{msg} || crash image: {listing}"));
                return;
            }
        };

        if depth_left == 0 {
            return;
        }

        let saved_universe = std::mem::replace(&mut self.universe, universe);
        let mut running = image.compact_clone();
        for prefix in 0..=exec.log.len() {
            if prefix > 0 {
                running.apply(&exec.log[prefix - 1]);
            }
            if prefix == exec.log.len() {
                // Same as a clean shutdown: covered by the execution itself
                break;
            }

            // Which states may a recovery from this image show?
            let allowed_here: Vec<State> = if prefix < exec.open_done {
                allowed.to_vec()
            } else {
                let acked = exec
                    .batch_marks
                    .iter()
                    .filter(|(_, after)| *after <= prefix)
                    .count();
                let mut states = vec![exec.states[acked].clone()];
                if acked < exec.batch_marks.len() && exec.batch_marks[acked].0 <= prefix {
                    // The next batch is in flight
                    states.push(exec.states[acked + 1].clone());
                }
                let _ = &exec.observed;
                states
            };

            let next_op = exec.log[prefix].describe(&running);
            let child_context = format!("{context} > crash before op {prefix} ({next_op})");
            self.explore(&running, &allowed_here, None, depth_left - 1, &child_context);
            if self.violations.len() >= self.max_violations {
                break;
            }
        }
        self.universe = saved_universe;
    }
}

// ---------------------------------------------------------------------------------------------
// Workloads
// ---------------------------------------------------------------------------------------------

fn key(idx: usize) -> Vec<u8> {
    match env_usize("AUDIT_KEYS", 0) {
        // Odd shapes: empty key, 0xff keys, prefixes of each other, a long key
        1 => match idx {
            0 => vec![],
            1 => vec![0xff],
            2 => vec![0xff, 0xff],
            3 => vec![0xff, 0xff, 0xff, 0xff, 0xff, 0xff, 0xff, 0xff, 0xff],
            4 => vec![0x00],
            5 => vec![0x00, 0x00],
            6 => b"a".to_vec(),
            7 => b"ab".to_vec(),
            8 => b"abc".to_vec(),
            9 => vec![b'k'; 300],
            10 => vec![0xfe, 0xff],
            _ => format!("key{idx:04}").into_bytes(),
        },
        // Long keys (large manifest records)
        2 => {
            let mut key = format!("key{idx:04}").into_bytes();
            key.resize(env_usize("AUDIT_KEYLEN", 1500), b'k');
            key
        }
        _ => format!("key{idx:04}").into_bytes(),
    }
}

fn value(idx: usize, version: usize, size: usize) -> Vec<u8> {
    let mut value = format!("v{idx}.{version}.").into_bytes();
    let mut fill = 0u8;
    while value.len() < size {
        value.push(b'a' + (fill % 26));
        fill = fill.wrapping_add(1);
    }
    value
}

/// A mixed workload: puts, overwrites, deletes, multi-operation batches.
fn mixed_workload(num_batches: usize, value_size: usize, seed: u64) -> Vec<BatchSpec> {
    let mut rng = seed.wrapping_mul(0x9E3779B97F4A7C15) | 1;
    let mut next = move || {
        rng ^= rng << 13;
        rng ^= rng >> 7;
        rng ^= rng << 17;
        rng
    };
    let mut batches = vec![];
    for batch_idx in 0..num_batches {
        let num_ops = 1 + (next() % 3) as usize;
        let mut spec: BatchSpec = vec![];
        for _ in 0..num_ops {
            let key_idx = (next() % env_usize("AUDIT_NKEYS", 12) as u64) as usize;
            if next() % 4 == 0 {
                spec.push((key(key_idx), None));
            } else {
                let size = if value_size > 1000 && next() % 3 != 0 {
                    40
                } else {
                    value_size
                };
                spec.push((key(key_idx), Some(value(key_idx, batch_idx, size))));
            }
        }
        batches.push(spec);
    }
    batches
}

fn run_config(name: &str, cfg: Cfg, batches: Vec<BatchSpec>, depth: u32) -> Vec<String> {
    let started = Instant::now();
    let mut universe: Vec<Vec<u8>> = (0..env_usize("AUDIT_NKEYS", 12)).map(key).collect();
    universe.push(b"".to_vec());
    universe.push(b"zzzz".to_vec());
    let vary: Vec<(bool, usize)> = match std::env::var("AUDIT_VARY") {
        // e.g. AUDIT_VARY="1:300,0:5000,1:600" = settings for depth_left 0, 1, 2
        Ok(spec) => spec
            .split(',')
            .map(|item| {
                let (reuse, memtable) = item.split_once(':').unwrap();
                (reuse == "1", memtable.parse().unwrap())
            })
            .collect(),
        Err(_) => vec![],
    };
    let mut explorer = Explorer {
        cfg,
        vary,
        universe,
        violations: vec![],
        seen_classes: HashSet::new(),
        executions: 0,
        max_violations: 12,
    };
    explorer.explore(
        &Image::default(),
        &[State::new()],
        Some(&batches),
        depth,
        name,
    );
    println!(
        "{name}: {} executions in {:?}, {} violations",
        explorer.executions,
        started.elapsed(),
        explorer.violations.len()
    );
    for violation in &explorer.violations {
        println!("  VIOLATION {violation}");
    }
    explorer.violations
}

fn env_usize(name: &str, default: usize) -> usize {
    std::env::var(name)
        .ok()
        .and_then(|value| value.parse().ok())
        .unwrap_or(default)
}

/// Panics inside the database are caught and reported as violations with their message, so the
/// default hook's output for them is only noise. Panics of the test threads themselves (the final
/// assertions) are still printed.
fn silence_panics() {
    static ONCE: std::sync::Once = std::sync::Once::new();
    ONCE.call_once(|| {
        let default_hook = panic::take_hook();
        panic::set_hook(Box::new(move |info| {
            let message = info.to_string();
            if message.contains("violations:") || message.contains("fault-free run") {
                default_hook(info);
            }
        }));
    });
}

#[test]
fn explore_small_values() {
    silence_panics();
    let depth = env_usize("AUDIT_DEPTH", 2) as u32;
    let num_batches = env_usize("AUDIT_BATCHES", 24);
    let mut all = vec![];
    for reuse in [true, false] {
        for quiesce in [true, false] {
            let cfg = Cfg {
                reuse_log_files: reuse,
                max_memtable_size: env_usize("AUDIT_MEMTABLE", 600),
                max_file_size: env_usize("AUDIT_FILE", 700) as u64,
                max_block_size: 256,
                quiesce,
                manual_compaction: true,
            };
            let name = format!("small reuse={reuse} quiesce={quiesce}");
            all.extend(run_config(
                &name,
                cfg,
                mixed_workload(num_batches, 60, 7),
                depth,
            ));
        }
    }
    assert!(all.is_empty(), "{} violations:\n{}", all.len(), all.join("\n"));
}

#[test]
fn explore_large_values() {
    silence_panics();
    let depth = env_usize("AUDIT_DEPTH", 2) as u32;
    let num_batches = env_usize("AUDIT_BATCHES", 10);
    let mut all = vec![];
    for reuse in [true, false] {
        let cfg = Cfg {
            reuse_log_files: reuse,
            max_memtable_size: env_usize("AUDIT_MEMTABLE", 150_000),
            max_file_size: env_usize("AUDIT_FILE", 100_000) as u64,
            max_block_size: 4096,
            quiesce: true,
            manual_compaction: false,
        };
        let name = format!("large reuse={reuse}");
        all.extend(run_config(
            &name,
            cfg,
            mixed_workload(num_batches, 70_000, 11),
            depth,
        ));
    }
    assert!(all.is_empty(), "{} violations:\n{}", all.len(), all.join("\n"));
}

/// The general exploration with every parameter taken from the environment.
#[test]
fn explore_custom() {
    silence_panics();
    let depth = env_usize("AUDIT_DEPTH", 2) as u32;
    let num_batches = env_usize("AUDIT_BATCHES", 24);
    let value_size = env_usize("AUDIT_VALUE", 60);
    let seed = env_usize("AUDIT_SEED", 1) as u64;
    let mut all = vec![];
    for reuse in [true, false] {
        let cfg = Cfg {
            reuse_log_files: reuse,
            max_memtable_size: env_usize("AUDIT_MEMTABLE", 600),
            max_file_size: env_usize("AUDIT_FILE", 700) as u64,
            max_block_size: env_usize("AUDIT_BLOCK", 256),
            quiesce: env_usize("AUDIT_QUIESCE", 1) == 1,
            manual_compaction: env_usize("AUDIT_MANUAL", 1) == 1,
        };
        let name = format!("custom reuse={reuse} seed={seed}");
        all.extend(run_config(
            &name,
            cfg,
            mixed_workload(num_batches, value_size, seed),
            depth,
        ));
    }
    assert!(all.is_empty(), "{} violations:\n{}", all.len(), all.join("\n"));
}

// ---------------------------------------------------------------------------------------------
// I/O fault exploration
// ---------------------------------------------------------------------------------------------

fn panic_message(payload: Box<dyn std::any::Any + Send>) -> String {
    if let Some(text) = payload.downcast_ref::<&str>() {
        text.to_string()
    } else if let Some(text) = payload.downcast_ref::<String>() {
        text.clone()
    } else {
        "<non-string panic>".to_string()
    }
}

/// All states reachable by applying the acknowledged batches and any subset of the failed ones.
fn candidate_states(batches: &[BatchSpec], outcomes: &[Option<bool>]) -> Vec<State> {
    let mut states: Vec<State> = vec![State::new()];
    for (spec, outcome) in batches.iter().zip(outcomes.iter()) {
        match outcome {
            Some(true) => {
                states = states.iter().map(|state| apply_spec(state, spec)).collect();
            }
            Some(false) => {
                let mut next: Vec<State> = states.clone();
                for state in &states {
                    let applied = apply_spec(state, spec);
                    if !next.contains(&applied) {
                        next.push(applied);
                    }
                }
                states = next;
            }
            None => {}
        }
    }
    states
}

fn check_recovered(
    cfg: &Cfg,
    image: &Image,
    candidates: &[State],
    universe: &[Vec<u8>],
    what: &str,
) -> Result<(), String> {
    let extra: Vec<BatchSpec> = vec![
        vec![(b"after-fault-a".to_vec(), Some(b"1".to_vec()))],
        vec![
            (b"after-fault-b".to_vec(), Some(vec![b'z'; 200])),
            (b"after-fault-a".to_vec(), None),
        ],
    ];
    let mut universe = universe.to_vec();
    universe.push(b"after-fault-a".to_vec());
    universe.push(b"after-fault-b".to_vec());
    run_exec(cfg, image, candidates, &extra, &universe, false)
        .map(|_| ())
        .map_err(|err| format!("{what}: {err} || image: {}", image.listing()))
}

fn run_fault_exec(
    cfg: &Cfg,
    batches: &[BatchSpec],
    universe: &[Vec<u8>],
    fault: Option<Fault>,
) -> (usize, Vec<String>) {
    let fs = Arc::new(CrashFs::new(&Image::default()));
    fs.set_fault(fault);
    let mut problems = vec![];
    let mut outcomes: Vec<Option<bool>> = vec![None; batches.len()];

    let run = panic::catch_unwind(AssertUnwindSafe(|| {
        let db = match DB::open(make_options(cfg, Arc::clone(&fs))) {
            Ok(db) => db,
            Err(_) => {
                // The open hit the fault. Nothing was acknowledged yet.
                return;
            }
        };
        let mut failures = 0;
        for (idx, spec) in batches.iter().enumerate() {
            let mut batch = Batch::new();
            for (key, value) in spec {
                match value {
                    Some(value) => batch.add_put(key.clone(), value.clone()),
                    None => batch.add_delete(key.clone()),
                };
            }
            // Mark as attempted-and-unknown before the call in case of a panic
            outcomes[idx] = Some(false);
            match db.apply(WriteOptions::default(), batch) {
                Ok(()) => outcomes[idx] = Some(true),
                Err(_) => {
                    failures += 1;
                    if failures >= 5 {
                        break;
                    }
                }
            }
            if cfg.quiesce {
                wait_idle(&db);
            }
        }
        if cfg.manual_compaction && failures == 0 {
            db.compact_range(None..None);
        }

        // A crash right here
        let candidates = candidate_states(batches, &outcomes);
        let image = fs.image();
        if let Err(err) = check_recovered(cfg, &image, &candidates, universe, "crash after the run")
        {
            problems.push(err);
        }
        drop(db);
    }));
    if let Err(payload) = run {
        // Treated like a crash of the process
        let _ = panic_message(payload);
    }

    let attempts = fs.attempts();
    fs.set_fault(None);
    let candidates = candidate_states(batches, &outcomes);
    let image = fs.image();
    if let Err(err) = check_recovered(cfg, &image, &candidates, universe, "reopen after the run") {
        problems.push(err);
    }

    (attempts, problems)
}

#[test]
fn explore_faults() {
    silence_panics();
    let num_batches = env_usize("AUDIT_BATCHES", 25);
    let seed = env_usize("AUDIT_SEED", 9) as u64;
    let value_size = env_usize("AUDIT_VALUE", 60);
    let mut all: Vec<String> = vec![];
    let mut classes: HashSet<String> = HashSet::new();
    for reuse in [true, false] {
        let cfg = Cfg {
            reuse_log_files: reuse,
            max_memtable_size: env_usize("AUDIT_MEMTABLE", 600),
            max_file_size: env_usize("AUDIT_FILE", 700) as u64,
            max_block_size: env_usize("AUDIT_BLOCK", 256),
            quiesce: true,
            manual_compaction: true,
        };
        let batches = mixed_workload(num_batches, value_size, seed);
        let mut universe: Vec<Vec<u8>> = (0..env_usize("AUDIT_NKEYS", 12)).map(key).collect();
        universe.push(b"zzzz".to_vec());

        let (total, problems) = run_fault_exec(&cfg, &batches, &universe, None);
        assert!(problems.is_empty(), "fault-free run: {problems:?}");
        println!("reuse={reuse}: {total} mutating operations in the fault-free run");

        let started = Instant::now();
        let mut runs = 0;
        for at in 0..total {
            for mode in [FaultMode::Before, FaultMode::After, FaultMode::Partial] {
                for persistent in [false, true] {
                    let fault = Fault {
                        at,
                        mode,
                        persistent,
                    };
                    let (_, problems) = run_fault_exec(&cfg, &batches, &universe, Some(fault));
                    runs += 1;
                    for problem in problems {
                        let class: String = problem.chars().take(70).collect();
                        if classes.insert(class) || all.len() < 4 {
                            let msg = format!("[reuse={reuse} {fault:?}] {problem}");
                            println!("  VIOLATION {msg}");
                            all.push(msg);
                        }
                    }
                }
            }
        }
        println!("reuse={reuse}: {runs} faulty runs in {:?}", started.elapsed());
    }
    assert!(all.is_empty(), "{} violations:\n{}", all.len(), all.join("\n"));
}

/// WAL records that end 0..=8 bytes before a 32 KiB block boundary, followed by small and
/// multi-block records; the WAL is reused or replaced by the recoveries.
#[test]
fn explore_wal_boundaries() {
    silence_panics();
    let depth = env_usize("AUDIT_DEPTH", 2) as u32;
    let mut all = vec![];
    for reuse in [true, false] {
        for leftover in 0..=8usize {
            let cfg = Cfg {
                reuse_log_files: reuse,
                max_memtable_size: 4 * 1024 * 1024,
                max_file_size: 2 * 1024 * 1024,
                max_block_size: 4096,
                quiesce: true,
                manual_compaction: false,
            };
            // header 7 + seq 8 + count 1 + op 1 + key len 1 + key 7 + value len 3 + value
            let first_value_len = 32768 - leftover - 28;
            let mut batches: Vec<BatchSpec> = vec![vec![(
                b"key0000".to_vec(),
                Some(value(0, 0, first_value_len)),
            )]];
            batches.push(vec![(b"key0001".to_vec(), Some(b"small-1".to_vec()))]);
            batches.push(vec![
                (b"key0002".to_vec(), Some(b"small-2".to_vec())),
                (b"key0001".to_vec(), None),
            ]);
            // Fill the second block up to the same distance from its end
            let used_in_second_block = if leftover < 7 { 0 } else { 7 } // zero-length First fragment
                + (7 + 8 + 1 + 1 + 1 + 7 + 1 + 7)
                + (7 + 8 + 1 + 1 + 1 + 7 + 1 + 7 + 1 + 1 + 7);
            let second_value_len = 32768 - leftover - used_in_second_block - 28;
            batches.push(vec![(
                b"key0003".to_vec(),
                Some(value(3, 0, second_value_len)),
            )]);
            batches.push(vec![(b"key0004".to_vec(), Some(value(4, 0, 80_000)))]);
            batches.push(vec![(b"key0000".to_vec(), Some(b"small-3".to_vec()))]);
            let name = format!("wal-boundary reuse={reuse} leftover={leftover}");
            all.extend(run_config(&name, cfg, batches, depth));
        }
    }
    assert!(all.is_empty(), "{} violations:\n{}", all.len(), all.join("\n"));
}

// ---------------------------------------------------------------------------------------------
// Concurrent writers (group commits)
// ---------------------------------------------------------------------------------------------

fn mt_value(version: usize, size: usize) -> Vec<u8> {
    let mut value = format!("{version:06}.").into_bytes();
    value.resize(size.max(7), b'm');
    value
}

fn mt_version(value: &[u8]) -> usize {
    std::str::from_utf8(&value[..6]).unwrap().parse().unwrap()
}

#[test]
fn explore_concurrent_writers() {
    silence_panics();
    let num_threads = env_usize("AUDIT_THREADS", 4);
    let writes_per_thread = env_usize("AUDIT_BATCHES", 25);
    let value_size = env_usize("AUDIT_VALUE", 50);
    let mut all: Vec<String> = vec![];
    for reuse in [true, false] {
        for round in 0..env_usize("AUDIT_ROUNDS", 3) {
            let cfg = Cfg {
                reuse_log_files: reuse,
                max_memtable_size: env_usize("AUDIT_MEMTABLE", 700),
                max_file_size: env_usize("AUDIT_FILE", 900) as u64,
                max_block_size: 256,
                quiesce: false,
                manual_compaction: false,
            };
            let fs = Arc::new(CrashFs::new(&Image::default()));
            let db = Arc::new(DB::open(make_options(&cfg, Arc::clone(&fs))).unwrap());
            // marks[t][i] = (log length before write i+1 of thread t, log length after its ack)
            let mut handles = vec![];
            for thread_idx in 0..num_threads {
                let db = Arc::clone(&db);
                let fs = Arc::clone(&fs);
                handles.push(std::thread::spawn(move || {
                    let mut marks: Vec<(usize, usize)> = vec![];
                    for version in 1..=writes_per_thread {
                        let before = fs.op_count();
                        let mut batch = Batch::new();
                        batch.add_put(
                            format!("t{thread_idx}-a").into_bytes(),
                            mt_value(version, value_size),
                        );
                        batch.add_put(
                            format!("t{thread_idx}-b").into_bytes(),
                            mt_value(version, value_size + 13),
                        );
                        db.apply(WriteOptions::default(), batch).unwrap();
                        marks.push((before, fs.op_count()));
                    }
                    marks
                }));
            }
            let marks: Vec<Vec<(usize, usize)>> = handles
                .into_iter()
                .map(|handle| handle.join().unwrap())
                .collect();
            let db = Arc::try_unwrap(db).ok().unwrap();
            wait_idle(&db);
            drop(db);
            let log = fs.take_log();

            let mut universe: Vec<Vec<u8>> = vec![];
            for thread_idx in 0..num_threads {
                universe.push(format!("t{thread_idx}-a").into_bytes());
                universe.push(format!("t{thread_idx}-b").into_bytes());
            }

            let mut running = Image::default();
            let mut checked = 0;
            for prefix in 0..=log.len() {
                if prefix > 0 {
                    running.apply(&log[prefix - 1]);
                }
                let context = format!(
                    "mt reuse={reuse} round={round} crash before op {prefix}/{}",
                    log.len()
                );
                let crash_fs = Arc::new(CrashFs::new(&running));
                let outcome = panic::catch_unwind(AssertUnwindSafe(|| -> Result<(), String> {
                    let db = DB::open(make_options(&cfg, Arc::clone(&crash_fs)))
                        .map_err(|err| format!("the database does not open: {err}"))?;
                    let state = read_state(&db, &universe)?;
                    for thread_idx in 0..num_threads {
                        let acked = marks[thread_idx]
                            .iter()
                            .filter(|(_, after)| *after <= prefix)
                            .count();
                        let started = marks[thread_idx]
                            .iter()
                            .filter(|(before, _)| *before <= prefix)
                            .count();
                        let a = state
                            .get(format!("t{thread_idx}-a").as_bytes())
                            .map_or(0, |value| mt_version(value));
                        let b = state
                            .get(format!("t{thread_idx}-b").as_bytes())
                            .map_or(0, |value| mt_version(value));
                        if a != b {
                            return Err(format!(
                                "thread {thread_idx}: batch applied partially: a has version {a}, \
                                b has version {b}"
                            ));
                        }
                        if a < acked || a > started {
                            return Err(format!(
                                "thread {thread_idx}: recovered version {a} but {acked} writes \
                                were acknowledged and {started} were started"
                            ));
                        }
                    }
                    if state.len() > 2 * num_threads {
                        return Err("unexpected keys".to_string());
                    }
                    db.put(WriteOptions::default(), b"zz-after".to_vec(), b"1".to_vec())
                        .map_err(|err| format!("write after recovery failed: {err}"))?;
                    drop(db);
                    let db = DB::open(make_options(&cfg, Arc::clone(&crash_fs)))
                        .map_err(|err| format!("the database does not reopen: {err}"))?;
                    let mut expected = state.clone();
                    expected.insert(b"zz-after".to_vec(), b"1".to_vec());
                    let mut universe2 = universe.clone();
                    universe2.push(b"zz-after".to_vec());
                    let reopened = read_state(&db, &universe2)?;
                    if reopened != expected {
                        return Err(format!(
                            "after clean reopen: {}",
                            diff_states(&expected, &reopened)
                        ));
                    }
                    Ok(())
                }));
                checked += 1;
                let problem = match outcome {
                    Ok(Ok(())) => None,
                    Ok(Err(msg)) => Some(msg),
                    Err(payload) => Some(format!("panic: {}", panic_message(payload))),
                };
                if let Some(problem) = problem {
                    println!("  VIOLATION [{context}] {problem} || {}", running.listing());
                    all.push(format!("[{context}] {problem}"));
                    if all.len() > 10 {
                        break;
                    }
                }
            }
            println!("mt reuse={reuse} round={round}: {checked} crash points checked");
        }
    }
    assert!(all.is_empty(), "{} violations:\n{}", all.len(), all.join("\n"));
}

// ---------------------------------------------------------------------------------------------
// Slowed-down background thread (forces flushes inside table compactions, writes during flushes)
// ---------------------------------------------------------------------------------------------

struct SlowBackground {
    in_table_compaction: std::sync::atomic::AtomicBool,
    inline_flushes: std::sync::atomic::AtomicUsize,
    table_compactions: std::sync::atomic::AtomicUsize,
    trivial_moves: std::sync::atomic::AtomicUsize,
    step_sleep_micros: u64,
}

impl raindb::verif::Handler for SlowBackground {
    fn pause(&self, point: &'static str, _args: &[u64]) {
        use std::sync::atomic::Ordering::SeqCst;
        match point {
            "compact.begin" => self.in_table_compaction.store(false, SeqCst),
            "compact.step" => std::thread::sleep(Duration::from_micros(self.step_sleep_micros)),
            "flush.before_build" => {
                if self.in_table_compaction.load(SeqCst) {
                    self.inline_flushes.fetch_add(1, SeqCst);
                }
                std::thread::sleep(Duration::from_micros(self.step_sleep_micros));
            }
            "manifest.before_append" | "manifest.after_append" | "gc.delete_one" => {
                std::thread::sleep(Duration::from_micros(self.step_sleep_micros / 2));
            }
            _ => {}
        }
    }

    fn note(&self, point: &'static str, args: &[u64]) {
        use std::sync::atomic::Ordering::SeqCst;
        if point == "compaction.pick" {
            if args[4] == 0 {
                self.in_table_compaction.store(true, SeqCst);
                self.table_compactions.fetch_add(1, SeqCst);
            } else {
                self.trivial_moves.fetch_add(1, SeqCst);
            }
        }
    }
}

#[test]
fn explore_slow_background() {
    silence_panics();
    use std::sync::atomic::Ordering::SeqCst;
    let handler = Arc::new(SlowBackground {
        in_table_compaction: Default::default(),
        inline_flushes: Default::default(),
        table_compactions: Default::default(),
        trivial_moves: Default::default(),
        step_sleep_micros: env_usize("AUDIT_SLEEP", 300) as u64,
    });
    let depth = env_usize("AUDIT_DEPTH", 1) as u32;
    let num_batches = env_usize("AUDIT_BATCHES", 100);
    let mut all = vec![];
    for reuse in [true, false] {
        let cfg = Cfg {
            reuse_log_files: reuse,
            max_memtable_size: env_usize("AUDIT_MEMTABLE", 500),
            max_file_size: env_usize("AUDIT_FILE", 700) as u64,
            max_block_size: 256,
            quiesce: false,
            manual_compaction: true,
        };
        // Only the top-level execution is slowed down: install the handler for the first
        // execution and remove it in the explorer afterwards is not possible from here, so the
        // handler stays for all executions; it only sleeps.
        raindb::verif::set_handler(Some(handler.clone()));
        let name = format!("slow-background reuse={reuse}");
        all.extend(run_config(
            &name,
            cfg,
            mixed_workload(num_batches, 60, env_usize("AUDIT_SEED", 77) as u64),
            depth,
        ));
        raindb::verif::set_handler(None);
        println!(
            "{name}: table compactions {}, trivial moves {}, flushes inside table compactions {}",
            handler.table_compactions.load(SeqCst),
            handler.trivial_moves.load(SeqCst),
            handler.inline_flushes.load(SeqCst)
        );
    }
    assert!(all.is_empty(), "{} violations:\n{}", all.len(), all.join("\n"));
}

// ---------------------------------------------------------------------------------------------
// Crash images recovered with the real operating system file system
// ---------------------------------------------------------------------------------------------

#[test]
fn explore_os_filesystem_recovery() {
    silence_panics();
    use raindb::fs::TmpFileSystem;
    let num_batches = env_usize("AUDIT_BATCHES", 30);
    let mut all: Vec<String> = vec![];
    for reuse in [true, false] {
        let cfg = Cfg {
            reuse_log_files: reuse,
            max_memtable_size: 600,
            max_file_size: env_usize("AUDIT_FILE", 700) as u64,
            max_block_size: 256,
            quiesce: true,
            manual_compaction: true,
        };
        let batches = mixed_workload(num_batches, 60, 5);
        let universe: Vec<Vec<u8>> = (0..12).map(key).collect();
        let exec = run_exec(
            &cfg,
            &Image::default(),
            &[State::new()],
            &batches,
            &universe,
            true,
        )
        .unwrap();

        let mut running = Image::default();
        for prefix in 0..=exec.log.len() {
            if prefix > 0 {
                running.apply(&exec.log[prefix - 1]);
            }
            let allowed: Vec<State> = if prefix < exec.open_done {
                vec![State::new()]
            } else {
                let acked = exec
                    .batch_marks
                    .iter()
                    .filter(|(_, after)| *after <= prefix)
                    .count();
                let mut states = vec![exec.states[acked].clone()];
                if acked < exec.batch_marks.len() && exec.batch_marks[acked].0 <= prefix {
                    states.push(exec.states[acked + 1].clone());
                }
                if prefix >= exec.batch_marks.last().unwrap().1 {
                    states = vec![exec.states.last().unwrap().clone()];
                }
                states
            };

            // Materialize the image
            let tmp_fs = Arc::new(TmpFileSystem::new(None));
            let root = tmp_fs.get_root_path();
            let db_dir = root.join("db");
            for (name, id) in &running.names {
                let relative = name.strip_prefix(DB_PATH).unwrap();
                let target = db_dir.join(relative);
                std::fs::create_dir_all(target.parent().unwrap()).unwrap();
                std::fs::write(&target, running.contents.get(id).unwrap()).unwrap();
            }

            let options = DbOptions {
                db_path: db_dir.to_str().unwrap().to_string(),
                filesystem_provider: tmp_fs.clone(),
                ..make_options(&cfg, Arc::new(CrashFs::new(&Image::default())))
            };
            let outcome = panic::catch_unwind(AssertUnwindSafe(|| -> Result<(), String> {
                let db = DB::open(options.clone())
                    .map_err(|err| format!("the database does not open: {err}"))?;
                let state = read_state(&db, &universe)?;
                if !allowed.contains(&state) {
                    return Err(format!(
                        "recovered contents are not an allowed state: vs allowed[0]: {}",
                        diff_states(&allowed[0], &state)
                    ));
                }
                db.put(WriteOptions::default(), b"zz-after".to_vec(), vec![b'x'; 700])
                    .map_err(|err| format!("write after recovery failed: {err}"))?;
                db.delete(WriteOptions::default(), b"zz-after".to_vec())
                    .map_err(|err| format!("write after recovery failed: {err}"))?;
                db.put(WriteOptions::default(), b"zz-after2".to_vec(), b"2".to_vec())
                    .map_err(|err| format!("write after recovery failed: {err}"))?;
                drop(db);
                let db = DB::open(options.clone())
                    .map_err(|err| format!("the database does not reopen: {err}"))?;
                let mut expected = state.clone();
                expected.insert(b"zz-after2".to_vec(), b"2".to_vec());
                let mut universe2 = universe.clone();
                universe2.push(b"zz-after".to_vec());
                universe2.push(b"zz-after2".to_vec());
                let reopened = read_state(&db, &universe2)?;
                if reopened != expected {
                    return Err(format!(
                        "after clean reopen: {}",
                        diff_states(&expected, &reopened)
                    ));
                }
                Ok(())
            }));
            let problem = match outcome {
                Ok(Ok(())) => None,
                Ok(Err(msg)) => Some(msg),
                Err(payload) => Some(format!("panic: {}", panic_message(payload))),
            };
            if let Some(problem) = problem {
                let msg = format!(
                    "[os reuse={reuse} crash before op {prefix}] {problem} || {}",
                    running.listing()
                );
                println!("  VIOLATION {msg}");
                all.push(msg);
                if all.len() > 8 {
                    break;
                }
            }
        }
        println!("os reuse={reuse}: {} crash images recovered", exec.log.len() + 1);
    }
    assert!(all.is_empty(), "{} violations:\n{}", all.len(), all.join("\n"));
}

/// Empty batches, deletes of missing keys, empty keys/values, several operations on one key in one
/// batch.
#[test]
fn explore_edge_batches() {
    silence_panics();
    let depth = env_usize("AUDIT_DEPTH", 2) as u32;
    let mut all = vec![];
    for reuse in [true, false] {
        for memtable in [250usize, 100_000] {
            let cfg = Cfg {
                reuse_log_files: reuse,
                max_memtable_size: memtable,
                max_file_size: 600,
                max_block_size: 128,
                quiesce: true,
                manual_compaction: true,
            };
            let batches: Vec<BatchSpec> = vec![
                vec![],
                vec![(b"a".to_vec(), Some(b"1".to_vec()))],
                vec![],
                vec![(b"b".to_vec(), Some(vec![])), (b"a".to_vec(), None)],
                vec![(b"missing".to_vec(), None)],
                vec![(vec![], Some(vec![]))],
                vec![
                    (b"c".to_vec(), Some(b"c1".to_vec())),
                    (b"c".to_vec(), None),
                    (b"c".to_vec(), Some(b"c3".to_vec())),
                ],
                vec![(vec![], None), (vec![0xff; 40], Some(vec![0xff; 40]))],
                vec![],
                vec![(b"a".to_vec(), Some(vec![b'a'; 100]))],
                vec![
                    (b"c".to_vec(), None),
                    (b"c".to_vec(), Some(b"c4".to_vec())),
                    (b"c".to_vec(), None),
                ],
                vec![(b"d".to_vec(), Some(vec![b'd'; 90]))],
                vec![(vec![], Some(b"empty-key".to_vec()))],
                vec![(vec![0xff; 40], None)],
            ];
            let name = format!("edge-batches reuse={reuse} memtable={memtable}");
            all.extend(run_config(&name, cfg, batches, depth));
        }
    }
    assert!(all.is_empty(), "{} violations:\n{}", all.len(), all.join("\n"));
}
