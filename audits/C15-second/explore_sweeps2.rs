//! Scratch exploration harness of the second audit of C15 (not the final demonstration).

use std::collections::BTreeMap;
use std::fs;
use std::path::{Path, PathBuf};

use crc::{Crc, CRC_32_ISCSI};
use raindb::{DbOptions, RainDBError, RainDbIterator, ReadOptions, WriteOptions, DB};

const CRC32C: Crc<u32> = Crc::<u32>::new(&CRC_32_ISCSI);

fn unmask(masked: u32) -> u32 {
    let rotated = masked.wrapping_sub(0xa282ead8);
    (rotated >> 17) | (rotated << 15)
}

fn scratch_dir(name: &str) -> PathBuf {
    let mut dir = PathBuf::from(env!("CARGO_MANIFEST_DIR"));
    dir.push("target");
    dir.push("audit2-tmp");
    dir.push(name);
    let _ = fs::remove_dir_all(&dir);
    fs::create_dir_all(&dir).unwrap();
    dir
}

fn options(dir: &Path, reuse_logs: bool) -> DbOptions {
    DbOptions {
        db_path: dir.to_str().unwrap().to_string(),
        create_if_missing: true,
        reuse_log_files: reuse_logs,
        ..DbOptions::default()
    }
}

/// Deterministic pseudo random bytes.
fn noise(seed: u64, len: usize) -> Vec<u8> {
    let mut state = seed.wrapping_mul(0x9E3779B97F4A7C15) | 1;
    (0..len)
        .map(|_| {
            state ^= state << 13;
            state ^= state >> 7;
            state ^= state << 17;
            (state >> 24) as u8
        })
        .collect()
}

fn key(idx: usize) -> Vec<u8> {
    format!("key{idx:04}").into_bytes()
}

fn table_files(dir: &Path) -> Vec<(u64, PathBuf)> {
    let mut files: Vec<(u64, PathBuf)> = fs::read_dir(dir.join("data"))
        .unwrap()
        .map(|entry| entry.unwrap().path())
        .filter(|path| path.extension().map(|ext| ext == "rdb").unwrap_or(false))
        .map(|path| {
            (
                path.file_stem().unwrap().to_str().unwrap().parse::<u64>().unwrap(),
                path,
            )
        })
        .collect();
    files.sort();
    files
}

const NUM_KEYS: usize = 300;
const VALUE_LEN: usize = 200;
const MAGIC: [u8; 8] = [0x6e, 0x06, 0, 0, 0, 0, 0, 0];

/// Build the database. `crafted` = (index of the key, offset in its value, bytes to put there).
fn build(dir: &Path, crafted: Option<(usize, usize, Vec<u8>)>) -> BTreeMap<Vec<u8>, Option<Vec<u8>>> {
    let mut model: BTreeMap<Vec<u8>, Option<Vec<u8>>> = BTreeMap::new();
    {
        let db = DB::open(options(dir, false)).unwrap();
        // Old generation: 1599 writes (sequence numbers 1..=1599)
        let mut seq = 0;
        while seq < 1599 {
            let idx = seq % NUM_KEYS;
            let value = format!("old-{idx:04}-{seq}").into_bytes();
            db.put(WriteOptions::default(), key(idx), value.clone()).unwrap();
            model.insert(key(idx), Some(value));
            seq += 1;
        }
        // Push the old generation down into a table file below level 0
        db.compact_range(None..None);
    }
    {
        let db = DB::open(options(dir, false)).unwrap();
        // New generation: sequence numbers 1600..
        for idx in 0..NUM_KEYS {
            if idx % 10 == 7 && idx > 50 {
                db.delete(WriteOptions::default(), key(idx)).unwrap();
                model.insert(key(idx), None);
                continue;
            }
            let mut value = noise(idx as u64 + 1, VALUE_LEN);
            value[..4].copy_from_slice(b"new-");
            if let Some((crafted_idx, offset, bytes)) = crafted.as_ref() {
                if *crafted_idx == idx {
                    value[*offset..*offset + bytes.len()].copy_from_slice(bytes);
                }
            }
            db.put(WriteOptions::default(), key(idx), value.clone()).unwrap();
            model.insert(key(idx), Some(value));
        }
    }
    {
        // Recover the WAL of the new generation into a level 0 table file
        let _db = DB::open(options(dir, false)).unwrap();
    }
    model
}

fn check(dir: &Path, model: &BTreeMap<Vec<u8>, Option<Vec<u8>>>) -> (usize, usize, usize, Vec<String>) {
    let mut wrong = vec![];
    let (mut ok, mut errors) = (0, 0);
    match DB::open(options(dir, false)) {
        Err(err) => {
            println!("open failed: {err}");
            return (0, 0, 0, wrong);
        }
        Ok(db) => {
            for (key, expected) in model {
                match db.get(ReadOptions::default(), key) {
                    Ok(value) => {
                        if Some(&value) == expected.as_ref() {
                            ok += 1;
                        } else {
                            wrong.push(format!(
                                "{} -> {:?} (expected {:?})",
                                String::from_utf8_lossy(key),
                                String::from_utf8_lossy(&value[..value.len().min(16)]),
                                expected.as_ref().map(|v| String::from_utf8_lossy(&v[..v.len().min(16)]).to_string())
                            ));
                        }
                    }
                    Err(RainDBError::KeyNotFound) => {
                        if expected.is_none() {
                            ok += 1;
                        } else {
                            wrong.push(format!("{} -> not found", String::from_utf8_lossy(key)));
                        }
                    }
                    Err(_err) => errors += 1,
                }
            }
            // scan
            let mut iter = db.new_iterator(ReadOptions::default()).unwrap();
            let seek = iter.seek_to_first();
            let mut scanned = 0;
            while iter.is_valid() {
                scanned += 1;
                if iter.next().is_none() {
                    break;
                }
            }
            println!("scan: seek {:?}, {} entries, status {:?}", seek.is_ok(), scanned, iter.status().map(|e| e.to_string()));
        }
    }
    (ok, errors, wrong.len(), wrong)
}

#[test]
fn explore_truncation_at_magic_lookalike() {
    let dir = scratch_dir("trunc-pass1");
    let model = build(&dir, None);
    let tables = table_files(&dir);
    println!("tables: {:?}", tables.iter().map(|(n, p)| (*n, fs::metadata(p).unwrap().len())).collect::<Vec<_>>());
    let (_, newest) = tables.last().unwrap();
    let bytes = fs::read(newest).unwrap();

    // Size of data block 0: contents ‖ type ‖ masked crc32c(contents ‖ type)
    let mut block0_size = None;
    for size in 1..bytes.len().saturating_sub(5) {
        let stored = u32::from_le_bytes(bytes[size + 1..size + 5].try_into().unwrap());
        if CRC32C.checksum(&bytes[..size + 1]) == unmask(stored) {
            block0_size = Some(size);
            break;
        }
    }
    println!("block 0 size {:?} type {:?}", block0_size, block0_size.map(|s| bytes[s]));

    let positions: Vec<usize> = (0..bytes.len() - 8).filter(|&i| bytes[i..i + 8] == MAGIC).collect();
    println!("magic lookalikes at {:?} of {}", positions, bytes.len());
    for pos in &positions {
        let start = pos.saturating_sub(20);
        println!("context: {:?}", String::from_utf8_lossy(&bytes[start..*pos]));
    }
    let (ok, errors, wrong, list) = check(&dir, &model);
    println!("intact: ok {ok} errors {errors} wrong {wrong} {:?}", &list[..list.len().min(5)]);

    // Pass 2
    let size = block0_size.unwrap();
    let magic_end = positions[0] + 8;
    let footer_start = magic_end - 48;
    // find the value of key0045: it ends where the entry of key0046 starts
    let probe = noise(45 + 1, VALUE_LEN);
    let value_start = (0..bytes.len() - VALUE_LEN).find(|&i| bytes[i + 4..i + VALUE_LEN] == probe[4..]).unwrap();
    println!("value of key0045 at {value_start}, footer start {footer_start}");
    let offset_in_value = footer_start - value_start;
    let mut handle: Vec<u8> = vec![0];
    let mut remaining = size;
    while remaining >= 0x80 {
        handle.push((remaining as u8 & 0x7f) | 0x80);
        remaining >>= 7;
    }
    handle.push(remaining as u8);
    let crafted: Vec<u8> = [handle.clone(), handle].concat();
    println!("crafted {:?} at value offset {}", crafted, offset_in_value);

    let dir2 = scratch_dir("trunc-pass2");
    let model2 = build(&dir2, Some((45, offset_in_value, crafted)));
    let tables2 = table_files(&dir2);
    let (_, newest2) = tables2.last().unwrap();
    let bytes2 = fs::read(newest2).unwrap();
    assert_eq!(bytes2.len(), bytes.len());
    assert_eq!(bytes2[positions[0]..magic_end], MAGIC);
    let (ok, errors, wrong, list) = check(&dir2, &model2);
    println!("intact2: ok {ok} errors {errors} wrong {wrong} {:?}", &list[..list.len().min(5)]);
    fs::write(newest2, &bytes2[..magic_end]).unwrap();
    let (ok, errors, wrong, list) = check(&dir2, &model2);
    println!("truncated to {magic_end}: ok {ok} errors {errors} wrong {wrong} {:?}", &list[..list.len().min(8)]);
}

// ---------------------------------------------------------------------------------------------
// Sweep of a multi-block WAL
// ---------------------------------------------------------------------------------------------

use raindb::Batch;

type Model = BTreeMap<Vec<u8>, Option<Vec<u8>>>;

#[derive(Clone)]
struct Record {
    marker: Vec<u8>,
    ops: Vec<(Vec<u8>, Option<Vec<u8>>)>,
}

fn wal_workload() -> Vec<Record> {
    let mut records = vec![];
    for i in 0..64usize {
        let mut ops = vec![];
        let num_ops = 1 + (i % 3);
        for j in 0..num_ops {
            let user_key = format!("k{:02}", (i * 7 + j * 3) % 20).into_bytes();
            let kind = (i * 5 + j) % 11;
            if kind == 3 {
                ops.push((user_key, None));
            } else {
                let len = match kind {
                    0 => 40_000 + i * 13,
                    5 => 5_000 + i,
                    9 => 33_000,
                    _ => 20 + (i * 17 + j) % 180,
                };
                let mut value = noise((i * 10 + j) as u64 + 77, len);
                let tag = format!("v{i:02}.{j}-");
                value[..tag.len()].copy_from_slice(tag.as_bytes());
                ops.push((user_key, Some(value)));
            }
        }
        records.push(Record {
            marker: format!("m{i:04}").into_bytes(),
            ops,
        });
    }
    records
}

fn apply_record(db: &DB, record: &Record) {
    let mut batch = Batch::new();
    batch.add_put(record.marker.clone(), b"x".to_vec());
    for (user_key, maybe_value) in &record.ops {
        match maybe_value {
            Some(value) => {
                batch.add_put(user_key.clone(), value.clone());
            }
            None => {
                batch.add_delete(user_key.clone());
            }
        }
    }
    db.apply(WriteOptions::default(), batch).unwrap();
}

fn copy_dir(from: &Path, to: &Path) {
    let _ = fs::remove_dir_all(to);
    fs::create_dir_all(to).unwrap();
    for entry in fs::read_dir(from).unwrap() {
        let entry = entry.unwrap();
        let target = to.join(entry.file_name());
        if entry.file_type().unwrap().is_dir() {
            copy_dir(&entry.path(), &target);
        } else {
            fs::copy(entry.path(), target).unwrap();
        }
    }
}

/// Reads the whole user-visible state. Err(description) if something is reported as an error.
fn read_state(db: &DB, keys: &[Vec<u8>]) -> Result<Model, String> {
    let mut state = Model::new();
    for user_key in keys {
        match db.get(ReadOptions::default(), user_key) {
            Ok(value) => {
                state.insert(user_key.clone(), Some(value));
            }
            Err(RainDBError::KeyNotFound) => {
                state.insert(user_key.clone(), None);
            }
            Err(err) => return Err(format!("get: {err}")),
        }
    }
    Ok(state)
}

fn scan_state(db: &DB, forward: bool) -> Result<Vec<(Vec<u8>, Vec<u8>)>, String> {
    let mut iter = db.new_iterator(ReadOptions::default()).map_err(|e| format!("new_iterator: {e}"))?;
    let mut out = vec![];
    if forward {
        iter.seek_to_first().map_err(|e| format!("seek: {e}"))?;
    } else {
        iter.seek_to_last().map_err(|e| format!("seek: {e}"))?;
    }
    while iter.is_valid() {
        let (k, v) = iter.current().unwrap();
        out.push((k.clone(), v.clone()));
        let step = if forward { iter.next().is_none() } else { iter.prev().is_none() };
        if step {
            break;
        }
    }
    if let Some(err) = iter.status() {
        return Err(format!("scan status: {err}"));
    }
    if !forward {
        out.reverse();
    }
    Ok(out)
}

fn expected_from(records: &[Record], survivors: &[bool]) -> Model {
    let mut model = Model::new();
    for (record, alive) in records.iter().zip(survivors) {
        if !alive {
            continue;
        }
        model.insert(record.marker.clone(), Some(b"x".to_vec()));
        for (user_key, maybe_value) in &record.ops {
            model.insert(user_key.clone(), maybe_value.clone());
        }
    }
    model
}

fn short(value: &Option<Vec<u8>>) -> String {
    match value {
        None => "<none>".to_string(),
        Some(v) => format!("{:?}({})", String::from_utf8_lossy(&v[..v.len().min(8)]), v.len()),
    }
}

fn compare(expected: &Model, actual: &Model, keys: &[Vec<u8>]) -> Vec<String> {
    let mut diffs = vec![];
    for user_key in keys {
        let want = expected.get(user_key).cloned().unwrap_or(None);
        let got = actual.get(user_key).cloned().unwrap_or(None);
        if want != got {
            diffs.push(format!(
                "{}: got {} want {}",
                String::from_utf8_lossy(user_key),
                short(&got),
                short(&want)
            ));
        }
    }
    diffs
}

fn wal_sweep(reuse: bool) {
    let name = if reuse { "walsweep-reuse" } else { "walsweep-noreuse" };
    let base = scratch_dir(&format!("{name}-base"));
    let records = wal_workload();
    {
        let db = DB::open(options(&base, reuse)).unwrap();
        for record in &records {
            apply_record(&db, record);
        }
    }
    let wal_dir = base.join("wal");
    let wals: Vec<PathBuf> = fs::read_dir(&wal_dir).unwrap().map(|e| e.unwrap().path()).collect();
    assert_eq!(wals.len(), 1, "{wals:?}");
    let wal_name = wals[0].file_name().unwrap().to_owned();
    let wal = fs::read(&wals[0]).unwrap();
    println!("WAL {:?} has {} bytes", wal_name, wal.len());

    // Physical structure
    let mut headers = vec![];
    let mut offset = 0usize;
    while offset + 7 <= wal.len() {
        let left = 32768 - offset % 32768;
        if left < 7 {
            offset += left;
            continue;
        }
        let len = u16::from_le_bytes([wal[offset + 4], wal[offset + 5]]) as usize;
        headers.push((offset, len, wal[offset + 6]));
        offset += 7 + len;
    }
    println!("{} fragments, types {:?}", headers.len(), headers.iter().map(|h| h.2).collect::<Vec<_>>());

    let mut all_keys: Vec<Vec<u8>> = (0..20).map(|i| format!("k{i:02}").into_bytes()).collect();
    all_keys.extend(records.iter().map(|r| r.marker.clone()));
    let extra: Vec<Record> = (0..3usize)
        .map(|i| Record {
            marker: format!("n{i:04}").into_bytes(),
            ops: vec![(format!("k{:02}", i * 5).into_bytes(), Some(format!("late-{i}").into_bytes()))],
        })
        .collect();
    let mut all_keys2 = all_keys.clone();
    all_keys2.extend(extra.iter().map(|r| r.marker.clone()));

    let mut offsets: Vec<(usize, Vec<u8>)> = vec![];
    for (start, len, _) in &headers {
        for byte in 0..7 {
            let original = wal[start + byte];
            let mut variants: Vec<u8> = (0..8).map(|bit| original ^ (1 << bit)).collect();
            variants.push(0);
            variants.push(0xff);
            if byte == 6 {
                variants.extend([0u8, 1, 2, 3]);
            }
            variants.retain(|v| *v != original);
            variants.dedup();
            offsets.push((start + byte, variants));
        }
        // a few payload bytes
        for probe in [0usize, 8, len / 2, len.saturating_sub(1)] {
            if probe < *len {
                let original = wal[start + 7 + probe];
                offsets.push((start + 7 + probe, vec![original ^ 0x10, 0]));
            }
        }
    }
    // trailer and last bytes
    let mut cases = 0;
    let mut outcomes: BTreeMap<String, usize> = BTreeMap::new();
    let mut flagged = vec![];
    let work = scratch_dir(&format!("{name}-work"));
    for (offset, variants) in offsets {
        for variant in variants {
            if wal[offset] == variant {
                continue;
            }
            cases += 1;
            copy_dir(&base, &work);
            let mut damaged = wal.clone();
            damaged[offset] = variant;
            fs::write(work.join("wal").join(&wal_name), &damaged).unwrap();

            let outcome = std::panic::catch_unwind(|| -> Result<String, String> {
                let db = match DB::open(options(&work, reuse)) {
                    Ok(db) => db,
                    Err(err) => return Ok(format!("open error: {}", &err.to_string()[..20.min(err.to_string().len())])),
                };
                let state = read_state(&db, &all_keys).map_err(|e| format!("unexpected read error {e}"))?;
                let survivors: Vec<bool> = records
                    .iter()
                    .map(|r| state.get(&r.marker).cloned().unwrap_or(None).is_some())
                    .collect();
                let expected = expected_from(&records, &survivors);
                let diffs = compare(&expected, &state, &all_keys);
                if !diffs.is_empty() {
                    return Err(format!("state is not a subset replay: {:?}", &diffs[..diffs.len().min(4)]));
                }
                let lost = survivors.iter().filter(|s| !**s).count();
                // Scans
                for forward in [true, false] {
                    let scanned = scan_state(&db, forward).map_err(|e| format!("unexpected scan error {e}"))?;
                    let want: Vec<(Vec<u8>, Vec<u8>)> = expected
                        .iter()
                        .filter_map(|(k, v)| v.clone().map(|v| (k.clone(), v)))
                        .collect();
                    if scanned != want {
                        return Err(format!("scan (forward {forward}) differs: {} vs {} entries", scanned.len(), want.len()));
                    }
                }
                // Phase 2: more writes, reopen
                for record in &extra {
                    apply_record(&db, record);
                }
                drop(db);
                let db = DB::open(options(&work, reuse)).map_err(|e| format!("second open failed {e}"))?;
                let state2 = read_state(&db, &all_keys2).map_err(|e| format!("unexpected read error 2 {e}"))?;
                let mut all_records = records.clone();
                all_records.extend(extra.clone());
                let mut survivors2 = survivors.clone();
                survivors2.extend([true, true, true]);
                let expected2 = expected_from(&all_records, &survivors2);
                let diffs = compare(&expected2, &state2, &all_keys2);
                if !diffs.is_empty() {
                    return Err(format!("after second open: {:?}", &diffs[..diffs.len().min(4)]));
                }
                Ok(format!("ok, {} records lost", if lost == 0 { "no" } else if lost == 1 { "1" } else { "several" }))
            });
            match outcome {
                Ok(Ok(kind)) => *outcomes.entry(kind).or_default() += 1,
                Ok(Err(problem)) => {
                    flagged.push(format!("offset {offset} (in-block {}) byte {:#04x}->{:#04x}: {problem}", offset % 32768, wal[offset], variant));
                }
                Err(_) => {
                    *outcomes.entry("panic".to_string()).or_default() += 1;
                    flagged.push(format!("offset {offset} byte {:#04x}->{:#04x}: PANIC", wal[offset], variant));
                }
            }
        }
    }
    println!("{cases} cases; outcomes {outcomes:#?}");
    println!("{} flagged", flagged.len());
    for line in &flagged {
        println!("  {line}");
    }
}

#[test]
#[ignore]
fn sweep_multi_block_wal_reuse() {
    wal_sweep(true);
}

#[test]
#[ignore]
fn sweep_multi_block_wal_noreuse() {
    wal_sweep(false);
}

// ---------------------------------------------------------------------------------------------
// Sweep of table files of a multi level database, with a manual compaction after the damage
// ---------------------------------------------------------------------------------------------

fn small_options(dir: &Path) -> DbOptions {
    DbOptions {
        db_path: dir.to_str().unwrap().to_string(),
        create_if_missing: true,
        reuse_log_files: true,
        max_block_size: 512,
        max_file_size: 8 * 1024,
        max_memtable_size: 24 * 1024,
        ..DbOptions::default()
    }
}

fn strict_check(db: &DB, model: &Model, keys: &[Vec<u8>]) -> Result<(usize, usize), String> {
    let (mut ok, mut errors) = (0, 0);
    for user_key in keys {
        let want = model.get(user_key).cloned().unwrap_or(None);
        match db.get(ReadOptions::default(), user_key) {
            Ok(value) => {
                if Some(&value) != want.as_ref() {
                    return Err(format!(
                        "get({}) = {} but the model says {}",
                        String::from_utf8_lossy(user_key),
                        short(&Some(value)),
                        short(&want)
                    ));
                }
                ok += 1;
            }
            Err(RainDBError::KeyNotFound) => {
                if want.is_some() {
                    return Err(format!(
                        "get({}) = not found but the model says {}",
                        String::from_utf8_lossy(user_key),
                        short(&want)
                    ));
                }
                ok += 1;
            }
            Err(_) => errors += 1,
        }
    }
    let want: Vec<(Vec<u8>, Vec<u8>)> = model
        .iter()
        .filter_map(|(k, v)| v.clone().map(|v| (k.clone(), v)))
        .collect();
    for forward in [true, false] {
        match scan_state(db, forward) {
            Ok(scanned) => {
                if scanned != want {
                    return Err(format!(
                        "clean scan (forward {forward}) yields {} entries, model has {}",
                        scanned.len(),
                        want.len()
                    ));
                }
                ok += 1;
            }
            Err(_) => errors += 1,
        }
    }
    Ok((ok, errors))
}

#[test]
#[ignore]
fn sweep_tables_with_compaction() {
    let base = scratch_dir("tablesweep-base");
    let mut model = Model::new();
    let keys: Vec<Vec<u8>> = (0..500).map(|i| format!("key{i:05}").into_bytes()).collect();
    {
        let db = DB::open(small_options(&base)).unwrap();
        for generation in 0..4usize {
            for (i, user_key) in keys.iter().enumerate() {
                if (i + generation) % 3 == 0 && generation > 0 {
                    continue;
                }
                if (i * 7 + generation) % 13 == 0 {
                    db.delete(WriteOptions::default(), user_key.clone()).unwrap();
                    model.insert(user_key.clone(), None);
                } else {
                    let mut value = noise((generation * 1000 + i) as u64, 30 + (i % 50));
                    let tag = format!("g{generation}-{i:05}-");
                    value[..tag.len()].copy_from_slice(tag.as_bytes());
                    db.put(WriteOptions::default(), user_key.clone(), value.clone()).unwrap();
                    model.insert(user_key.clone(), Some(value));
                }
            }
        }
        println!("{}", db.get_descriptor(raindb::db::DatabaseDescriptor::SSTables).unwrap_or_default());
    }
    let tables = table_files(&base);
    println!("tables {:?}", tables.iter().map(|(n, p)| (*n, fs::metadata(p).unwrap().len())).collect::<Vec<_>>());
    {
        let db = DB::open(small_options(&base)).unwrap();
        let (ok, errors) = strict_check(&db, &model, &keys).unwrap();
        println!("intact: ok {ok} errors {errors}");
        assert_eq!(errors, 0);
    }
    let tables = table_files(&base);
    println!("tables after reopen {:?}", tables.iter().map(|(n, p)| (*n, fs::metadata(p).unwrap().len())).collect::<Vec<_>>());

    let work = scratch_dir("tablesweep-work");
    let mut outcomes: BTreeMap<String, usize> = BTreeMap::new();
    let mut flagged = vec![];
    let mut cases = 0;
    for (number, path) in &tables {
        let bytes = fs::read(path).unwrap();
        let step: usize = std::env::var("SWEEP_STEP").ok().and_then(|s| s.parse().ok()).unwrap_or(61);
        let mut offsets: Vec<usize> = (0..bytes.len()).step_by(step).collect();
        offsets.extend(bytes.len().saturating_sub(60)..bytes.len());
        for offset in offsets {
            for variant in [bytes[offset] ^ 0x04, 0u8] {
                if variant == bytes[offset] {
                    continue;
                }
                cases += 1;
                copy_dir(&base, &work);
                let mut damaged = bytes.clone();
                damaged[offset] = variant;
                fs::write(work.join("data").join(path.file_name().unwrap()), &damaged).unwrap();
                let result = std::panic::catch_unwind(|| -> Result<String, String> {
                    let db = match DB::open(small_options(&work)) {
                        Ok(db) => db,
                        Err(_) => return Ok("open error".to_string()),
                    };
                    let (_, errors1) = strict_check(&db, &model, &keys).map_err(|e| format!("before compaction: {e}"))?;
                    db.compact_range(None..None);
                    let (_, errors2) = strict_check(&db, &model, &keys).map_err(|e| format!("after compaction: {e}"))?;
                    drop(db);
                    let db = match DB::open(small_options(&work)) {
                        Ok(db) => db,
                        Err(_) => return Ok(format!("errors {} / {} then second open error", errors1 > 0, errors2 > 0)),
                    };
                    let (_, errors3) = strict_check(&db, &model, &keys).map_err(|e| format!("after second open: {e}"))?;
                    Ok(format!("errors before {} after compaction {} after reopen {}", errors1 > 0, errors2 > 0, errors3 > 0))
                });
                match result {
                    Ok(Ok(kind)) => *outcomes.entry(format!("table {number}: {kind}")).or_default() += 1,
                    Ok(Err(problem)) => flagged.push(format!("table {number} offset {offset}/{} {:#04x}->{:#04x}: {problem}", bytes.len(), bytes[offset], variant)),
                    Err(_) => flagged.push(format!("table {number} offset {offset}: PANIC")),
                }
            }
        }
    }
    println!("{cases} cases; outcomes {outcomes:#?}");
    println!("{} flagged", flagged.len());
    for line in &flagged {
        println!("  {line}");
    }
}

#[test]
#[ignore]
fn recheck_previous_defect_1_and_3() {
    // D1: interior manifest record whose length runs past the end of the file
    let dir = scratch_dir("recheck-d1");
    {
        let db = DB::open(options(&dir, true)).unwrap();
        for generation in 0..3 {
            for i in 0..10 {
                db.put(WriteOptions::default(), key(i), format!("generation{generation}-{i}").into_bytes()).unwrap();
            }
            db.compact_range(None..None);
        }
    }
    let manifest = fs::read_dir(&dir).unwrap().map(|e| e.unwrap().path()).find(|p| p.extension().map(|e| e == "manifest").unwrap_or(false)).unwrap();
    let bytes = fs::read(&manifest).unwrap();
    let mut headers = vec![];
    let mut offset = 0;
    while offset + 7 <= bytes.len() {
        let len = u16::from_le_bytes([bytes[offset + 4], bytes[offset + 5]]) as usize;
        headers.push((offset, len));
        offset += 7 + len;
    }
    println!("manifest {:?} {} bytes, records {:?}", manifest.file_name().unwrap(), bytes.len(), headers);
    if headers.len() >= 3 {
        let mut damaged = bytes.clone();
        damaged[headers[1].0 + 5] ^= 0x80;
        fs::write(&manifest, &damaged).unwrap();
        match DB::open(options(&dir, true)) {
            Err(err) => println!("D1: open error {err}"),
            Ok(db) => {
                for i in 0..3 {
                    println!("D1: get(key{i}) = {:?}", db.get(ReadOptions::default(), &key(i)).map(|v| String::from_utf8_lossy(&v).to_string()));
                }
            }
        }
    }
}

fn varint(mut n: usize) -> Vec<u8> {
    let mut out = vec![];
    while n >= 0x80 {
        out.push((n as u8 & 0x7f) | 0x80);
        n >>= 7;
    }
    out.push(n as u8);
    out
}

#[test]
#[ignore]
fn recheck_d3_exact_fragment() {
    let dir = scratch_dir("recheck-d3");
    let blob_len = 40_000usize;
    {
        let db = DB::open(options(&dir, true)).unwrap();
        db.put(WriteOptions::default(), b"victim".to_vec(), b"genuine".to_vec()).unwrap();
        // Where does the last fragment of the next record start?
        let first_record = 7 + 8 + 1 + 1 + 1 + 6 + 1 + 7;
        let first_fragment_payload = 32768 - first_record - 7;
        let header = 8 + 1 + 1 + 1 + 4 + varint(blob_len).len();
        let tail_start = first_fragment_payload - header;
        let tail_len = blob_len - tail_start;
        let forged_value_len = tail_len - (8 + 1 + 1 + 1 + 6 + 2);
        let mut forged = vec![];
        forged.extend((1u64 << 40).to_le_bytes());
        forged.push(1);
        forged.push(1);
        forged.push(6);
        forged.extend(b"victim");
        forged.extend(varint(forged_value_len));
        let mut forged_value = vec![b'!'; forged_value_len];
        forged_value[..7].copy_from_slice(b"FORGED!");
        forged.extend(forged_value);
        assert_eq!(forged.len(), tail_len);
        let mut blob = noise(5, blob_len);
        blob[tail_start..].copy_from_slice(&forged);
        db.put(WriteOptions::default(), b"blob".to_vec(), blob).unwrap();
        db.put(WriteOptions::default(), b"zebra".to_vec(), b"stripes".to_vec()).unwrap();
    }
    let wal = fs::read_dir(dir.join("wal")).unwrap().next().unwrap().unwrap().path();
    let mut bytes = fs::read(&wal).unwrap();
    println!("type byte of the fragment at 32768: {}", bytes[32768 + 6]);
    bytes[32768 + 6] = 0;
    fs::write(&wal, &bytes).unwrap();
    match DB::open(options(&dir, true)) {
        Err(err) => println!("open error {err}"),
        Ok(db) => {
            for k in ["victim", "blob", "zebra"] {
                println!("get({k}) = {:?}", db.get(ReadOptions::default(), k.as_bytes()).map(|v| String::from_utf8_lossy(&v[..v.len().min(10)]).to_string()));
            }
        }
    }
}

#[test]
#[ignore]
fn exhaustive_truncation_of_small_tables() {
    let base = scratch_dir("truncsweep-base");
    let mut model = Model::new();
    let keys: Vec<Vec<u8>> = (0..40).map(|i| format!("key{i:05}").into_bytes()).collect();
    {
        let db = DB::open(small_options(&base)).unwrap();
        for generation in 0..3usize {
            for (i, user_key) in keys.iter().enumerate() {
                if (i + generation) % 3 == 0 {
                    continue;
                }
                if (i * 7 + generation) % 5 == 0 {
                    db.delete(WriteOptions::default(), user_key.clone()).unwrap();
                    model.insert(user_key.clone(), None);
                } else {
                    let value = format!("g{generation}-{i:05}-{}", "v".repeat(i % 30)).into_bytes();
                    db.put(WriteOptions::default(), user_key.clone(), value.clone()).unwrap();
                    model.insert(user_key.clone(), Some(value));
                }
            }
            db.compact_range(Some(b"zzz".as_slice())..None); // only flushes the memtable
        }
    }
    let tables = table_files(&base);
    println!("tables {:?}", tables.iter().map(|(n, p)| (*n, fs::metadata(p).unwrap().len())).collect::<Vec<_>>());
    let work = scratch_dir("truncsweep-work");
    let mut outcomes: BTreeMap<String, usize> = BTreeMap::new();
    let mut flagged = vec![];
    for (number, path) in &tables {
        let bytes = fs::read(path).unwrap();
        for length in 0..bytes.len() {
            copy_dir(&base, &work);
            fs::write(work.join("data").join(path.file_name().unwrap()), &bytes[..length]).unwrap();
            let result = std::panic::catch_unwind(|| -> Result<String, String> {
                let db = match DB::open(small_options(&work)) {
                    Ok(db) => db,
                    Err(_) => return Ok("open error".to_string()),
                };
                let (_, errors) = strict_check(&db, &model, &keys)?;
                Ok(format!("errors {}", errors > 0))
            });
            match result {
                Ok(Ok(kind)) => *outcomes.entry(format!("table {number}: {kind}")).or_default() += 1,
                Ok(Err(problem)) => flagged.push(format!("table {number} length {length}/{}: {problem}", bytes.len())),
                Err(_) => flagged.push(format!("table {number} length {length}: PANIC")),
            }
        }
    }
    println!("outcomes {outcomes:#?}");
    println!("{} flagged", flagged.len());
    for line in &flagged {
        println!("  {line}");
    }
}
