//! Second audit of the property "Corrupted files are detected, never served as data".
//!
//! Run with `cargo test --offline --test audit_demo`. Public API only, real file system (scratch
//! directories under `target/audit2-demo-tmp/`), no threads, no timing.
//!
//! * `truncated_table_that_ends_in_the_encoding_of_sequence_1646_is_detected` — NEW defect: a
//!   truncated table file is accepted as a complete table and hides most of its entries.
//! * `wal_fragment_with_zeroed_type_byte_is_not_replayed_as_a_record_of_its_own` — the root cause
//!   of defect 3 of the first audit (record type not covered by the checksum) is still open; the
//!   "left-over bytes" check added to `Batch::try_from` only stops fragments of the wrong length.
//! * `manifest_interior_record_with_damaged_length_is_detected` — defect 1 of the first audit is
//!   still present in this checkout (carried over, compact re-demonstration).
//!
//! Every test fails if and only if the database returns, without any error, something that the
//! property forbids; violated harness preconditions are reported as "HARNESS PRECONDITION".

use std::collections::BTreeMap;
use std::fs;
use std::path::{Path, PathBuf};

use crc::{Crc, CRC_32_ISCSI};
use raindb::{DbOptions, RainDBError, ReadOptions, WriteOptions, DB};

type Model = BTreeMap<Vec<u8>, Option<Vec<u8>>>;

const CRC32C: Crc<u32> = Crc::<u32>::new(&CRC_32_ISCSI);

/// The 8 bytes that end every table file (non-strict build): 1646 as a fixed 64-bit integer.
const TABLE_MAGIC: [u8; 8] = [0x6e, 0x06, 0, 0, 0, 0, 0, 0];

fn unmask(masked: u32) -> u32 {
    let rotated = masked.wrapping_sub(0xa282ead8);
    (rotated >> 17) | (rotated << 15)
}

fn scratch_dir(name: &str) -> PathBuf {
    let mut dir = PathBuf::from(env!("CARGO_MANIFEST_DIR"));
    dir.push("target");
    dir.push("audit2-demo-tmp");
    dir.push(name);
    let _ = fs::remove_dir_all(&dir);
    fs::create_dir_all(&dir).unwrap();
    dir
}

fn options(dir: &Path, reuse_log_files: bool) -> DbOptions {
    DbOptions {
        db_path: dir.to_str().unwrap().to_string(),
        create_if_missing: true,
        reuse_log_files,
        ..DbOptions::default()
    }
}

/// Deterministic, incompressible bytes.
fn noise(seed: u64, len: usize) -> Vec<u8> {
    let mut state = seed.wrapping_mul(0x9E3779B97F4A7C15) | 1;
    (0..len)
        .map(|_| {
            state ^= state << 13;
            state ^= state >> 7;
            state ^= state << 17;
            (state >> 24) as u8
        })
        .collect()
}

fn varint(mut number: usize) -> Vec<u8> {
    let mut out = vec![];
    while number >= 0x80 {
        out.push((number as u8 & 0x7f) | 0x80);
        number >>= 7;
    }
    out.push(number as u8);
    out
}

fn key(idx: usize) -> Vec<u8> {
    format!("key{idx:04}").into_bytes()
}

fn show(value: &Option<Vec<u8>>) -> String {
    match value {
        None => "<not found>".to_string(),
        Some(value) => format!(
            "{:?} ({} bytes)",
            String::from_utf8_lossy(&value[..value.len().min(13)]),
            value.len()
        ),
    }
}

fn newest_table(dir: &Path) -> PathBuf {
    let mut files: Vec<(u64, PathBuf)> = fs::read_dir(dir.join("data"))
        .unwrap()
        .map(|entry| entry.unwrap().path())
        .filter(|path| path.extension().map(|ext| ext == "rdb").unwrap_or(false))
        .map(|path| {
            let number = path.file_stem().unwrap().to_str().unwrap().parse::<u64>().unwrap();
            (number, path)
        })
        .collect();
    files.sort();
    files.pop().expect("HARNESS PRECONDITION: no table file").1
}

/// get() of every key of the model: (number of correct answers, number of errors, wrong answers)
fn read_all(db: &DB, model: &Model) -> (usize, usize, Vec<String>) {
    let (mut correct, mut errors, mut wrong) = (0, 0, vec![]);
    for (user_key, expected) in model {
        let observed = match db.get(ReadOptions::default(), user_key) {
            Ok(value) => Some(value),
            Err(RainDBError::KeyNotFound) => None,
            Err(_) => {
                errors += 1;
                continue;
            }
        };
        if &observed == expected {
            correct += 1;
        } else {
            wrong.push(format!(
                "get({}) = {} without any error, the last write to that key was {}",
                String::from_utf8_lossy(user_key),
                show(&observed),
                show(expected)
            ));
        }
    }
    (correct, errors, wrong)
}

// =================================================================================================
// NEW: truncated table file accepted as a complete table
// =================================================================================================

const NUM_KEYS: usize = 300;
const VALUE_LEN: usize = 200;
/// Index of the key whose value holds the six prepared bytes (the key written with sequence
/// number 1645, i.e. the entry in front of the one with sequence number 1646).
const PREPARED_KEY: usize = 45;

/**
Builds the database of the truncation test.

1. 1599 writes "old-…" over 300 keys (sequence numbers 1..=1599), pushed down with
   `compact_range` into a table below level 0.
2. A second generation over the same keys, in key order (sequence numbers 1600..=1899): 200 byte
   binary values starting with "new-", every tenth key above key0050 deleted instead.
3. Close and reopen (log reuse off): the second generation becomes one level 0 table file.

`prepared` = (offset in the value of `PREPARED_KEY`, bytes to put there).
*/
fn build_two_generations(dir: &Path, prepared: Option<(usize, Vec<u8>)>) -> Model {
    let mut model = Model::new();
    {
        let db = DB::open(options(dir, false)).unwrap();
        for write in 0..1599usize {
            let idx = write % NUM_KEYS;
            let value = format!("old-{idx:04}-{write}").into_bytes();
            db.put(WriteOptions::default(), key(idx), value.clone()).unwrap();
            model.insert(key(idx), Some(value));
        }
        db.compact_range(None..None);
    }
    {
        let db = DB::open(options(dir, false)).unwrap();
        for idx in 0..NUM_KEYS {
            if idx % 10 == 7 && idx > 50 {
                db.delete(WriteOptions::default(), key(idx)).unwrap();
                model.insert(key(idx), None);
                continue;
            }

            let mut value = noise(idx as u64 + 1, VALUE_LEN);
            value[..4].copy_from_slice(b"new-");
            if idx == PREPARED_KEY {
                if let Some((offset, bytes)) = prepared.as_ref() {
                    value[*offset..*offset + bytes.len()].copy_from_slice(bytes);
                }
            }
            db.put(WriteOptions::default(), key(idx), value.clone()).unwrap();
            model.insert(key(idx), Some(value));
        }
    }
    {
        // Recovery turns the WAL of the second generation into a level 0 table file
        let _db = DB::open(options(dir, false)).unwrap();
    }

    model
}

#[test]
fn truncated_table_that_ends_in_the_encoding_of_sequence_1646_is_detected() {
    // ---- Pass 1: learn the layout of the table of the second generation ------------------------
    let layout_dir = scratch_dir("truncation-layout");
    build_two_generations(&layout_dir, None);
    let layout = fs::read(newest_table(&layout_dir)).unwrap();

    // Stored size of data block 0: contents ‖ type byte ‖ masked crc32c(contents ‖ type byte)
    let block0_size = (1..layout.len() - 5)
        .find(|&size| {
            let stored = u32::from_le_bytes(layout[size + 1..size + 5].try_into().unwrap());
            CRC32C.checksum(&layout[..size + 1]) == unmask(stored)
        })
        .expect("HARNESS PRECONDITION: data block 0 not found");

    // The entry written with sequence number 1646: its internal key is serialized as
    // user key ‖ 6e 06 00 00 00 00 00 00 ‖ operation, i.e. it contains the table magic number.
    let lookalikes: Vec<usize> = (0..layout.len() - 48 - 8)
        .filter(|&at| layout[at..at + 8] == TABLE_MAGIC)
        .collect();
    assert_eq!(
        lookalikes.len(),
        1,
        "HARNESS PRECONDITION: expected exactly one entry with sequence number 1646 in the table"
    );
    let cut = lookalikes[0] + 8;
    // `Table::open` takes the last 48 bytes of the file for the footer
    let footer_start = cut - 48;
    let probe = noise(PREPARED_KEY as u64 + 1, VALUE_LEN);
    let prepared_value_start = (0..layout.len() - VALUE_LEN)
        .find(|&at| layout[at + 4..at + VALUE_LEN] == probe[4..])
        .expect("HARNESS PRECONDITION: the value in front of entry 1646 is not stored verbatim");
    assert!(
        footer_start >= prepared_value_start + 4
            && footer_start + 6 <= prepared_value_start + VALUE_LEN,
        "HARNESS PRECONDITION: the footer position is not inside the value of key0045"
    );

    // Six bytes: two block handles (offset 0, size of data block 0)
    let handle = [vec![0u8], varint(block0_size)].concat();
    let prepared = [handle.clone(), handle].concat();
    assert_eq!(prepared.len(), 6, "HARNESS PRECONDITION: block 0 size is not a 2 byte varint");

    // ---- Pass 2: the same database with those six bytes inside the value of key0045 ------------
    let dir = scratch_dir("truncation");
    let model = build_two_generations(&dir, Some((footer_start - prepared_value_start, prepared)));
    let table_path = newest_table(&dir);
    let table = fs::read(&table_path).unwrap();
    assert_eq!(table.len(), layout.len(), "HARNESS PRECONDITION: layout changed");
    assert_eq!(table[cut - 8..cut], TABLE_MAGIC, "HARNESS PRECONDITION: layout changed");
    {
        let db = DB::open(options(&dir, false)).unwrap();
        let (correct, errors, wrong) = read_all(&db, &model);
        assert!(
            errors == 0 && wrong.is_empty() && correct == NUM_KEYS,
            "HARNESS PRECONDITION: the intact database does not agree with the model: {wrong:?}"
        );
    }

    // ---- The fault: the table file loses its tail ---------------------------------------------
    fs::write(&table_path, &table[..cut]).unwrap();

    let db = match DB::open(options(&dir, false)) {
        // Acceptable: the truncation is detected when the database is opened
        Err(_) => return,
        Ok(db) => db,
    };
    let (correct, errors, wrong) = read_all(&db, &model);
    assert!(
        wrong.is_empty(),
        "Table file {:?} was truncated from {} to {} bytes (the remaining file ends with the \
        sequence number field of the entry key0046@1646). Required: every read that needs the \
        file fails with an error (or returns what was last written). Observed: DB::open \
        succeeded, {} reads correct, {} reads failed with an error and {} reads silently \
        returned an older state of the key (stale value, lost key or resurrected delete), e.g.\n  \
        {}",
        table_path.file_name().unwrap(),
        table.len(),
        cut,
        correct,
        errors,
        wrong.len(),
        wrong
            .iter()
            .filter(|line| line.contains("key0046") || line.contains("key0057") || line.contains("key0299"))
            .chain(wrong.iter().take(2))
            .cloned()
            .collect::<Vec<_>>()
            .join("\n  ")
    );
}

// =================================================================================================
// Residual of defect 3 of the first audit: the record type is still not covered by the checksum
// =================================================================================================

#[test]
fn wal_fragment_with_zeroed_type_byte_is_not_replayed_as_a_record_of_its_own() {
    let dir = scratch_dir("wal-fragment-type");
    let blob_len = 40_000usize;
    {
        let db = DB::open(options(&dir, true)).unwrap();
        db.put(WriteOptions::default(), b"victim".to_vec(), b"genuine".to_vec())
            .unwrap();

        // Record 1 occupies 7 + (8 + 1 + 1 + 1 + 6 + 1 + 7) bytes. The record of "blob" is split
        // into a First fragment (up to the end of the first 32 KiB block) and a Last fragment.
        let first_record_len = 7 + 8 + 1 + 1 + 1 + 6 + 1 + 7;
        let first_fragment_payload = 32768 - first_record_len - 7;
        let batch_header_len = 8 + 1 + 1 + 1 + 4 + varint(blob_len).len();
        let tail_start = first_fragment_payload - batch_header_len;
        let tail_len = blob_len - tail_start;

        // The last `tail_len` bytes of the value are the image of a batch of their own
        let forged_value_len = tail_len - (8 + 1 + 1 + 1 + 6 + 2);
        let mut forged: Vec<u8> = vec![];
        forged.extend((1u64 << 40).to_le_bytes());
        forged.push(1);
        forged.push(1);
        forged.push(6);
        forged.extend(b"victim");
        forged.extend(varint(forged_value_len));
        let mut forged_value = vec![b'!'; forged_value_len];
        forged_value[..7].copy_from_slice(b"FORGED!");
        forged.extend(forged_value);
        assert_eq!(forged.len(), tail_len, "HARNESS PRECONDITION");

        let mut blob = noise(5, blob_len);
        blob[tail_start..].copy_from_slice(&forged);
        db.put(WriteOptions::default(), b"blob".to_vec(), blob).unwrap();
        db.put(WriteOptions::default(), b"zebra".to_vec(), b"stripes".to_vec())
            .unwrap();
    }

    let wal_path = fs::read_dir(dir.join("wal")).unwrap().next().unwrap().unwrap().path();
    let mut wal = fs::read(&wal_path).unwrap();
    assert_eq!(wal[32768 + 6], 3, "HARNESS PRECONDITION: no Last fragment at 32768");
    // The fault: the type byte of the Last fragment is zeroed (Last = 3 -> Full = 0)
    wal[32768 + 6] = 0;
    fs::write(&wal_path, &wal).unwrap();

    let db = match DB::open(options(&dir, true)) {
        Err(_) => return,
        Ok(db) => db,
    };
    match db.get(ReadOptions::default(), b"victim") {
        Ok(value) => assert!(
            value == b"genuine",
            "One byte of the WAL (the type of a fragment) was zeroed. Required: the damaged \
            record is skipped or the open fails; get(\"victim\") is \"genuine\" (the only value \
            ever written for it) or an error. Observed: get(\"victim\") = {:?} ({} bytes), i.e. \
            bytes of the value of key \"blob\" were replayed as a write to \"victim\".",
            String::from_utf8_lossy(&value[..value.len().min(12)]),
            value.len()
        ),
        Err(RainDBError::KeyNotFound) => {}
        Err(_) => {}
    }
}

// =================================================================================================
// Defect 1 of the first audit is still present
// =================================================================================================

#[test]
fn manifest_interior_record_with_damaged_length_is_detected() {
    let dir = scratch_dir("manifest-length");
    let mut model = Model::new();
    {
        let db = DB::open(options(&dir, true)).unwrap();
        for generation in 0..3 {
            for idx in 0..10 {
                let value = format!("generation{generation}-{idx}").into_bytes();
                db.put(WriteOptions::default(), key(idx), value.clone()).unwrap();
                model.insert(key(idx), Some(value));
            }
            // Flush + compaction: appends records to the manifest
            db.compact_range(None..None);
        }
    }

    let manifest_path = fs::read_dir(&dir)
        .unwrap()
        .map(|entry| entry.unwrap().path())
        .find(|path| path.extension().map(|ext| ext == "manifest").unwrap_or(false))
        .unwrap();
    let mut manifest = fs::read(&manifest_path).unwrap();
    let mut records = vec![];
    let mut offset = 0;
    while offset + 7 <= manifest.len() {
        let length = u16::from_le_bytes([manifest[offset + 4], manifest[offset + 5]]) as usize;
        records.push(offset);
        offset += 7 + length;
    }
    assert!(records.len() >= 4, "HARNESS PRECONDITION: manifest has {} records", records.len());

    // The fault: one bit of the length field of the second record (an interior record: valid,
    // checksummed records follow it)
    manifest[records[1] + 5] ^= 0x80;
    fs::write(&manifest_path, &manifest).unwrap();

    let db = match DB::open(options(&dir, true)) {
        Err(_) => return,
        Ok(db) => db,
    };
    let (correct, errors, wrong) = read_all(&db, &model);
    assert!(
        wrong.is_empty(),
        "One bit of the length field of manifest record #1 of {} was flipped. Required: DB::open \
        fails (or everything read is correct). Observed: DB::open succeeded, {} reads correct, \
        {} errors, {} silently wrong, e.g. {}",
        records.len(),
        correct,
        errors,
        wrong.len(),
        wrong[0]
    );
}
