//! Audit of the property "Log files return exactly the records appended, for every size and
//! reopen point" (C12).
//!
//! Run with `cargo test --offline --features verif --release --test audit_demo` (the debug profile
//! works too, it takes about three minutes because of the CRC computations).
//!
//! Every test FAILS iff the log reader returns something else than the sequence of complete
//! records that were appended (a missing record, an extra record, damaged bytes, a wrong order,
//! an error, or a missing end-of-file indication).

#![cfg(feature = "verif")]

use std::collections::HashMap;
use std::io::{self, Read, Seek, SeekFrom, Write};
use std::path::{Path, PathBuf};
use std::sync::atomic::{AtomicI64, Ordering};
use std::sync::{Arc, Mutex};

use raindb::fs::{
    FileLock, FileSystem, InMemoryFileSystem, OsFileSystem, RandomAccessFile,
    ReadonlyRandomAccessFile,
};
use raindb::verif::log::{Reader, Writer};
use raindb::verif::UnlockableFile;

const B: usize = 32 * 1024;
const H: usize = 7;

// ---------------------------------------------------------------------------------------------
// A small in-memory file system with POSIX semantics: every handle has its own cursor, handles
// opened for appending always write at the end of the file. It can make the writer "die" after a
// number of flushes (the log writer flushes exactly once per fragment).
// ---------------------------------------------------------------------------------------------

type Contents = Arc<Mutex<Vec<u8>>>;

struct MemFs {
    files: Mutex<HashMap<PathBuf, Contents>>,
    /// Number of flushes that are still allowed. Writes fail once this is zero or less.
    flush_budget: Arc<AtomicI64>,
}

impl MemFs {
    fn new() -> Arc<Self> {
        Arc::new(MemFs {
            files: Mutex::new(HashMap::new()),
            flush_budget: Arc::new(AtomicI64::new(i64::MAX)),
        })
    }

    fn get(&self, path: &Path) -> Vec<u8> {
        self.files.lock().unwrap()[path].lock().unwrap().clone()
    }

    fn put(&self, path: &Path, bytes: &[u8]) {
        self.files
            .lock()
            .unwrap()
            .insert(path.to_path_buf(), Arc::new(Mutex::new(bytes.to_vec())));
    }

    fn set_flush_budget(&self, budget: i64) {
        self.flush_budget.store(budget, Ordering::SeqCst);
    }
}

struct MemHandle {
    contents: Contents,
    cursor: u64,
    append: bool,
    flush_budget: Arc<AtomicI64>,
}

impl Read for MemHandle {
    fn read(&mut self, buf: &mut [u8]) -> io::Result<usize> {
        let contents = self.contents.lock().unwrap();
        let start = (self.cursor as usize).min(contents.len());
        let n = buf.len().min(contents.len() - start);
        buf[..n].copy_from_slice(&contents[start..start + n]);
        self.cursor += n as u64;
        Ok(n)
    }
}

impl Seek for MemHandle {
    fn seek(&mut self, pos: SeekFrom) -> io::Result<u64> {
        let len = self.contents.lock().unwrap().len() as i64;
        let target = match pos {
            SeekFrom::Start(off) => off as i64,
            SeekFrom::Current(off) => self.cursor as i64 + off,
            SeekFrom::End(off) => len + off,
        };
        if target < 0 {
            return Err(io::Error::new(io::ErrorKind::InvalidInput, "negative seek"));
        }
        self.cursor = target as u64;
        Ok(self.cursor)
    }
}

impl Write for MemHandle {
    fn write(&mut self, buf: &[u8]) -> io::Result<usize> {
        if self.flush_budget.load(Ordering::SeqCst) <= 0 {
            return Err(io::Error::new(
                io::ErrorKind::Other,
                "injected: the writer died",
            ));
        }
        let mut contents = self.contents.lock().unwrap();
        if self.append {
            self.cursor = contents.len() as u64;
        }
        let start = self.cursor as usize;
        if contents.len() < start + buf.len() {
            contents.resize(start + buf.len(), 0);
        }
        contents[start..start + buf.len()].copy_from_slice(buf);
        self.cursor += buf.len() as u64;
        Ok(buf.len())
    }

    fn flush(&mut self) -> io::Result<()> {
        self.flush_budget.fetch_sub(1, Ordering::SeqCst);
        Ok(())
    }
}

impl ReadonlyRandomAccessFile for MemHandle {
    fn read_from(&self, buf: &mut [u8], offset: usize) -> io::Result<usize> {
        let contents = self.contents.lock().unwrap();
        let start = offset.min(contents.len());
        let n = buf.len().min(contents.len() - start);
        buf[..n].copy_from_slice(&contents[start..start + n]);
        Ok(n)
    }

    fn len(&self) -> io::Result<u64> {
        Ok(self.contents.lock().unwrap().len() as u64)
    }
}

impl RandomAccessFile for MemHandle {
    fn append(&mut self, buf: &[u8]) -> io::Result<usize> {
        let mut contents = self.contents.lock().unwrap();
        contents.extend_from_slice(buf);
        self.cursor = contents.len() as u64;
        Ok(buf.len())
    }
}

struct NoLock;
impl UnlockableFile for NoLock {
    fn unlock(&self) -> io::Result<()> {
        Ok(())
    }
}

impl FileSystem for MemFs {
    fn get_name(&self) -> String {
        "AuditMemFs".to_owned()
    }
    fn create_dir(&self, _path: &Path) -> io::Result<()> {
        Ok(())
    }
    fn create_dir_all(&self, _path: &Path) -> io::Result<()> {
        Ok(())
    }
    fn list_dir(&self, path: &Path) -> io::Result<Vec<PathBuf>> {
        // Files directly under `path` and the directories (implied by deeper files) under it
        let mut v: Vec<PathBuf> = vec![];
        for key in self.files.lock().unwrap().keys() {
            if let Ok(rest) = key.strip_prefix(path) {
                if let Some(first) = rest.components().next() {
                    let child = path.join(first);
                    if !v.contains(&child) {
                        v.push(child);
                    }
                }
            }
        }
        v.sort();
        Ok(v)
    }
    fn open_file(&self, path: &Path) -> io::Result<Box<dyn ReadonlyRandomAccessFile>> {
        match self.files.lock().unwrap().get(path) {
            Some(contents) => Ok(Box::new(MemHandle {
                contents: Arc::clone(contents),
                cursor: 0,
                append: false,
                flush_budget: Arc::new(AtomicI64::new(i64::MAX)),
            })),
            None => Err(io::Error::new(io::ErrorKind::NotFound, "no such file")),
        }
    }
    fn rename(&self, from: &Path, to: &Path) -> io::Result<()> {
        let mut files = self.files.lock().unwrap();
        match files.remove(from) {
            Some(f) => {
                files.insert(to.to_path_buf(), f);
                Ok(())
            }
            None => Err(io::Error::new(io::ErrorKind::NotFound, "no such file")),
        }
    }
    fn create_file(&self, path: &Path, append: bool) -> io::Result<Box<dyn RandomAccessFile>> {
        let mut files = self.files.lock().unwrap();
        let contents = files
            .entry(path.to_path_buf())
            .or_insert_with(|| Arc::new(Mutex::new(vec![])));
        if !append {
            contents.lock().unwrap().clear();
        }
        let cursor = contents.lock().unwrap().len() as u64;
        Ok(Box::new(MemHandle {
            contents: Arc::clone(contents),
            cursor,
            append,
            flush_budget: Arc::clone(&self.flush_budget),
        }))
    }
    fn remove_file(&self, path: &Path) -> io::Result<()> {
        match self.files.lock().unwrap().remove(path) {
            Some(_) => Ok(()),
            None => Err(io::Error::new(io::ErrorKind::NotFound, "no such file")),
        }
    }
    fn remove_dir(&self, _path: &Path) -> io::Result<()> {
        Ok(())
    }
    fn remove_dir_all(&self, path: &Path) -> io::Result<()> {
        self.files
            .lock()
            .unwrap()
            .retain(|k, _| !k.starts_with(path));
        Ok(())
    }
    fn get_file_size(&self, path: &Path) -> io::Result<u64> {
        match self.files.lock().unwrap().get(path) {
            Some(contents) => Ok(contents.lock().unwrap().len() as u64),
            None => Err(io::Error::new(io::ErrorKind::NotFound, "no such file")),
        }
    }
    fn is_dir(&self, path: &Path) -> io::Result<bool> {
        Ok(self
            .files
            .lock()
            .unwrap()
            .keys()
            .any(|k| k != path && k.starts_with(path)))
    }
    fn lock_file(&self, _path: &Path) -> io::Result<FileLock> {
        Ok(FileLock::new(Box::new(NoLock)))
    }
}

// ---------------------------------------------------------------------------------------------
// Reference model of the format (positions only) and helpers
// ---------------------------------------------------------------------------------------------

/// The bytes of record number `index` with length `len`. Different records have different bytes
/// at every position (with overwhelming probability) so that mixed-up fragments are detected.
fn payload(index: usize, len: usize) -> Vec<u8> {
    let mut state: u64 = 0x9E37_79B9_7F4A_7C15u64
        .wrapping_mul(index as u64 + 1)
        .wrapping_add(len as u64);
    let mut out = Vec::with_capacity(len + 8);
    while out.len() < len {
        state ^= state << 13;
        state ^= state >> 7;
        state ^= state << 17;
        out.extend_from_slice(&state.to_le_bytes());
    }
    out.truncate(len);
    out
}

/// Where the fragments of a record of length `len` end if the record is appended at file
/// position `pos` (LevelDB log format: 7 byte headers, 32 KiB blocks, zero trailers below 7
/// bytes). The last element is the position at which the record is complete.
fn fragment_ends(mut pos: usize, len: usize) -> Vec<usize> {
    let mut ends = vec![];
    let mut left = len;
    loop {
        let avail = B - pos % B;
        if avail < H {
            pos += avail;
        }
        let space = B - pos % B - H;
        let chunk = left.min(space);
        pos += H + chunk;
        left -= chunk;
        ends.push(pos);
        if left == 0 {
            return ends;
        }
    }
}

/// Read the whole log. Returns the records or a description of what went wrong.
fn read_all(fs: Arc<dyn FileSystem>, path: &Path) -> Result<Vec<Vec<u8>>, String> {
    let mut reader = Reader::new(fs, path).map_err(|e| format!("cannot open the reader: {e}"))?;
    let mut records = vec![];
    loop {
        match reader.read_record() {
            Ok((record, false)) => records.push(record),
            Ok((record, true)) => {
                if !record.is_empty() {
                    return Err(format!(
                        "end of file was signalled together with {} bytes of data",
                        record.len()
                    ));
                }
                break;
            }
            Err(e) => {
                return Err(format!(
                    "read_record failed after {} records: {e}",
                    records.len()
                ))
            }
        }
        if records.len() > 100_000 {
            return Err("the reader does not terminate".to_owned());
        }
    }
    // The end of the file must be stable
    for _ in 0..2 {
        match reader.read_record() {
            Ok((record, true)) if record.is_empty() => {}
            other => {
                return Err(format!(
                    "after the end of the file read_record returned {:?}",
                    other.map(|(r, eof)| (r.len(), eof))
                ))
            }
        }
    }
    Ok(records)
}

fn describe(records: &[Vec<u8>]) -> String {
    let lens: Vec<usize> = records.iter().map(|r| r.len()).collect();
    format!("{} records with lengths {:?}", records.len(), lens)
}

/// Compare what was read with what is required.
fn check(context: &str, got: Result<Vec<Vec<u8>>, String>, want: &[Vec<u8>]) -> Result<(), String> {
    match got {
        Err(e) => Err(format!(
            "{context}: the property requires {} but the reader failed: {e}",
            describe(want)
        )),
        Ok(got) => {
            if got.len() != want.len() || got.iter().zip(want).any(|(g, w)| g != w) {
                let first_diff = got
                    .iter()
                    .zip(want)
                    .position(|(g, w)| g != w)
                    .unwrap_or(got.len().min(want.len()));
                Err(format!(
                    "{context}: the property requires {} but the reader returned {} (first \
                     difference at record index {first_diff})",
                    describe(want),
                    describe(&got)
                ))
            } else {
                Ok(())
            }
        }
    }
}

/// Append `lens` (record `i` gets `payload(first_index + i, len)`); a new writer in append mode
/// is opened before the records whose index is in `reopen_before` (index relative to `lens`).
fn append_records(
    fs: &Arc<dyn FileSystem>,
    path: &Path,
    truncate_first: bool,
    first_index: usize,
    lens: &[usize],
    reopen_before: &dyn Fn(usize) -> bool,
) -> Vec<Vec<u8>> {
    let mut writer = Writer::new(Arc::clone(fs), path, !truncate_first).unwrap();
    let mut appended = vec![];
    for (i, len) in lens.iter().enumerate() {
        if i > 0 && reopen_before(i) {
            drop(writer);
            writer = Writer::new(Arc::clone(fs), path, true).unwrap();
        }
        let data = payload(first_index + i, *len);
        writer.append(&data).unwrap();
        appended.push(data);
    }
    appended
}

fn boundary_lengths() -> Vec<usize> {
    let mut v: Vec<usize> = vec![];
    v.extend(0..=16);
    // exactly filling a block from its start / leaving 0..=16 bytes
    v.extend((0..=16).map(|k| B - H - k));
    // between block-header and block size, just over one block
    v.extend((0..=8).map(|k| B - k));
    v.extend((1..=16).map(|k| B + k));
    // two full fragments +- a bit
    v.extend((0..=16).map(|k| 2 * (B - H) - k));
    v.extend((1..=16).map(|k| 2 * (B - H) + k));
    // many blocks
    v.push(3 * B + 5);
    v.push(5 * (B - H));
    v.sort();
    v.dedup();
    v
}

struct Failures {
    count: usize,
    first: Vec<String>,
}

impl Failures {
    fn new() -> Self {
        Failures {
            count: 0,
            first: vec![],
        }
    }
    fn record(&mut self, result: Result<(), String>) {
        if let Err(message) = result {
            self.count += 1;
            if self.first.len() < 8 {
                self.first.push(message);
            }
        }
    }
    fn finish(self, scenarios: usize) {
        eprintln!("checked {scenarios} scenarios, {} violations", self.count);
        assert!(
            self.count == 0,
            "{} of {} scenarios violate the property. First ones:\n{}",
            self.count,
            scenarios,
            self.first.join("\n")
        );
    }
}

// ---------------------------------------------------------------------------------------------
// Attack 1: clean appends, all boundary lengths, all reopen points
// ---------------------------------------------------------------------------------------------

#[test]
fn a1_roundtrip_boundary_lengths_and_reopen_points() {
    let mem = MemFs::new();
    let fs: Arc<dyn FileSystem> = mem.clone();
    let path = PathBuf::from("/db/000003.log");
    let lens = boundary_lengths();
    let thirds = [0usize, 1, 9, B - H, B + 1];
    let mut failures = Failures::new();
    let mut scenarios = 0;

    // `left`: the bytes that are left in the first block after the first record
    for left in 0..=16usize {
        let first = B - H - left;
        for second in &lens {
            for third in &thirds {
                for mask in 0..4u32 {
                    scenarios += 1;
                    let seq = [first, *second, *third, 3];
                    let appended = append_records(&fs, &path, true, 0, &seq, &|i| match i {
                        1 => mask & 1 != 0,
                        2 => mask & 2 != 0,
                        _ => false,
                    });
                    // Harness sanity: the file is as long as the format says
                    let mut pos = 0;
                    for len in &seq {
                        pos = *fragment_ends(pos, *len).last().unwrap();
                    }
                    assert_eq!(mem.get(&path).len(), pos, "unexpected file length for {seq:?}");
                    failures.record(check(
                        &format!("lengths {seq:?}, reopen mask {mask:#b}"),
                        read_all(Arc::clone(&fs), &path),
                        &appended,
                    ));
                }
            }
        }
    }
    failures.finish(scenarios);
}

/// The same with a writer re-opened before EVERY record and with long pseudo-random sequences.
#[test]
fn a2_random_sequences_random_reopen_points() {
    let mem = MemFs::new();
    let fs: Arc<dyn FileSystem> = mem.clone();
    let path = PathBuf::from("/db/MANIFEST-000002");
    let lens = boundary_lengths();
    let mut failures = Failures::new();
    let mut state: u64 = 0x1234_5678_9abc_def1;
    let mut next = move || {
        state ^= state << 13;
        state ^= state >> 7;
        state ^= state << 17;
        state
    };

    let rounds = 300;
    for round in 0..rounds {
        let count = 2 + (next() % 12) as usize;
        let seq: Vec<usize> = (0..count)
            .map(|_| {
                let r = next();
                if r % 4 == 0 {
                    (r >> 8) as usize % 70_000
                } else {
                    lens[(r >> 8) as usize % lens.len()]
                }
            })
            .collect();
        let reopen_bits = next();
        let policy = round % 3;
        let appended = append_records(&fs, &path, true, round * 100, &seq, &|i| match policy {
            0 => true,
            1 => false,
            _ => reopen_bits >> (i % 64) & 1 == 1,
        });
        failures.record(check(
            &format!("lengths {seq:?}, reopen policy {policy} bits {reopen_bits:#x}"),
            read_all(Arc::clone(&fs), &path),
            &appended,
        ));
    }
    failures.finish(rounds);
}

// ---------------------------------------------------------------------------------------------
// Attack 2: truncation at any byte
// ---------------------------------------------------------------------------------------------

fn truncation_scenario(
    mem: &Arc<MemFs>,
    seq: &[usize],
    reopen_all: bool,
    every_byte: bool,
    failures: &mut Failures,
) -> usize {
    let fs: Arc<dyn FileSystem> = mem.clone();
    let path = PathBuf::from("/db/000007.log");
    let cut_path = PathBuf::from("/db/000007.cut.log");
    let appended = append_records(&fs, &path, true, 0, seq, &|_| reopen_all);
    let image = mem.get(&path);

    // Positions of interest
    let mut record_ends = vec![];
    let mut interesting = vec![0usize, image.len()];
    let mut pos = 0;
    for len in seq {
        let ends = fragment_ends(pos, *len);
        interesting.extend(ends.iter().cloned());
        pos = *ends.last().unwrap();
        record_ends.push(pos);
    }
    assert_eq!(pos, image.len());
    let mut block = 0;
    while block <= image.len() {
        interesting.push(block);
        block += B;
    }

    let mut cuts: Vec<usize> = vec![];
    if every_byte {
        cuts.extend(0..=image.len());
    } else {
        for p in interesting {
            for d in 0..=20usize {
                cuts.push(p + d);
                cuts.push(p.saturating_sub(d));
            }
        }
        cuts.extend((0..image.len()).step_by(4099));
        cuts.retain(|c| *c <= image.len());
        cuts.sort();
        cuts.dedup();
    }

    for cut in &cuts {
        mem.put(&cut_path, &image[..*cut]);
        let complete = record_ends.iter().filter(|end| **end <= *cut).count();
        failures.record(check(
            &format!(
                "lengths {seq:?} (file of {} bytes) cut off after {cut} bytes",
                image.len()
            ),
            read_all(Arc::clone(&fs), &cut_path),
            &appended[..complete],
        ));
    }
    cuts.len()
}

#[test]
fn b1_truncation_at_every_byte_of_small_logs() {
    let mem = MemFs::new();
    let mut failures = Failures::new();
    let mut scenarios = 0;
    for seq in [
        vec![0usize],
        vec![1],
        vec![0, 0, 0],
        vec![0, 1, 5, 0, 100, 7],
        vec![300, 0, 2, 0],
    ] {
        scenarios += truncation_scenario(&mem, &seq, false, true, &mut failures);
        scenarios += truncation_scenario(&mem, &seq, true, true, &mut failures);
    }
    // One log with a block boundary in it, every byte
    scenarios += truncation_scenario(&mem, &[B - H - 3, 2, B - 20, 0], false, true, &mut failures);
    failures.finish(scenarios);
}

#[test]
fn b2_truncation_around_all_boundaries_of_multi_block_logs() {
    let mem = MemFs::new();
    let mut failures = Failures::new();
    let mut scenarios = 0;
    for left in 0..=9usize {
        for second in [0usize, 1, 6, 7, 8, B - H, B, 2 * B + 11] {
            for third in [0usize, 5, B - H - 1] {
                let seq = [B - H - left, second, third, 1];
                scenarios += truncation_scenario(&mem, &seq, left % 2 == 0, false, &mut failures);
            }
        }
    }
    // Records spanning many blocks, starting at position 0 and in the middle of a block
    for seq in [
        vec![5 * (B - H)],
        vec![5 * (B - H) + 1, 0],
        vec![100, 4 * B, 0, 3 * B - 21 - 107, 0, 0],
    ] {
        scenarios += truncation_scenario(&mem, &seq, false, false, &mut failures);
    }
    failures.finish(scenarios);
}

// ---------------------------------------------------------------------------------------------
// Attack 3: a writer dies between two fragments of a record, a later writer appends more
// ---------------------------------------------------------------------------------------------

#[test]
fn c1_writer_stopped_between_fragments_then_a_later_writer_appends() {
    let mem = MemFs::new();
    let fs: Arc<dyn FileSystem> = mem.clone();
    let path = PathBuf::from("/db/000011.log");
    let mut failures = Failures::new();
    let mut scenarios = 0;

    let later: Vec<Vec<usize>> = vec![
        vec![0],
        vec![1],
        vec![B - H],
        vec![B - H + 1],
        vec![2 * B + 3],
        vec![5, 0, 70_000, 9],
        vec![0, 0, B, 0],
    ];

    // prefix: None = the unfinished record is the first record of the file
    let mut prefixes: Vec<Option<usize>> = vec![None];
    prefixes.extend((0..=16usize).map(|left| Some(B - H - left)));
    prefixes.push(Some(10));

    for prefix in &prefixes {
        for unfinished_len in [B, B + 20, 2 * B, 3 * B - 30, 4 * (B - H) + 1] {
            let mut before: Vec<usize> = vec![];
            if let Some(len) = prefix {
                before.push(3);
                before.push(*len);
            }
            let mut start = 0;
            for len in &before {
                start = *fragment_ends(start, *len).last().unwrap();
            }
            let ends = fragment_ends(start, unfinished_len);
            if ends.len() < 2 {
                continue;
            }
            for fragments_written in 1..ends.len() {
                for (later_index, later_lens) in later.iter().enumerate() {
                    // Keep the run time reasonable: all later sequences only for the first two
                    // stop points, otherwise rotate through them
                    if fragments_written > 2
                        && later_index != (fragments_written + unfinished_len) % later.len()
                    {
                        continue;
                    }
                    scenarios += 1;
                    mem.set_flush_budget(i64::MAX);
                    let mut want = append_records(&fs, &path, true, 0, &before, &|_| false);

                    // The writer that dies
                    let mut writer = Writer::new(Arc::clone(&fs), &path, true).unwrap();
                    mem.set_flush_budget(fragments_written as i64);
                    let result = writer.append(&payload(50, unfinished_len));
                    assert!(result.is_err(), "harness: the injected fault was not reported");
                    drop(writer);
                    mem.set_flush_budget(i64::MAX);
                    assert_eq!(
                        mem.get(&path).len(),
                        ends[fragments_written - 1],
                        "harness: the writer did not stop at a fragment boundary"
                    );

                    // The later writer(s)
                    want.extend(append_records(
                        &fs,
                        &path,
                        false,
                        100,
                        later_lens,
                        &|i| i % 2 == 1,
                    ));

                    failures.record(check(
                        &format!(
                            "records {before:?}, then a record of {unfinished_len} bytes of which \
                             only {fragments_written} of {} fragments were written, then a new \
                             writer appending {later_lens:?}",
                            ends.len()
                        ),
                        read_all(Arc::clone(&fs), &path),
                        &want,
                    ));
                }
            }
        }
    }
    failures.finish(scenarios);
}

/// Two writers in a row die between fragments; also cut the resulting file at interesting bytes.
#[test]
fn c2_repeated_deaths_between_fragments_and_truncation_afterwards() {
    let mem = MemFs::new();
    let fs: Arc<dyn FileSystem> = mem.clone();
    let path = PathBuf::from("/db/000013.log");
    let cut_path = PathBuf::from("/db/000013.cut.log");
    let mut failures = Failures::new();
    let mut scenarios = 0;

    for left in [0usize, 1, 6, 7, 8, 100] {
        for (die1, die2) in [(1usize, 1usize), (2, 1), (1, 2), (3, 3)] {
            mem.set_flush_budget(i64::MAX);
            let before = [4usize, B - H - left - (H + 4)];
            let mut complete: Vec<(usize, Vec<u8>)> = vec![];
            let mut pos = 0;
            for data in append_records(&fs, &path, true, 0, &before, &|_| false) {
                pos = *fragment_ends(pos, data.len()).last().unwrap();
                complete.push((pos, data));
            }

            for (round, die_after) in [(0usize, die1), (1, die2)] {
                let mut writer = Writer::new(Arc::clone(&fs), &path, true).unwrap();
                let len = 4 * B + round;
                let ends = fragment_ends(pos, len);
                mem.set_flush_budget(die_after as i64);
                assert!(writer.append(&payload(70 + round, len)).is_err());
                drop(writer);
                mem.set_flush_budget(i64::MAX);
                pos = ends[die_after - 1];
                assert_eq!(mem.get(&path).len(), pos);
                if round == 0 {
                    // a complete record between the two unfinished ones
                    let mut writer = Writer::new(Arc::clone(&fs), &path, true).unwrap();
                    let data = payload(80, B + 9);
                    writer.append(&data).unwrap();
                    pos = *fragment_ends(pos, data.len()).last().unwrap();
                    complete.push((pos, data));
                }
            }
            let later = [0usize, 2 * B, 17];
            for data in append_records(&fs, &path, false, 90, &later, &|_| true) {
                pos = *fragment_ends(pos, data.len()).last().unwrap();
                complete.push((pos, data));
            }
            let image = mem.get(&path);
            assert_eq!(image.len(), pos);

            let mut cuts = vec![image.len()];
            for (end, _) in &complete {
                for d in 0..=8usize {
                    cuts.push(end + d);
                    cuts.push(end - d);
                }
            }
            let mut block = B;
            while block < image.len() {
                for d in 0..=8usize {
                    cuts.push(block + d);
                    cuts.push(block - d);
                }
                block += B;
            }
            cuts.retain(|c| *c <= image.len());
            cuts.sort();
            cuts.dedup();
            for cut in cuts {
                scenarios += 1;
                mem.put(&cut_path, &image[..cut]);
                let want: Vec<Vec<u8>> = complete
                    .iter()
                    .filter(|(end, _)| *end <= cut)
                    .map(|(_, data)| data.clone())
                    .collect();
                failures.record(check(
                    &format!(
                        "left {left}, writers died after {die1} and {die2} fragments, file of {} \
                         bytes cut off after {cut} bytes",
                        image.len()
                    ),
                    read_all(Arc::clone(&fs), &cut_path),
                    &want,
                ));
            }
        }
    }
    failures.finish(scenarios);
}

// ---------------------------------------------------------------------------------------------
// Attack 4: the file systems shipped with the crate
// ---------------------------------------------------------------------------------------------

fn shipped_fs_roundtrip(fs: Arc<dyn FileSystem>, path: &Path) {
    let mut failures = Failures::new();
    let mut scenarios = 0;
    for left in [0usize, 1, 3, 6, 7, 8] {
        for second in [0usize, 1, 7, B - H, B, 2 * B + 5] {
            for mask in 0..4u32 {
                scenarios += 1;
                let seq = [B - H - left, second, 0, 11];
                let appended = append_records(&fs, path, true, 0, &seq, &|i| match i {
                    1 => mask & 1 != 0,
                    2 => mask & 2 != 0,
                    _ => true,
                });
                failures.record(check(
                    &format!("{}: lengths {seq:?}, reopen mask {mask:#b}", fs.get_name()),
                    read_all(Arc::clone(&fs), path),
                    &appended,
                ));
            }
        }
    }
    failures.finish(scenarios);
}

#[test]
fn d1_in_memory_file_system() {
    let fs: Arc<dyn FileSystem> = Arc::new(InMemoryFileSystem::new());
    shipped_fs_roundtrip(fs, Path::new("/db/000005.log"));
}

#[test]
fn d2_os_file_system() {
    let dir = Path::new(env!("CARGO_MANIFEST_DIR"))
        .join("target")
        .join(format!("audit-c12-{}", std::process::id()));
    std::fs::create_dir_all(&dir).unwrap();
    let fs: Arc<dyn FileSystem> = Arc::new(OsFileSystem::new());
    let path = dir.join("000005.log");
    shipped_fs_roundtrip(Arc::clone(&fs), &path);

    // Truncation with a real file
    let seq = [B - H - 2, 1, B, 0, 9];
    let appended = append_records(&fs, &path, true, 0, &seq, &|_| true);
    let image = std::fs::read(&path).unwrap();
    let mut ends = vec![];
    let mut pos = 0;
    for len in &seq {
        pos = *fragment_ends(pos, *len).last().unwrap();
        ends.push(pos);
    }
    assert_eq!(pos, image.len());
    let mut failures = Failures::new();
    let mut scenarios = 0;
    let cut_path = dir.join("000006.log");
    for cut in (0..=image.len()).filter(|c| {
        ends.iter().any(|e| (*e as i64 - *c as i64).abs() <= 9)
            || (*c as i64 % B as i64 - B as i64).abs() <= 9
            || *c % B <= 9
    }) {
        scenarios += 1;
        std::fs::write(&cut_path, &image[..cut]).unwrap();
        let complete = ends.iter().filter(|end| **end <= cut).count();
        failures.record(check(
            &format!("OsFileSystem: lengths {seq:?} cut off after {cut} bytes"),
            read_all(Arc::clone(&fs), &cut_path),
            &appended[..complete],
        ));
    }
    std::fs::remove_dir_all(&dir).unwrap();
    failures.finish(scenarios);
}

// ---------------------------------------------------------------------------------------------
// Attack 5: many equally sized tiny records (0..=9 bytes) marching through the block boundary
// ---------------------------------------------------------------------------------------------

#[test]
fn a3_tiny_records_marching_through_block_boundaries() {
    let mem = MemFs::new();
    let fs: Arc<dyn FileSystem> = mem.clone();
    let path = PathBuf::from("/db/000021.log");
    let cut_path = PathBuf::from("/db/000021.cut.log");
    let mut failures = Failures::new();
    let mut scenarios = 0;

    for size in 0..=9usize {
        for lead in [0usize, 1, 2, 3, 4, 5, 6] {
            // `lead` shifts the phase with which the records hit the end of the block
            let count = 2 * B / (H + size) + 20;
            let mut seq = vec![lead];
            seq.extend(std::iter::repeat(size).take(count));
            let appended =
                append_records(&fs, &path, true, 0, &seq, &|i| i % 1171 == 0 || i % 4099 == 7);
            scenarios += 1;
            failures.record(check(
                &format!("one record of {lead} bytes then {count} records of {size} bytes"),
                read_all(Arc::clone(&fs), &path),
                &appended,
            ));

            // cut off around the block boundaries
            let image = mem.get(&path);
            let mut ends = vec![];
            let mut pos = 0;
            for len in &seq {
                pos = *fragment_ends(pos, *len).last().unwrap();
                ends.push(pos);
            }
            assert_eq!(pos, image.len());
            for boundary in [B, 2 * B] {
                for cut in boundary - 30..=boundary + 30 {
                    scenarios += 1;
                    mem.put(&cut_path, &image[..cut]);
                    let complete = ends.iter().filter(|end| **end <= cut).count();
                    failures.record(check(
                        &format!(
                            "one record of {lead} bytes then {count} records of {size} bytes, \
                             cut off after {cut} bytes"
                        ),
                        read_all(Arc::clone(&fs), &cut_path),
                        &appended[..complete],
                    ));
                }
            }
        }
    }
    // one very large record between small ones, writer re-opened around it
    let seq = [1usize, 1_000_003, 0, 2_500_000, 5];
    let appended = append_records(&fs, &path, true, 0, &seq, &|_| true);
    scenarios += 1;
    failures.record(check(
        &format!("lengths {seq:?}"),
        read_all(Arc::clone(&fs), &path),
        &appended,
    ));
    failures.finish(scenarios);
}

// ---------------------------------------------------------------------------------------------
// Attack 6: end to end through the database. The WAL is re-opened for appending by every
// `DB::open` (reuse_log_files), with the end of the WAL placed 0..=8 bytes before the end of a
// block; then crash images with the WAL cut off at bytes around every boundary.
// ---------------------------------------------------------------------------------------------

use raindb::{DbOptions, RainDBError, ReadOptions, WriteOptions, DB};

fn db_options(fs: &Arc<dyn FileSystem>) -> DbOptions {
    DbOptions {
        db_path: "/db".to_owned(),
        filesystem_provider: Arc::clone(fs),
        create_if_missing: true,
        reuse_log_files: true,
        ..DbOptions::default()
    }
}

fn read_file(fs: &Arc<dyn FileSystem>, path: &Path) -> Vec<u8> {
    let mut file = fs.open_file(path).unwrap();
    let len = file.len().unwrap() as usize;
    let mut buf = vec![0u8; len];
    file.read_exact(&mut buf).unwrap();
    buf
}

fn write_file(fs: &Arc<dyn FileSystem>, path: &Path, bytes: &[u8]) {
    let mut file = fs.create_file(path, false).unwrap();
    file.write_all(bytes).unwrap();
    file.flush().unwrap();
}

fn copy_tree(
    src: &Arc<dyn FileSystem>,
    dst: &Arc<dyn FileSystem>,
    dir: &Path,
    edit: &dyn Fn(&Path, Vec<u8>) -> Vec<u8>,
) {
    for entry in src.list_dir(dir).unwrap() {
        if src.is_dir(&entry).unwrap() {
            copy_tree(src, dst, &entry, edit);
        } else {
            let bytes = read_file(src, &entry);
            write_file(dst, &entry, &edit(&entry, bytes));
        }
    }
}

/// The WAL files (path, size) of the closed database.
fn wal_files(fs: &Arc<dyn FileSystem>) -> Vec<(PathBuf, u64)> {
    fs.list_dir(Path::new("/db/wal"))
        .unwrap_or_default()
        .into_iter()
        .map(|p| {
            let size = fs.get_file_size(&p).unwrap();
            (p, size)
        })
        .collect()
}

fn value_bytes(tag: u8, len: usize) -> Vec<u8> {
    let mut v = payload(tag as usize, len);
    if !v.is_empty() {
        v[0] = tag;
    }
    v
}

/// One session: open, put, close.
fn session_put(fs: &Arc<dyn FileSystem>, key: &[u8], value: &[u8]) {
    let db = DB::open(db_options(fs)).unwrap();
    db.put(WriteOptions::default(), key.to_vec(), value.to_vec())
        .unwrap();
    drop(db);
}

fn lookup(db: &DB, key: &[u8]) -> Result<Option<Vec<u8>>, String> {
    match db.get(ReadOptions::default(), key) {
        Ok(value) => Ok(Some(value)),
        Err(RainDBError::KeyNotFound) => Ok(None),
        Err(e) => Err(e.to_string()),
    }
}

fn new_fs(kind: usize) -> Arc<dyn FileSystem> {
    if kind == 0 {
        MemFs::new()
    } else {
        Arc::new(InMemoryFileSystem::new())
    }
}

/// WAL bytes used by a put of a 1 byte key and a value of `len` bytes, not counting the value
/// and not counting the 7 byte header of the log record.
fn wal_overhead(kind: usize, len: usize) -> usize {
    let fs = new_fs(kind);
    session_put(&fs, b"z", &[1, 2, 3]);
    let before = wal_files(&fs);
    assert_eq!(before.len(), 1, "harness: expected one WAL, got {before:?}");
    session_put(&fs, b"y", &vec![7u8; len]);
    let after = wal_files(&fs);
    assert_eq!(
        after.len(),
        1,
        "harness: expected the WAL to be reused, got {after:?}"
    );
    assert_eq!(before[0].0, after[0].0, "harness: expected the WAL to be reused");
    (after[0].1 - before[0].1) as usize - len - H
}

#[test]
fn e1_database_wal_reuse_at_block_boundaries_and_crash_images() {
    let mut failures = Failures::new();
    let mut scenarios = 0;

    for kind in 0..2usize {
        let small_overhead = wal_overhead(kind, 3);
        let big_overhead = wal_overhead(kind, 20_000);
        for left in 0..=8usize {
            let fs = new_fs(kind);
            // Session 0 creates the database, sessions 1.. append to the same WAL
            session_put(&fs, b"0", &value_bytes(b'0', 3));
            let start = wal_files(&fs)[0].1 as usize;
            assert_eq!(start, H + small_overhead + 3);
            // "a": ends `left` bytes before the end of the first block
            let a_len = B - left - start - H - big_overhead;
            let puts: Vec<(Vec<u8>, Vec<u8>)> = vec![
                (b"0".to_vec(), value_bytes(b'0', 3)),
                (b"a".to_vec(), value_bytes(b'a', a_len)),
                (b"b".to_vec(), value_bytes(b'b', 2)),
                (b"c".to_vec(), value_bytes(b'c', 70_000)),
                (b"d".to_vec(), value_bytes(b'd', 0)),
            ];
            let mut ends = vec![start];
            for (key, value) in &puts[1..] {
                session_put(&fs, key, value);
                let wals = wal_files(&fs);
                assert_eq!(wals.len(), 1, "harness: expected one reused WAL, got {wals:?}");
                ends.push(wals[0].1 as usize);
            }
            assert_eq!(ends[1], B - left, "harness: calibration of the WAL record size is off");
            let (wal_path, wal_size) = wal_files(&fs).remove(0);

            // Everything must be there after the clean sessions
            scenarios += 1;
            {
                let db = DB::open(db_options(&fs)).unwrap();
                for (key, value) in &puts {
                    let got = lookup(&db, key);
                    if got != Ok(Some(value.clone())) {
                        failures.record(Err(format!(
                            "fs {kind}, {left} bytes left in the block when the WAL was re-opened: \
                             key {:?} was written (value of {} bytes) in its own session but \
                             reads as {:?}",
                            String::from_utf8_lossy(key),
                            value.len(),
                            got.map(|v| v.map(|v| v.len()))
                        )));
                    }
                }
            }

            // Crash images: the WAL cut off around every boundary
            let image_fs = new_fs(kind);
            copy_tree(&fs, &image_fs, Path::new("/db"), &|_, bytes| bytes);
            let mut cuts: Vec<usize> = vec![];
            let mut points = ends.clone();
            points.extend([B, 2 * B, 3 * B]);
            for p in points {
                for d in 0..=8usize {
                    cuts.push(p + d);
                    cuts.push(p.saturating_sub(d));
                }
            }
            cuts.retain(|c| *c <= wal_size as usize);
            cuts.sort();
            cuts.dedup();
            for cut in cuts {
                scenarios += 1;
                let crash_fs = new_fs(kind);
                copy_tree(&image_fs, &crash_fs, Path::new("/db"), &|path, bytes| {
                    if path == wal_path {
                        bytes[..cut].to_vec()
                    } else {
                        bytes
                    }
                });
                let context = format!(
                    "fs {kind}, {left} bytes left in block 0 after \"a\", WAL records end at \
                     {ends:?}, WAL cut off after {cut} bytes"
                );
                let mut problems = vec![];
                // Two rounds: right after the crash, and after one more write + clean reopen
                for round in 0..2 {
                    let db = match DB::open(db_options(&crash_fs)) {
                        Ok(db) => db,
                        Err(e) => {
                            problems.push(format!("round {round}: DB::open failed: {e}"));
                            break;
                        }
                    };
                    for (i, (key, value)) in puts.iter().enumerate() {
                        let want = if ends[i] <= cut { Some(value.clone()) } else { None };
                        let got = lookup(&db, key);
                        if got != Ok(want.clone()) {
                            problems.push(format!(
                                "round {round}: key {:?} must read as {:?} but reads as {:?}",
                                String::from_utf8_lossy(key),
                                want.map(|v| v.len()),
                                got.map(|v| v.map(|v| v.len()))
                            ));
                        }
                    }
                    if round == 1 {
                        let got = lookup(&db, b"e");
                        if got != Ok(Some(value_bytes(b'e', 40_000))) {
                            problems.push(format!(
                                "round 1: key \"e\" written after the crash reads as {:?}",
                                got.map(|v| v.map(|v| v.len()))
                            ));
                        }
                    } else {
                        db.put(
                            WriteOptions::default(),
                            b"e".to_vec(),
                            value_bytes(b'e', 40_000),
                        )
                        .unwrap();
                    }
                    drop(db);
                }
                if !problems.is_empty() {
                    failures.record(Err(format!("{context}: {}", problems.join("; "))));
                }
            }
        }
    }
    failures.finish(scenarios);
}

// ---------------------------------------------------------------------------------------------
// Attack 7: the writer stopped exactly after a record, or after the zero trailer that precedes the
// next record (the trailer and the following header are separate writes), then a new writer
// appends
// ---------------------------------------------------------------------------------------------

#[test]
fn c3_writer_stopped_after_a_record_or_after_the_trailer_then_a_later_writer_appends() {
    let mem = MemFs::new();
    let fs: Arc<dyn FileSystem> = mem.clone();
    let path = PathBuf::from("/db/000031.log");
    let mut failures = Failures::new();
    let mut scenarios = 0;
    for left in 0..=8usize {
        for with_trailer in [false, true] {
            if with_trailer && !(1..H).contains(&left) {
                continue;
            }
            for later in [vec![0usize], vec![1], vec![B], vec![0, 3 * B, 0]] {
                scenarios += 1;
                let before = [7usize, B - H - left - (H + 7)];
                let mut want = append_records(&fs, &path, true, 0, &before, &|_| false);
                let mut image = mem.get(&path);
                assert_eq!(image.len(), B - left);
                if with_trailer {
                    image.resize(B, 0);
                }
                mem.put(&path, &image);
                want.extend(append_records(&fs, &path, false, 40, &later, &|_| false));
                failures.record(check(
                    &format!(
                        "records {before:?} leaving {left} bytes in the block, trailer already \
                         written: {with_trailer}, then a new writer appending {later:?}"
                    ),
                    read_all(Arc::clone(&fs), &path),
                    &want,
                ));
            }
        }
    }
    failures.finish(scenarios);
}

// ---------------------------------------------------------------------------------------------
// Attack 8: the manifest of a database with 20-45 KB keys (every manifest record that adds a file
// spans several blocks), re-opened for appending by every `DB::open`
// ---------------------------------------------------------------------------------------------

fn manifest_files(fs: &Arc<dyn FileSystem>) -> Vec<PathBuf> {
    fs.list_dir(Path::new("/db"))
        .unwrap()
        .into_iter()
        .filter(|p| {
            p.file_name()
                .map(|n| n.to_string_lossy().starts_with("MANIFEST-"))
                .unwrap_or(false)
        })
        .collect()
}

#[test]
fn e2_database_manifest_with_multi_block_records_reused_across_sessions() {
    let mut failures = Failures::new();
    let mut scenarios = 0;
    for kind in 0..2usize {
        let fs = new_fs(kind);
        let big_key = |i: usize| -> Vec<u8> {
            let mut key = payload(1000 + i, 20_000 + i * 3_571);
            key[0] = b'k';
            key[1] = i as u8;
            key
        };
        let mut previous: Option<(PathBuf, Vec<Vec<u8>>)> = None;
        let mut reused = 0;
        let sessions = 8;
        for session in 0..sessions {
            {
                let db = DB::open(db_options(&fs)).unwrap();
                db.put(WriteOptions::default(), big_key(session), vec![session as u8; 10])
                    .unwrap();
                db.compact_range(None..None);
                for i in 0..=session {
                    scenarios += 1;
                    let got = lookup(&db, &big_key(i));
                    if got != Ok(Some(vec![i as u8; 10])) {
                        failures.record(Err(format!(
                            "fs {kind}, session {session}: key {i} reads as {got:?}"
                        )));
                    }
                }
            }
            let manifests = manifest_files(&fs);
            assert_eq!(manifests.len(), 1, "harness: expected one manifest: {manifests:?}");
            let manifest = manifests[0].clone();
            let records = match read_all(Arc::clone(&fs), &manifest) {
                Ok(records) => records,
                Err(e) => {
                    failures.record(Err(format!(
                        "fs {kind}, session {session}: the manifest {manifest:?} cannot be read \
                         back: {e}"
                    )));
                    break;
                }
            };
            // The file consists of exactly these records
            let mut pos = 0;
            let mut ends = vec![];
            for record in &records {
                pos = *fragment_ends(pos, record.len()).last().unwrap();
                ends.push(pos);
            }
            scenarios += 1;
            let size = fs.get_file_size(&manifest).unwrap() as usize;
            if pos != size {
                failures.record(Err(format!(
                    "fs {kind}, session {session}: the manifest has {size} bytes but the records \
                     that can be read from it ({}) account for {pos} bytes: something that was \
                     appended is not returned",
                    describe(&records)
                )));
            }
            if let Some((previous_path, previous_records)) = &previous {
                if *previous_path == manifest {
                    reused += 1;
                    scenarios += 1;
                    if records.len() <= previous_records.len()
                        || records[..previous_records.len()] != previous_records[..]
                    {
                        failures.record(Err(format!(
                            "fs {kind}, session {session}: the manifest was re-opened for \
                             appending; before it held {}, now it holds {}; the old records must \
                             be a proper prefix of the new ones",
                            describe(previous_records),
                            describe(&records)
                        )));
                    }
                }
            }

            // Cut the manifest off around every record end and block boundary
            let image = read_file(&fs, &manifest);
            let mut cuts = vec![];
            let mut points = ends.clone();
            let mut block = B;
            while block < image.len() {
                points.push(block);
                block += B;
            }
            for p in points {
                for d in 0..=7usize {
                    cuts.push(p + d);
                    cuts.push(p - d);
                }
            }
            cuts.retain(|c| *c <= image.len());
            cuts.sort();
            cuts.dedup();
            let cut_path = PathBuf::from("/scratch/cut.manifest");
            for cut in cuts {
                scenarios += 1;
                write_file(&fs, &cut_path, &image[..cut]);
                let complete = ends.iter().filter(|end| **end <= cut).count();
                failures.record(check(
                    &format!(
                        "fs {kind}, session {session}: manifest of {} bytes cut off after {cut} \
                         bytes",
                        image.len()
                    ),
                    read_all(Arc::clone(&fs), &cut_path),
                    &records[..complete],
                ));
            }
            fs.remove_file(&cut_path).unwrap();
            previous = Some((manifest, records));
        }
        assert!(
            reused >= sessions - 2,
            "harness: the manifest was re-opened for appending only {reused} times"
        );
        let (_, records) = previous.unwrap();
        assert!(
            records.iter().filter(|r| r.len() > B).count() >= sessions,
            "harness: expected at least {sessions} multi-block manifest records, got {}",
            describe(&records)
        );
    }
    failures.finish(scenarios);
}

// ---------------------------------------------------------------------------------------------
// Attack 9: position-targeted. A record that starts at offset `s` of a block (every offset in
// the last 30 bytes and a few others) and ends leaving exactly `e` (0..=16) bytes in the same,
// the next or the next but one block; all reopen points.
// ---------------------------------------------------------------------------------------------

#[test]
fn a4_every_start_offset_and_every_end_offset_near_the_block_end() {
    let mem = MemFs::new();
    let fs: Arc<dyn FileSystem> = mem.clone();
    let path = PathBuf::from("/db/000041.log");
    let mut failures = Failures::new();
    let mut scenarios = 0;

    let mut starts: Vec<usize> = vec![0, 7, 8, 9, 100];
    starts.extend(B - 30..B);
    for start in starts {
        for blocks_later in 0..3usize {
            for left_at_end in 0..=16usize {
                let mut seq: Vec<usize> = vec![];
                if start > 0 {
                    seq.push(start - H);
                }
                // where the record really starts (a trailer may be skipped)
                let real_start = if B - start % B < H { B } else { start };
                let target_end = (real_start / B + blocks_later + 1) * B - left_at_end;
                let fragments = target_end / B - real_start / B + if left_at_end == 0 { 0 } else { 1 };
                let fragments = fragments.max(1);
                if target_end < real_start + fragments * H {
                    continue;
                }
                let len = target_end - real_start - fragments * H;
                if *fragment_ends(start, len).last().unwrap() != target_end {
                    continue;
                }
                seq.push(len);
                seq.push(5);
                seq.push(0);
                for mask in 0..4u32 {
                    scenarios += 1;
                    let target_index = seq.len() - 3;
                    let appended = append_records(&fs, &path, true, 0, &seq, &|i| {
                        (i == target_index && mask & 1 != 0)
                            || (i == target_index + 1 && mask & 2 != 0)
                    });
                    failures.record(check(
                        &format!(
                            "lengths {seq:?} (the record of {len} bytes starts at {start} and ends \
                             {left_at_end} bytes before the end of a block), reopen mask {mask:#b}"
                        ),
                        read_all(Arc::clone(&fs), &path),
                        &appended,
                    ));
                }
            }
        }
    }
    assert!(scenarios > 5000, "harness: only {scenarios} scenarios were generated");
    failures.finish(scenarios);
}
