//! Second audit of the property "I/O failures are reported, never swallowed; nothing acknowledged
//! is lost" (C08).
//!
//! Run with `cargo test --offline --features verif --test audit_demo -- --nocapture`.
//!
//! The file brings its own in-memory file system (`FaultFs`, per-handle cursors, POSIX-like
//! truncate/rename/unlink, exclusive LOCK) in which every call can be made to fail in one of three
//! ways:
//!
//! * `NoEffect`: the call returns an error and changes nothing,
//! * `Short`: (write/append only) half of the bytes reach the file, then the error is returned
//!   (what a full disk does),
//! * `AfterEffect`: (write/append only) all bytes reach the file, then the error is returned,
//! * `ShortOk`: (write/append/read) half of the bytes are transferred and `Ok(half)` is returned.
//!
//! Expected on the unmodified code: everything passes except the three tests that show finding F1
//! of `AUDIT/NOTES.md` (`demo_truncated_current_file_after_short_append` and the two
//! `sweep_short_counts_of_writes_*`). The `observation_*` tests are ignored by default.
//!
//! A fault never masquerades as `NotFound`/`UnexpectedEof`/`Interrupted`.
#![cfg(feature = "verif")]
#![allow(dead_code)]

use std::collections::{BTreeMap, BTreeSet, HashMap, HashSet};
use std::io::{self, Read, Seek, SeekFrom, Write};
use std::path::{Path, PathBuf};
use std::sync::atomic::{AtomicBool, Ordering};
use std::sync::{mpsc, Arc, Mutex};
use std::time::{Duration, Instant};

use raindb::fs::{
    FileLock, FileSystem, RandomAccessFile, ReadonlyRandomAccessFile, UnlockableFile,
};
use raindb::{Batch, DbOptions, RainDBError, RainDbIterator, ReadOptions, WriteOptions, DB};

// ------------------------------------------------------------------------------------------------
// The fault injecting file system
// ------------------------------------------------------------------------------------------------

#[derive(Clone, Copy, Debug, PartialEq, Eq)]
enum Mode {
    NoEffect,
    Short,
    AfterEffect,
    /// Not an error: the call transfers half of the bytes and returns that count (a legal
    /// outcome of `write(2)`/`read(2)`, e.g. on a nearly full disk).
    ShortOk,
}

#[derive(Clone, Debug)]
struct Rule {
    /// Index (in the stream of eligible calls) of the first failing call.
    at: usize,
    /// Fail every later eligible call as well.
    sticky: bool,
    mode: Mode,
    /// If set, the rule only fires on calls whose description contains this string and `at`
    /// counts those calls only.
    filter: Option<String>,
}

#[derive(Default)]
struct Ctl {
    counter: usize,
    filtered_counter: usize,
    rule: Option<Rule>,
    eligible: HashSet<&'static str>,
    trace_enabled: bool,
    trace: Vec<String>,
    injected: Vec<String>,
}

struct Inode {
    data: Mutex<Vec<u8>>,
    locked: AtomicBool,
}

struct FsState {
    files: Mutex<HashMap<PathBuf, Arc<Inode>>>,
    dirs: Mutex<HashSet<PathBuf>>,
    ctl: Mutex<Ctl>,
}

#[derive(Clone)]
struct FaultFs {
    st: Arc<FsState>,
}

fn injected_error(what: &str) -> io::Error {
    io::Error::new(io::ErrorKind::Other, format!("injected fault at {what}"))
}

fn classify(path: &Path) -> &'static str {
    let name = path
        .file_name()
        .map(|name| name.to_string_lossy().to_string())
        .unwrap_or_default();
    if name.starts_with("wal-") {
        "wal"
    } else if name.ends_with(".rdb") {
        "table"
    } else if name.starts_with("MANIFEST") {
        "manifest"
    } else if name == "CURRENT" {
        "CURRENT"
    } else if name == "LOCK" {
        "LOCK"
    } else if name.ends_with(".dbtemp") {
        "temp"
    } else {
        "dir"
    }
}

impl FsState {
    /// Decide the fate of a call. `None`: the call proceeds normally.
    fn gate(&self, kind: &'static str, path: &Path) -> Option<Mode> {
        let mut ctl = self.ctl.lock().unwrap();
        if !ctl.eligible.contains(kind) {
            return None;
        }

        let description = format!("{kind} {} {}", classify(path), path.display());
        let index = ctl.counter;
        ctl.counter += 1;
        if ctl.trace_enabled {
            ctl.trace.push(description.clone());
        }

        let rule = ctl.rule.clone()?;
        let position = match &rule.filter {
            Some(filter) => {
                // Alternatives are separated by '|'
                if !filter
                    .split('|')
                    .any(|alternative| description.contains(alternative))
                {
                    return None;
                }
                let position = ctl.filtered_counter;
                ctl.filtered_counter += 1;
                position
            }
            None => index,
        };

        if position == rule.at || (rule.sticky && position > rule.at) {
            if ctl.injected.len() < 1000 {
                ctl.injected
                    .push(format!("call #{index} ({:?}): {description}", rule.mode));
            }
            return Some(rule.mode);
        }

        None
    }
}

impl FaultFs {
    fn new(eligible: &[&'static str]) -> Self {
        let ctl = Ctl {
            eligible: eligible.iter().copied().collect(),
            ..Ctl::default()
        };
        FaultFs {
            st: Arc::new(FsState {
                files: Mutex::new(HashMap::new()),
                dirs: Mutex::new(HashSet::new()),
                ctl: Mutex::new(ctl),
            }),
        }
    }

    fn set_rule(&self, rule: Option<Rule>) {
        let mut ctl = self.st.ctl.lock().unwrap();
        ctl.rule = rule;
        ctl.filtered_counter = 0;
    }

    fn clear_rule(&self) {
        self.st.ctl.lock().unwrap().rule = None;
    }

    fn enable_trace(&self) {
        self.st.ctl.lock().unwrap().trace_enabled = true;
    }

    fn counter(&self) -> usize {
        self.st.ctl.lock().unwrap().counter
    }

    fn trace(&self) -> Vec<String> {
        self.st.ctl.lock().unwrap().trace.clone()
    }

    fn injected(&self) -> Vec<String> {
        self.st.ctl.lock().unwrap().injected.clone()
    }

    fn fault_fired(&self) -> bool {
        !self.st.ctl.lock().unwrap().injected.is_empty()
    }

    fn file_contents(&self, path: &Path) -> Option<Vec<u8>> {
        let files = self.st.files.lock().unwrap();
        files.get(path).map(|inode| inode.data.lock().unwrap().clone())
    }

    fn file_names(&self) -> Vec<String> {
        let files = self.st.files.lock().unwrap();
        let mut names: Vec<String> = files
            .iter()
            .map(|(path, inode)| format!("{}({})", path.display(), inode.data.lock().unwrap().len()))
            .collect();
        names.sort();
        names
    }
}

struct Handle {
    st: Arc<FsState>,
    inode: Arc<Inode>,
    path: PathBuf,
    pos: u64,
    append: bool,
}

impl Handle {
    fn put_bytes(&mut self, buf: &[u8]) {
        let mut data = self.inode.data.lock().unwrap();
        if self.append {
            self.pos = data.len() as u64;
        }
        let start = self.pos as usize;
        if data.len() < start {
            data.resize(start, 0);
        }
        let overlap = std::cmp::min(data.len() - start, buf.len());
        data[start..start + overlap].copy_from_slice(&buf[..overlap]);
        data.extend_from_slice(&buf[overlap..]);
        self.pos += buf.len() as u64;
    }

    fn faulty_write(&mut self, kind: &'static str, buf: &[u8]) -> io::Result<usize> {
        match self.st.gate(kind, &self.path) {
            None => {
                self.put_bytes(buf);
                Ok(buf.len())
            }
            Some(Mode::NoEffect) => Err(injected_error(&format!("{kind} {}", self.path.display()))),
            Some(Mode::Short) => {
                let half = buf.len() / 2;
                self.put_bytes(&buf[..half]);
                Err(injected_error(&format!(
                    "{kind} {} (short: {half} of {} bytes)",
                    self.path.display(),
                    buf.len()
                )))
            }
            Some(Mode::AfterEffect) => {
                self.put_bytes(buf);
                Err(injected_error(&format!(
                    "{kind} {} (after all bytes were written)",
                    self.path.display()
                )))
            }
            Some(Mode::ShortOk) => {
                let half = std::cmp::max(buf.len() / 2, 1);
                self.put_bytes(&buf[..half]);
                Ok(half)
            }
        }
    }
}

impl Read for Handle {
    fn read(&mut self, buf: &mut [u8]) -> io::Result<usize> {
        let fate = self.st.gate("read", &self.path);
        if fate.is_some() && fate != Some(Mode::ShortOk) {
            return Err(injected_error(&format!("read {}", self.path.display())));
        }
        let data = self.inode.data.lock().unwrap();
        let start = std::cmp::min(self.pos as usize, data.len());
        let mut count = std::cmp::min(buf.len(), data.len() - start);
        if fate == Some(Mode::ShortOk) && count > 1 {
            count /= 2;
        }
        buf[..count].copy_from_slice(&data[start..start + count]);
        self.pos = (start + count) as u64;
        Ok(count)
    }
}

impl Write for Handle {
    fn write(&mut self, buf: &[u8]) -> io::Result<usize> {
        if buf.is_empty() {
            return Ok(0);
        }
        self.faulty_write("write", buf)
    }

    fn flush(&mut self) -> io::Result<()> {
        if self.st.gate("flush", &self.path).is_some() {
            return Err(injected_error(&format!("flush {}", self.path.display())));
        }
        Ok(())
    }
}

impl Seek for Handle {
    fn seek(&mut self, pos: SeekFrom) -> io::Result<u64> {
        let len = self.inode.data.lock().unwrap().len() as i64;
        let new_pos = match pos {
            SeekFrom::Start(offset) => offset as i64,
            SeekFrom::Current(offset) => self.pos as i64 + offset,
            SeekFrom::End(offset) => len + offset,
        };
        if new_pos < 0 {
            return Err(io::Error::new(io::ErrorKind::InvalidInput, "negative seek"));
        }
        self.pos = new_pos as u64;
        Ok(self.pos)
    }
}

impl ReadonlyRandomAccessFile for Handle {
    fn read_from(&self, buf: &mut [u8], offset: usize) -> io::Result<usize> {
        let fate = self.st.gate("read", &self.path);
        if fate.is_some() && fate != Some(Mode::ShortOk) {
            return Err(injected_error(&format!("read {}", self.path.display())));
        }
        let data = self.inode.data.lock().unwrap();
        let start = std::cmp::min(offset, data.len());
        let mut count = std::cmp::min(buf.len(), data.len() - start);
        if fate == Some(Mode::ShortOk) && count > 1 {
            count /= 2;
        }
        buf[..count].copy_from_slice(&data[start..start + count]);
        Ok(count)
    }

    fn len(&self) -> io::Result<u64> {
        if self.st.gate("size", &self.path).is_some() {
            return Err(injected_error(&format!("size {}", self.path.display())));
        }
        Ok(self.inode.data.lock().unwrap().len() as u64)
    }
}

impl RandomAccessFile for Handle {
    fn append(&mut self, buf: &[u8]) -> io::Result<usize> {
        let was_append = self.append;
        self.append = true;
        let result = self.faulty_write("append", buf);
        self.append = was_append;
        result
    }
}

struct LockHandle {
    inode: Arc<Inode>,
}

impl UnlockableFile for LockHandle {
    fn unlock(&self) -> io::Result<()> {
        self.inode.locked.store(false, Ordering::SeqCst);
        Ok(())
    }
}

fn not_found(path: &Path) -> io::Error {
    io::Error::new(
        io::ErrorKind::NotFound,
        format!("no such file: {}", path.display()),
    )
}

impl FileSystem for FaultFs {
    fn get_name(&self) -> String {
        "FaultFs".to_string()
    }

    fn create_dir(&self, path: &Path) -> io::Result<()> {
        if self.st.gate("mkdir", path).is_some() {
            return Err(injected_error(&format!("mkdir {}", path.display())));
        }
        let mut dirs = self.st.dirs.lock().unwrap();
        if !dirs.insert(path.to_path_buf()) {
            return Err(io::Error::new(io::ErrorKind::AlreadyExists, "exists"));
        }
        Ok(())
    }

    fn create_dir_all(&self, path: &Path) -> io::Result<()> {
        if self.st.gate("mkdir", path).is_some() {
            return Err(injected_error(&format!("mkdir {}", path.display())));
        }
        let mut dirs = self.st.dirs.lock().unwrap();
        let mut current = Some(path);
        while let Some(dir) = current {
            if dir.as_os_str().is_empty() {
                break;
            }
            dirs.insert(dir.to_path_buf());
            current = dir.parent();
        }
        Ok(())
    }

    fn list_dir(&self, path: &Path) -> io::Result<Vec<PathBuf>> {
        if self.st.gate("list", path).is_some() {
            return Err(injected_error(&format!("list {}", path.display())));
        }
        let mut children: BTreeSet<PathBuf> = BTreeSet::new();
        for file in self.st.files.lock().unwrap().keys() {
            if file.parent() == Some(path) {
                children.insert(file.clone());
            }
        }
        for dir in self.st.dirs.lock().unwrap().iter() {
            if dir.parent() == Some(path) {
                children.insert(dir.clone());
            }
        }
        Ok(children.into_iter().collect())
    }

    fn open_file(&self, path: &Path) -> io::Result<Box<dyn ReadonlyRandomAccessFile>> {
        if self.st.gate("open", path).is_some() {
            return Err(injected_error(&format!("open {}", path.display())));
        }
        let files = self.st.files.lock().unwrap();
        let inode = files.get(path).ok_or_else(|| not_found(path))?;
        Ok(Box::new(Handle {
            st: Arc::clone(&self.st),
            inode: Arc::clone(inode),
            path: path.to_path_buf(),
            pos: 0,
            append: false,
        }))
    }

    fn rename(&self, from: &Path, to: &Path) -> io::Result<()> {
        let fate = self.st.gate("rename", from);
        if fate.is_some() && fate != Some(Mode::AfterEffect) {
            return Err(injected_error(&format!("rename {}", from.display())));
        }
        let mut files = self.st.files.lock().unwrap();
        let inode = files.remove(from).ok_or_else(|| not_found(from))?;
        files.insert(to.to_path_buf(), inode);
        if fate.is_some() {
            return Err(injected_error(&format!(
                "rename {} (after it took effect)",
                from.display()
            )));
        }
        Ok(())
    }

    fn create_file(&self, path: &Path, append: bool) -> io::Result<Box<dyn RandomAccessFile>> {
        let fate = self.st.gate("create", path);
        if fate.is_some() && fate != Some(Mode::AfterEffect) {
            return Err(injected_error(&format!("create {}", path.display())));
        }
        let mut files = self.st.files.lock().unwrap();
        let inode = files
            .entry(path.to_path_buf())
            .or_insert_with(|| {
                Arc::new(Inode {
                    data: Mutex::new(vec![]),
                    locked: AtomicBool::new(false),
                })
            })
            .clone();
        if !append {
            inode.data.lock().unwrap().clear();
        }
        if fate.is_some() {
            return Err(injected_error(&format!(
                "create {} (after it took effect)",
                path.display()
            )));
        }
        Ok(Box::new(Handle {
            st: Arc::clone(&self.st),
            inode,
            path: path.to_path_buf(),
            pos: 0,
            append,
        }))
    }

    fn remove_file(&self, path: &Path) -> io::Result<()> {
        let fate = self.st.gate("remove", path);
        if fate.is_some() && fate != Some(Mode::AfterEffect) {
            return Err(injected_error(&format!("remove {}", path.display())));
        }
        let mut files = self.st.files.lock().unwrap();
        files.remove(path).map(|_| ()).ok_or_else(|| not_found(path))?;
        if fate.is_some() {
            return Err(injected_error(&format!(
                "remove {} (after it took effect)",
                path.display()
            )));
        }
        Ok(())
    }

    fn remove_dir(&self, path: &Path) -> io::Result<()> {
        self.st.dirs.lock().unwrap().remove(path);
        Ok(())
    }

    fn remove_dir_all(&self, path: &Path) -> io::Result<()> {
        self.st
            .files
            .lock()
            .unwrap()
            .retain(|file, _| !file.starts_with(path));
        self.st
            .dirs
            .lock()
            .unwrap()
            .retain(|dir| !dir.starts_with(path));
        Ok(())
    }

    fn get_file_size(&self, path: &Path) -> io::Result<u64> {
        if self.st.gate("size", path).is_some() {
            return Err(injected_error(&format!("size {}", path.display())));
        }
        let files = self.st.files.lock().unwrap();
        let inode = files.get(path).ok_or_else(|| not_found(path))?;
        let len = inode.data.lock().unwrap().len() as u64;
        Ok(len)
    }

    fn is_dir(&self, path: &Path) -> io::Result<bool> {
        if self.st.gate("isdir", path).is_some() {
            return Err(injected_error(&format!("isdir {}", path.display())));
        }
        if self.st.dirs.lock().unwrap().contains(path) {
            return Ok(true);
        }
        if self.st.files.lock().unwrap().contains_key(path) {
            return Ok(false);
        }
        Err(not_found(path))
    }

    fn lock_file(&self, path: &Path) -> io::Result<FileLock> {
        if self.st.gate("lock", path).is_some() {
            return Err(injected_error(&format!("lock {}", path.display())));
        }
        let mut files = self.st.files.lock().unwrap();
        let inode = files
            .entry(path.to_path_buf())
            .or_insert_with(|| {
                Arc::new(Inode {
                    data: Mutex::new(vec![]),
                    locked: AtomicBool::new(false),
                })
            })
            .clone();
        if inode.locked.swap(true, Ordering::SeqCst) {
            return Err(io::Error::new(
                io::ErrorKind::Other,
                "the lock file is already locked",
            ));
        }
        Ok(FileLock::new(Box::new(LockHandle { inode })))
    }
}

// ------------------------------------------------------------------------------------------------
// The oracle
// ------------------------------------------------------------------------------------------------

type Val = Option<Vec<u8>>;

#[derive(Default, Clone)]
struct KeyState {
    /// Value of the last write that returned `Ok` (`None`: absent or deleted).
    committed: Val,
    /// Values of the writes that returned an error after that write.
    maybes: Vec<Val>,
}

impl KeyState {
    fn allows(&self, value: &Val) -> bool {
        &self.committed == value || self.maybes.iter().any(|maybe| maybe == value)
    }
}

#[derive(Default)]
struct Model {
    keys: BTreeMap<Vec<u8>, KeyState>,
    /// Failed batches over keys that nothing else writes afterwards: (key, value before, value of
    /// the batch).
    failed_batches: Vec<Vec<(Vec<u8>, Val, Val)>>,
}

fn show(value: &Val) -> String {
    match value {
        None => "<absent>".to_string(),
        Some(bytes) if bytes.len() > 24 => format!(
            "{:?}..({} bytes)",
            String::from_utf8_lossy(&bytes[..24]),
            bytes.len()
        ),
        Some(bytes) => format!("{:?}", String::from_utf8_lossy(bytes)),
    }
}

fn show_key(key: &[u8]) -> String {
    if key.len() > 24 {
        format!(
            "{:?}..({} bytes)",
            String::from_utf8_lossy(&key[..24]),
            key.len()
        )
    } else {
        format!("{:?}", String::from_utf8_lossy(key))
    }
}

// ------------------------------------------------------------------------------------------------
// The runner
// ------------------------------------------------------------------------------------------------

const DB_PATH: &str = "/auditdb";

struct Config {
    max_memtable_size: usize,
    max_file_size: u64,
    max_block_size: usize,
    reuse_log_files: bool,
}

struct Runner {
    fs: FaultFs,
    opts: DbOptions,
    db: Option<DB>,
    model: Model,
    violations: Vec<String>,
    notes: Vec<String>,
    errors_seen: usize,
}

fn make_options(fs: &FaultFs, config: &Config) -> DbOptions {
    DbOptions {
        db_path: DB_PATH.to_string(),
        max_memtable_size: config.max_memtable_size,
        max_file_size: config.max_file_size,
        max_block_size: config.max_block_size,
        filesystem_provider: Arc::new(fs.clone()),
        create_if_missing: true,
        reuse_log_files: config.reuse_log_files,
        ..DbOptions::default()
    }
}

/// Drop a database on a helper thread so that a close that never returns is detected.
fn close_with_watchdog(db: DB, seconds: u64) -> Result<(), String> {
    let (sender, receiver) = mpsc::channel();
    let handle = std::thread::spawn(move || {
        let result = std::panic::catch_unwind(std::panic::AssertUnwindSafe(move || drop(db)));
        let _ = sender.send(result.is_ok());
    });
    match receiver.recv_timeout(Duration::from_secs(seconds)) {
        Ok(true) => {
            let _ = handle.join();
            Ok(())
        }
        Ok(false) => {
            let _ = handle.join();
            Err("closing the database panicked".to_string())
        }
        Err(_) => Err(format!(
            "closing the database did not return within {seconds} s"
        )),
    }
}

impl Runner {
    fn new(fs: FaultFs, config: &Config) -> Self {
        let opts = make_options(&fs, config);
        Runner {
            fs,
            opts,
            db: None,
            model: Model::default(),
            violations: vec![],
            notes: vec![],
            errors_seen: 0,
        }
    }

    fn violation(&mut self, message: String) {
        self.violations.push(message);
    }

    fn open(&mut self) -> bool {
        assert!(self.db.is_none());
        match DB::open(self.opts.clone()) {
            Ok(db) => {
                self.db = Some(db);
                true
            }
            Err(error) => {
                self.errors_seen += 1;
                if !self.fs.fault_fired() {
                    self.violation(format!(
                        "open failed although no fault was injected so far: {error}"
                    ));
                }
                self.notes.push(format!("open failed: {error}"));
                false
            }
        }
    }

    fn close(&mut self) {
        if let Some(db) = self.db.take() {
            if let Err(message) = close_with_watchdog(db, 60) {
                panic!("HANG/PANIC: {message}; injected: {:?}", self.fs.injected());
            }
        }
    }

    /// Wait until the background work that the last operation started has finished.
    fn quiesce(&mut self) {
        let db = match self.db.as_ref() {
            Some(db) => db,
            None => return,
        };
        let start = Instant::now();
        loop {
            let probe = db.verif_probe();
            let idle = !probe.background_compaction_scheduled
                && (!probe.has_immutable_memtable || probe.bad_state.is_some());
            if idle {
                return;
            }
            if start.elapsed() > Duration::from_secs(60) {
                panic!(
                    "HANG: background work did not finish within 60 s: {:?}; injected: {:?}",
                    probe,
                    self.fs.injected()
                );
            }
            std::thread::sleep(Duration::from_micros(200));
        }
    }

    fn record_write(&mut self, ops: &[(Vec<u8>, Val)], result: Result<(), RainDBError>, what: &str) {
        match result {
            Ok(()) => {
                for (key, value) in ops {
                    let state = self.model.keys.entry(key.clone()).or_default();
                    state.committed = value.clone();
                    state.maybes.clear();
                }
            }
            Err(error) => {
                self.errors_seen += 1;
                if !self.fs.fault_fired() {
                    self.violation(format!(
                        "{what} failed although no fault was injected so far: {error}"
                    ));
                }
                let mut batch_record = vec![];
                for (key, value) in ops {
                    let state = self.model.keys.entry(key.clone()).or_default();
                    batch_record.push((key.clone(), state.committed.clone(), value.clone()));
                    state.maybes.push(value.clone());
                }
                if ops.len() > 1 {
                    self.model.failed_batches.push(batch_record);
                }
            }
        }
    }

    fn put(&mut self, key: &[u8], value: &[u8]) -> bool {
        let result = match self.db.as_ref() {
            Some(db) => db.put(WriteOptions::default(), key.to_vec(), value.to_vec()),
            None => return false,
        };
        let ok = result.is_ok();
        self.record_write(
            &[(key.to_vec(), Some(value.to_vec()))],
            result,
            &format!("put({})", show_key(key)),
        );
        self.quiesce();
        ok
    }

    fn delete(&mut self, key: &[u8]) -> bool {
        let result = match self.db.as_ref() {
            Some(db) => db.delete(WriteOptions::default(), key.to_vec()),
            None => return false,
        };
        let ok = result.is_ok();
        self.record_write(
            &[(key.to_vec(), None)],
            result,
            &format!("delete({})", show_key(key)),
        );
        self.quiesce();
        ok
    }

    fn batch(&mut self, ops: &[(Vec<u8>, Val)]) -> bool {
        let mut batch = Batch::new();
        for (key, value) in ops {
            match value {
                Some(value) => batch.add_put(key.clone(), value.clone()),
                None => batch.add_delete(key.clone()),
            };
        }
        let result = match self.db.as_ref() {
            Some(db) => db.apply(WriteOptions::default(), batch),
            None => return false,
        };
        let ok = result.is_ok();
        self.record_write(ops, result, "batch");
        self.quiesce();
        ok
    }

    fn compact(&mut self, start: Option<&[u8]>, end: Option<&[u8]>) {
        if let Some(db) = self.db.as_ref() {
            db.compact_range(start..end);
        }
        self.quiesce();
    }

    /**
    Check every key of the model by point lookups and by a full scan.

    `strict`: no fault is active and the database was reopened after the fault: errors are not
    acceptable.
    */
    fn check_reads(&mut self, strict: bool, context: &str) -> BTreeMap<Vec<u8>, Val> {
        let mut observed: BTreeMap<Vec<u8>, Val> = BTreeMap::new();
        let db = match self.db.as_ref() {
            Some(db) => db,
            None => return observed,
        };
        let fs = self.fs.clone();
        let mut violations = vec![];

        for (key, state) in self.model.keys.iter() {
            let value: Val = match db.get(ReadOptions::default(), key) {
                Ok(value) => Some(value),
                Err(RainDBError::KeyNotFound) => None,
                Err(error) => {
                    if strict || !fs.fault_fired() {
                        violations.push(format!(
                            "[{context}] get({}) failed with {error} although {}",
                            show_key(key),
                            if strict {
                                "the fault is gone and the database was reopened"
                            } else {
                                "no fault was injected so far"
                            }
                        ));
                    }
                    continue;
                }
            };
            if !state.allows(&value) {
                violations.push(format!(
                    "[{context}] get({}) returned {} but the last acknowledged write was {} \
                     (writes that failed after it: {:?})",
                    show_key(key),
                    show(&value),
                    show(&state.committed),
                    state.maybes.iter().map(show).collect::<Vec<_>>()
                ));
            }
            observed.insert(key.clone(), value);
        }

        // Full scans: forward, backward and with changes of direction
        for style in ["forward", "backward", "zigzag"] {
            let scan: Result<BTreeMap<Vec<u8>, Vec<u8>>, String> = (|| {
                let mut iter = db
                    .new_iterator(ReadOptions::default())
                    .map_err(|error| error.to_string())?;
                let mut entries = BTreeMap::new();
                if style == "backward" {
                    iter.seek_to_last().map_err(|error| error.to_string())?;
                } else {
                    iter.seek_to_first().map_err(|error| error.to_string())?;
                }
                let mut steps = 0;
                while iter.is_valid() {
                    let (key, value) = iter.current().unwrap();
                    entries.insert(key.clone(), value.clone());
                    steps += 1;
                    if style == "zigzag" && iter.status().is_some() {
                        // The position of an iterator is not reliable after a read error: a
                        // caller that changes direction has to look at the status at every step
                        break;
                    }
                    match style {
                        "forward" => iter.next(),
                        "backward" => iter.prev(),
                        _ => {
                            if steps % 4 == 0 {
                                iter.prev()
                            } else {
                                iter.next()
                            }
                        }
                    };
                }
                if let Some(error) = iter.status() {
                    return Err(error.to_string());
                }
                Ok(entries)
            })();
            match scan {
                Err(error) => {
                    if strict || !fs.fault_fired() {
                        violations.push(format!(
                            "[{context}] the {style} scan failed with {error}"
                        ));
                    }
                }
                Ok(entries) => {
                    for (key, state) in self.model.keys.iter() {
                        let value = entries.get(key).cloned();
                        if !state.allows(&value) {
                            violations.push(format!(
                                "[{context}] the {style} scan (no error reported) yields {} for \
                                 {} but the last acknowledged write was {} (failed writes after \
                                 it: {:?})",
                                show(&value),
                                show_key(key),
                                show(&state.committed),
                                state.maybes.iter().map(show).collect::<Vec<_>>()
                            ));
                        }
                    }
                    for key in entries.keys() {
                        if !self.model.keys.contains_key(key) {
                            violations.push(format!(
                                "[{context}] the {style} scan yields the unknown key {}",
                                show_key(key)
                            ));
                        }
                    }
                }
            }
        }

        self.violations.extend(violations);
        observed
    }

    /// Failed batches must be applied completely or not at all.
    fn check_failed_batches(&mut self, observed: &BTreeMap<Vec<u8>, Val>, context: &str) {
        let mut violations = vec![];
        for batch in &self.model.failed_batches {
            let mut applied = 0;
            let mut not_applied = 0;
            for (key, before, after) in batch {
                // Only keys that were not written again afterwards are conclusive
                let state = &self.model.keys[key];
                if &state.committed != before || before == after {
                    continue;
                }
                match observed.get(key) {
                    Some(value) if value == after => applied += 1,
                    Some(value) if value == before => not_applied += 1,
                    _ => {}
                }
            }
            if applied > 0 && not_applied > 0 {
                violations.push(format!(
                    "[{context}] a batch that returned an error was applied partially: {applied} \
                     of its operations are visible, {not_applied} are not"
                ));
            }
        }
        self.violations.extend(violations);
    }

    /// The end of every run: take the fault away, reopen twice, everything must be there.
    fn final_verification(&mut self) {
        self.close();
        self.fs.clear_rule();

        let mut first: Option<BTreeMap<Vec<u8>, Val>> = None;
        for round in 1..=2 {
            let context = format!("after the fault is gone, reopen #{round}");
            match DB::open(self.opts.clone()) {
                Ok(db) => self.db = Some(db),
                Err(error) => {
                    self.violation(format!(
                        "[{context}] the database can not be opened: {error}"
                    ));
                    return;
                }
            }
            self.quiesce();
            let observed = self.check_reads(true, &context);
            self.check_failed_batches(&observed, &context);
            if let Some(first) = first.as_ref() {
                if first != &observed {
                    self.violation(format!(
                        "[{context}] the contents differ from the contents after the previous reopen"
                    ));
                }
            }
            first = Some(observed);

            if round == 2 {
                // The database must also be writable again
                let key = b"zz-final".to_vec();
                let result = self
                    .db
                    .as_ref()
                    .unwrap()
                    .put(WriteOptions::default(), key.clone(), b"final".to_vec());
                if let Err(error) = result {
                    self.violation(format!(
                        "[{context}] a write fails although the fault is gone: {error}"
                    ));
                }
            }
            self.close();
        }
    }
}

// ------------------------------------------------------------------------------------------------
// Workloads
// ------------------------------------------------------------------------------------------------

fn key(index: usize) -> Vec<u8> {
    format!("key{index:04}").into_bytes()
}

fn value(index: usize, generation: usize, len: usize) -> Vec<u8> {
    let mut value = format!("v{index:04}.{generation:03}.").into_bytes();
    let mut state = (index * 31 + generation * 7 + 1) as u32;
    while value.len() < len {
        state = state.wrapping_mul(1664525).wrapping_add(1013904223);
        value.push(b'a' + ((state >> 24) % 26) as u8);
    }
    value
}

/**
Sequential workload: three sessions, overwrites, deletes, batches, a value and a key that need
several log fragments, manual compactions, reopen after errors.

After a write fails, two more operations are tried in the same session, then the database is
restarted (with the fault still active if it is sticky: if the open fails, the fault is taken away
and the open is repeated).
*/
fn sequential_workload(runner: &mut Runner) {
    let mut ops_after_error: Option<usize> = None;
    let mut generation = 0;

    macro_rules! step {
        ($runner:ident, $body:expr) => {{
            if $runner.db.is_none() {
                // A previous open failed: take the fault away and open again
                $runner.fs.clear_rule();
                if !$runner.open() {
                    let message = "the database can not be opened although the fault is gone";
                    $runner.violation(message.to_string());
                    return;
                }
                $runner.quiesce();
                $runner.check_reads(false, "after reopening");
            }
            let ok: bool = $body;
            if !ok && ops_after_error.is_none() {
                ops_after_error = Some(0);
            }
            if let Some(count) = ops_after_error.as_mut() {
                *count += 1;
                if *count > 2 {
                    ops_after_error = None;
                    $runner.check_reads(false, "before the restart after an error");
                    $runner.close();
                    $runner.open();
                    $runner.quiesce();
                    $runner.check_reads(false, "after the restart after an error");
                }
            }
        }};
    }

    if !runner.open() {
        runner.fs.clear_rule();
        if !runner.open() {
            runner.violation("the database can not be created although the fault is gone".into());
            return;
        }
    }

    // Session 1
    for round in 0..3 {
        generation += 1;
        for index in 0..14 {
            step!(runner, runner.put(&key(index), &value(index, generation, 90 + index * 3)));
            if index % 5 == 4 {
                runner.check_reads(false, "session 1");
            }
        }
        step!(runner, runner.delete(&key(round)));
        step!(
            runner,
            runner.batch(&[
                (key(100 + round * 3), Some(value(100 + round * 3, generation, 50))),
                (key(101 + round * 3), Some(value(101 + round * 3, generation, 50))),
                (key(102 + round * 3), Some(value(102 + round * 3, generation, 50))),
            ])
        );
    }
    step!(runner, runner.put(b"big-value", &value(900, 1, 40_000)));
    let mut long_key = vec![b'l'; 34_000];
    long_key.extend_from_slice(b"-long");
    step!(runner, runner.put(&long_key, b"long key"));
    runner.check_reads(false, "session 1, before the manual compaction");
    step!(runner, {
        runner.compact(None, None);
        true
    });
    runner.check_reads(false, "session 1, after the manual compaction");
    for index in 0..6 {
        generation += 1;
        step!(runner, runner.put(&key(index * 2), &value(index * 2, generation, 120)));
    }

    // Session 2
    runner.close();
    runner.open();
    runner.quiesce();
    runner.check_reads(false, "session 2, after opening");
    for index in 0..16 {
        generation += 1;
        step!(runner, runner.put(&key(index + 5), &value(index + 5, generation, 110)));
    }
    step!(runner, runner.delete(&key(7)));
    step!(
        runner,
        runner.batch(&[
            (key(200), Some(value(200, generation, 60))),
            (key(201), None),
            (key(202), Some(value(202, generation, 60))),
        ])
    );
    runner.check_reads(false, "session 2");
    let start = key(3);
    let end = key(12);
    step!(runner, {
        runner.compact(Some(start.as_slice()), Some(end.as_slice()));
        true
    });
    runner.check_reads(false, "session 2, after the manual compaction");

    // Session 3: straight after session 2 with an unflushed memtable
    generation += 1;
    step!(runner, runner.put(&key(1), &value(1, generation, 100)));
    runner.close();
    runner.open();
    runner.quiesce();
    runner.check_reads(false, "session 3, after opening");
    for index in 0..8 {
        generation += 1;
        step!(runner, runner.put(&key(index * 3), &value(index * 3, generation, 130)));
    }
    runner.check_reads(false, "session 3");
}

const SWEEP_ELIGIBLE: &[&str] = &[
    "create", "write", "append", "flush", "rename", "remove", "open", "size", "list", "isdir",
    "mkdir", "lock", "read",
];

fn default_config(reuse_log_files: bool) -> Config {
    Config {
        max_memtable_size: 1500,
        max_file_size: 1400,
        max_block_size: 300,
        reuse_log_files,
    }
}

struct RunOutcome {
    violations: Vec<String>,
    injected: Vec<String>,
    notes: Vec<String>,
}

fn run_once(
    config: &Config,
    eligible: &[&'static str],
    rule: Option<Rule>,
    workload: &dyn Fn(&mut Runner),
    trace: bool,
) -> (RunOutcome, FaultFs) {
    let fs = FaultFs::new(eligible);
    if trace {
        fs.enable_trace();
    }
    fs.set_rule(rule);
    let mut runner = Runner::new(fs.clone(), config);
    workload(&mut runner);
    runner.final_verification();
    (
        RunOutcome {
            violations: runner.violations,
            injected: fs.injected(),
            notes: runner.notes,
        },
        fs,
    )
}

/// Kinds of calls for which a mode makes sense.
fn mode_applies(mode: Mode, description: &str) -> bool {
    let kind = description.split(' ').next().unwrap();
    match mode {
        Mode::NoEffect => true,
        Mode::Short | Mode::AfterEffect => kind == "write" || kind == "append",
        Mode::ShortOk => kind == "write" || kind == "append" || kind == "read",
    }
}

fn sweep(name: &str, config: &Config, modes: &[Mode], kinds: Option<&[&str]>) {
    sweep_with(name, config, modes, kinds, false)
}

fn sweep_with(
    name: &str,
    config: &Config,
    modes: &[Mode],
    kinds: Option<&[&str]>,
    kinds_override_mode: bool,
) {
    sweep_generic(
        name,
        config,
        &sequential_workload,
        modes,
        kinds,
        kinds_override_mode,
        1,
    )
}

#[allow(clippy::too_many_arguments)]
fn sweep_generic(
    name: &str,
    config: &Config,
    workload: &(dyn Fn(&mut Runner) + std::panic::RefUnwindSafe),
    modes: &[Mode],
    kinds: Option<&[&str]>,
    kinds_override_mode: bool,
    stride: usize,
) {
    let _serial = serialize_tests();
    // Calibration: the stream of calls without faults
    let (outcome, fs) = run_once(config, SWEEP_ELIGIBLE, None, workload, true);
    assert!(
        outcome.violations.is_empty(),
        "the fault free run violates the oracle: {:#?}",
        outcome.violations
    );
    let trace = fs.trace();
    let mut by_kind: BTreeMap<String, usize> = BTreeMap::new();
    for description in &trace {
        let mut parts = description.split(' ');
        let class = format!("{} {}", parts.next().unwrap(), parts.next().unwrap());
        *by_kind.entry(class).or_default() += 1;
    }
    println!("[{name}] {} eligible calls: {:?}", trace.len(), by_kind);

    // A second fault free run must produce the same stream (the sweep relies on it)
    let (_, fs2) = run_once(config, SWEEP_ELIGIBLE, None, workload, true);
    let trace2 = fs2.trace();
    if trace != trace2 {
        let first_difference = trace
            .iter()
            .zip(trace2.iter())
            .position(|(left, right)| left != right);
        println!(
            "[{name}] NOTE: the stream of calls is not deterministic (lengths {} and {}, first \
             difference at {:?})",
            trace.len(),
            trace2.len(),
            first_difference
        );
    }

    let mut failures: Vec<String> = vec![];
    let mut runs = 0;
    for &mode in modes {
        for sticky in [false, true] {
            for (position, description) in trace.iter().enumerate() {
                if position % stride != (mode as usize + sticky as usize) % stride {
                    continue;
                }
                if !kinds_override_mode && !mode_applies(mode, description) {
                    continue;
                }
                if let Some(kinds) = kinds {
                    let kind = description.split(' ').next().unwrap();
                    if !kinds.contains(&kind) {
                        continue;
                    }
                }
                let rule = Rule {
                    at: position,
                    sticky,
                    mode,
                    filter: None,
                };
                let run_start = Instant::now();
                if std::env::var("AUDIT_VERBOSE").is_ok() {
                    eprintln!("[{name}] position {position} ({description}), {mode:?}, sticky={sticky}");
                }
                let result = std::panic::catch_unwind(|| {
                    run_once(config, SWEEP_ELIGIBLE, Some(rule), workload, false).0
                });
                runs += 1;
                if run_start.elapsed() > Duration::from_secs(15) {
                    println!(
                        "[{name}] SLOW: position {position} ({description}), {mode:?}, \
                         sticky={sticky} took {:?}",
                        run_start.elapsed()
                    );
                }
                match result {
                    Ok(outcome) => {
                        if !outcome.violations.is_empty() {
                            failures.push(format!(
                                "position {position} ({description}), {mode:?}, sticky={sticky}: \
                                 injected {:?}\n    notes: {:?}\n    {}",
                                outcome.injected.first(),
                                outcome.notes,
                                outcome.violations.join("\n    ")
                            ));
                        }
                    }
                    Err(panic) => {
                        let message = panic
                            .downcast_ref::<String>()
                            .cloned()
                            .or_else(|| panic.downcast_ref::<&str>().map(|s| s.to_string()))
                            .unwrap_or_else(|| "<panic>".to_string());
                        failures.push(format!(
                            "position {position} ({description}), {mode:?}, sticky={sticky}: \
                             PANIC {message}"
                        ));
                    }
                }
            }
        }
    }
    println!("[{name}] {runs} runs, {} violating", failures.len());
    assert!(
        failures.is_empty(),
        "[{name}] {} of {runs} single-fault runs violate the property:\n{}",
        failures.len(),
        failures
            .iter()
            .take(12)
            .cloned()
            .collect::<Vec<_>>()
            .join("\n")
    );
}

/// The `verif` handler is process wide and the runs are timing sensitive: one test at a time.
fn serialize_tests() -> std::sync::MutexGuard<'static, ()> {
    static SERIAL: Mutex<()> = Mutex::new(());
    SERIAL.lock().unwrap_or_else(|poisoned| poisoned.into_inner())
}

// ------------------------------------------------------------------------------------------------
// Tests: sequential sweeps
// ------------------------------------------------------------------------------------------------

#[test]
fn sweep_short_writes_reuse() {
    sweep(
        "short, reuse",
        &default_config(true),
        &[Mode::Short],
        None,
    );
}

#[test]
fn sweep_short_writes_no_reuse() {
    sweep(
        "short, no reuse",
        &default_config(false),
        &[Mode::Short],
        None,
    );
}

#[test]
fn sweep_after_effect_writes_reuse() {
    sweep(
        "after-effect, reuse",
        &default_config(true),
        &[Mode::AfterEffect],
        None,
    );
}

#[test]
fn sweep_after_effect_writes_no_reuse() {
    sweep(
        "after-effect, no reuse",
        &default_config(false),
        &[Mode::AfterEffect],
        None,
    );
}

#[test]
fn sweep_no_effect_other_kinds_reuse() {
    // The kinds that the first audit did not fail: flush, list, isdir, mkdir, lock (and read)
    sweep(
        "no-effect (flush/list/isdir/mkdir/lock/read), reuse",
        &default_config(true),
        &[Mode::NoEffect],
        Some(&["flush", "list", "isdir", "mkdir", "lock", "read"]),
    );
}

#[test]
fn sweep_no_effect_other_kinds_no_reuse() {
    sweep(
        "no-effect (flush/list/isdir/mkdir/lock/read), no reuse",
        &default_config(false),
        &[Mode::NoEffect],
        Some(&["flush", "list", "isdir", "mkdir", "lock", "read"]),
    );
}

#[test]
fn sweep_no_effect_scope_kinds_reuse() {
    sweep(
        "no-effect (create/write/append/rename/remove/open/size), reuse",
        &default_config(true),
        &[Mode::NoEffect],
        Some(&["create", "write", "append", "rename", "remove", "open", "size"]),
    );
}

// ------------------------------------------------------------------------------------------------
// Tests: concurrent workload with one random fault
// ------------------------------------------------------------------------------------------------

/// Small deterministic generator (the tests print the seed of a violating run).
struct Lcg(u64);

impl Lcg {
    fn next(&mut self) -> u64 {
        self.0 = self
            .0
            .wrapping_mul(6364136223846793005)
            .wrapping_add(1442695040888963407);
        self.0 >> 33
    }

    fn below(&mut self, bound: usize) -> usize {
        (self.next() % bound as u64) as usize
    }
}

const RACY_PUT_ONLY_KEYS: usize = 30;
const RACY_KEYS: usize = 42;

fn racy_key(index: usize) -> Vec<u8> {
    if index % 10 == 9 {
        // A key that makes manifest records span several log fragments
        let mut key = format!("rk{index:04}-").into_bytes();
        key.resize(20_000, b'k');
        key
    } else {
        format!("rk{index:04}").into_bytes()
    }
}

fn racy_value(index: usize, generation: usize) -> Vec<u8> {
    let len = if generation % 17 == 16 {
        35_000
    } else {
        60 + (generation * 13 + index * 7) % 120
    };
    value(index, generation, len)
}

/// Parse the generation out of a value and check that the value is intact.
fn racy_generation_of(index: usize, bytes: &[u8]) -> Result<usize, String> {
    let text = String::from_utf8_lossy(&bytes[..std::cmp::min(bytes.len(), 10)]).to_string();
    let generation: usize = text
        .get(6..9)
        .and_then(|digits| digits.parse().ok())
        .ok_or_else(|| format!("malformed value {text:?}"))?;
    if racy_value(index, generation) != bytes {
        return Err(format!(
            "damaged value for key index {index}: starts with {text:?}, {} bytes",
            bytes.len()
        ));
    }
    Ok(generation)
}

struct RacyShared {
    committed: Vec<std::sync::atomic::AtomicUsize>,
    stop: AtomicBool,
    violations: Mutex<Vec<String>>,
}

fn racy_run(seed: u64, config: &Config, fault: Option<(usize, bool, Mode)>) -> (Vec<String>, Vec<String>, usize) {
    use std::sync::atomic::AtomicUsize;

    let fs = FaultFs::new(SWEEP_ELIGIBLE);
    let opts = make_options(&fs, config);
    let mut model = Model::default();
    let mut violations: Vec<String> = vec![];

    // Phase 1: preload without faults so that there are a few levels
    let db = DB::open(opts.clone()).expect("fault free open");
    let mut next_generation: Vec<usize> = vec![0; RACY_KEYS];
    for round in 0..2 {
        for index in 0..RACY_KEYS {
            if index % 10 == 9 && round == 1 {
                continue;
            }
            next_generation[index] += 1;
            let generation = next_generation[index];
            db.put(
                WriteOptions::default(),
                racy_key(index),
                racy_value(index, generation),
            )
            .expect("fault free put");
            model.keys.entry(racy_key(index)).or_default().committed =
                Some(racy_value(index, generation));
        }
    }
    let preload_calls = fs.counter();

    if let Some((offset, sticky, mode)) = fault {
        fs.set_rule(Some(Rule {
            at: preload_calls + offset,
            sticky,
            mode,
            filter: None,
        }));
    }

    let shared = Arc::new(RacyShared {
        committed: (0..RACY_KEYS)
            .map(|index| AtomicUsize::new(next_generation[index]))
            .collect(),
        stop: AtomicBool::new(false),
        violations: Mutex::new(vec![]),
    });
    let db = Arc::new(db);

    // Writers
    let mut writer_handles = vec![];
    for writer in 0..3usize {
        let db = Arc::clone(&db);
        let shared = Arc::clone(&shared);
        let fs = fs.clone();
        let mut generations = next_generation.clone();
        let mut rng = Lcg(seed.wrapping_mul(31).wrapping_add(writer as u64));
        let preloaded: BTreeMap<Vec<u8>, KeyState> = (0..RACY_KEYS)
            .filter(|index| index % 3 == writer)
            .map(|index| (racy_key(index), model.keys[&racy_key(index)].clone()))
            .collect();
        writer_handles.push(std::thread::spawn(move || {
            let mut local: BTreeMap<Vec<u8>, KeyState> = preloaded;
            let mut failed_batches: Vec<Vec<(Vec<u8>, Val, Val)>> = vec![];
            let mut ops_after_error = 0;
            let own: Vec<usize> = (0..RACY_KEYS).filter(|index| index % 3 == writer).collect();
            for _ in 0..40 {
                let index = own[rng.below(own.len())];
                let choice = rng.below(20);
                let mut ops: Vec<(usize, Val)> = vec![];
                if choice == 0 && index >= RACY_PUT_ONLY_KEYS {
                    ops.push((index, None));
                } else if choice == 1 {
                    for &batch_index in own.iter().skip(rng.below(own.len() - 2)).take(3) {
                        generations[batch_index] += 1;
                        ops.push((
                            batch_index,
                            Some(racy_value(batch_index, generations[batch_index])),
                        ));
                    }
                } else {
                    generations[index] += 1;
                    ops.push((index, Some(racy_value(index, generations[index]))));
                }

                let mut batch = Batch::new();
                for (op_index, op_value) in &ops {
                    match op_value {
                        Some(bytes) => batch.add_put(racy_key(*op_index), bytes.clone()),
                        None => batch.add_delete(racy_key(*op_index)),
                    };
                }
                let result = db.apply(WriteOptions::default(), batch);
                match &result {
                    Ok(()) => {
                        for (op_index, op_value) in &ops {
                            let state = local.entry(racy_key(*op_index)).or_default();
                            state.committed = op_value.clone();
                            state.maybes.clear();
                            if op_value.is_some() {
                                shared.committed[*op_index]
                                    .store(generations[*op_index], Ordering::SeqCst);
                            }
                        }
                    }
                    Err(error) => {
                        if !fs.fault_fired() {
                            shared.violations.lock().unwrap().push(format!(
                                "a write failed although no fault was injected so far: {error}"
                            ));
                        }
                        let mut record = vec![];
                        for (op_index, op_value) in &ops {
                            let state = local.entry(racy_key(*op_index)).or_default();
                            record.push((
                                racy_key(*op_index),
                                state.committed.clone(),
                                op_value.clone(),
                            ));
                            state.maybes.push(op_value.clone());
                        }
                        if ops.len() > 1 {
                            failed_batches.push(record);
                        }
                        ops_after_error += 1;
                    }
                }

                // Read your own write
                for (op_index, _) in &ops {
                    let state = &local[&racy_key(*op_index)];
                    let observed: Val = match db.get(ReadOptions::default(), &racy_key(*op_index)) {
                        Ok(bytes) => Some(bytes),
                        Err(RainDBError::KeyNotFound) => None,
                        Err(error) => {
                            if !fs.fault_fired() {
                                shared.violations.lock().unwrap().push(format!(
                                    "a read failed although no fault was injected so far: {error}"
                                ));
                            }
                            continue;
                        }
                    };
                    if !state.allows(&observed) {
                        shared.violations.lock().unwrap().push(format!(
                            "get({}) by its only writer returned {} after a write; last \
                             acknowledged {}, failed writes after it {:?}",
                            show_key(&racy_key(*op_index)),
                            show(&observed),
                            show(&state.committed),
                            state.maybes.iter().map(show).collect::<Vec<_>>()
                        ));
                    }
                }

                if ops_after_error > 3 {
                    break;
                }
            }
            (local, failed_batches)
        }));
    }

    // Reader: never an older value than the one acknowledged before the read started
    let reader_handle = {
        let db = Arc::clone(&db);
        let shared = Arc::clone(&shared);
        let fs = fs.clone();
        let mut rng = Lcg(seed.wrapping_mul(17).wrapping_add(5));
        std::thread::spawn(move || {
            while !shared.stop.load(Ordering::SeqCst) {
                let index = rng.below(RACY_PUT_ONLY_KEYS);
                let floor = shared.committed[index].load(Ordering::SeqCst);
                let use_snapshot = rng.below(4) == 0;
                let (read_options, snapshot) = if use_snapshot {
                    let snapshot = db.get_snapshot();
                    (
                        ReadOptions {
                            fill_cache: true,
                            snapshot: Some(snapshot.clone()),
                        },
                        Some(snapshot),
                    )
                } else {
                    (ReadOptions::default(), None)
                };
                let result = db.get(read_options, &racy_key(index));
                if let Some(snapshot) = snapshot {
                    db.release_snapshot(snapshot);
                }
                match result {
                    Ok(bytes) => match racy_generation_of(index, &bytes) {
                        Ok(generation) if generation >= floor => {}
                        Ok(generation) => shared.violations.lock().unwrap().push(format!(
                            "get({}) returned generation {generation} although generation {floor} \
                             had been acknowledged before the read started",
                            show_key(&racy_key(index))
                        )),
                        Err(message) => shared.violations.lock().unwrap().push(message),
                    },
                    Err(RainDBError::KeyNotFound) => {
                        if floor > 0 {
                            shared.violations.lock().unwrap().push(format!(
                                "get({}) returned KeyNotFound although generation {floor} had \
                                 been acknowledged and the key is never deleted",
                                show_key(&racy_key(index))
                            ));
                        }
                    }
                    Err(error) => {
                        if !fs.fault_fired() {
                            shared.violations.lock().unwrap().push(format!(
                                "a read failed although no fault was injected so far: {error}"
                            ));
                        }
                    }
                }
            }
        })
    };

    // Scanner
    let scanner_handle = {
        let db = Arc::clone(&db);
        let shared = Arc::clone(&shared);
        let fs = fs.clone();
        std::thread::spawn(move || {
            let mut backwards = false;
            while !shared.stop.load(Ordering::SeqCst) {
                backwards = !backwards;
                let floors: Vec<usize> = (0..RACY_PUT_ONLY_KEYS)
                    .map(|index| shared.committed[index].load(Ordering::SeqCst))
                    .collect();
                let scan: Result<BTreeMap<Vec<u8>, Vec<u8>>, String> = (|| {
                    let mut iter = db
                        .new_iterator(ReadOptions::default())
                        .map_err(|error| error.to_string())?;
                    let mut entries = BTreeMap::new();
                    if backwards {
                        iter.seek_to_last().map_err(|error| error.to_string())?;
                    } else {
                        iter.seek_to_first().map_err(|error| error.to_string())?;
                    }
                    while iter.is_valid() {
                        let (key, value) = iter.current().unwrap();
                        entries.insert(key.clone(), value.clone());
                        if backwards {
                            iter.prev();
                        } else {
                            iter.next();
                        }
                    }
                    if let Some(error) = iter.status() {
                        return Err(error.to_string());
                    }
                    Ok(entries)
                })();
                match scan {
                    Err(error) => {
                        if !fs.fault_fired() {
                            shared.violations.lock().unwrap().push(format!(
                                "a scan failed although no fault was injected so far: {error}"
                            ));
                        }
                    }
                    Ok(entries) => {
                        for (index, floor) in floors.iter().enumerate() {
                            if *floor == 0 {
                                continue;
                            }
                            match entries.get(&racy_key(index)) {
                                None => shared.violations.lock().unwrap().push(format!(
                                    "a scan (backwards={backwards}, no error reported) misses {} \
                                     although generation {floor} had been acknowledged before",
                                    show_key(&racy_key(index))
                                )),
                                Some(bytes) => match racy_generation_of(index, bytes) {
                                    Ok(generation) if generation >= *floor => {}
                                    Ok(generation) => {
                                        shared.violations.lock().unwrap().push(format!(
                                            "a scan (backwards={backwards}, no error reported) \
                                             yields generation {generation} of {} although \
                                             generation {floor} had been acknowledged before",
                                            show_key(&racy_key(index))
                                        ))
                                    }
                                    Err(message) => shared.violations.lock().unwrap().push(message),
                                },
                            }
                        }
                    }
                }
            }
        })
    };

    // Manual compactions
    let compactor_handle = {
        let db = Arc::clone(&db);
        let shared = Arc::clone(&shared);
        let mut rng = Lcg(seed.wrapping_mul(13).wrapping_add(11));
        std::thread::spawn(move || {
            while !shared.stop.load(Ordering::SeqCst) {
                let low = rng.below(RACY_KEYS);
                let high = low + rng.below(RACY_KEYS - low + 1);
                let start = racy_key(low);
                let end = format!("rk{high:04}~").into_bytes();
                match rng.below(3) {
                    0 => db.compact_range(None..None),
                    1 => db.compact_range(Some(start.as_slice())..None),
                    _ => db.compact_range(Some(start.as_slice())..Some(end.as_slice())),
                }
                std::thread::sleep(Duration::from_millis(2));
            }
        })
    };

    let deadline = Instant::now() + Duration::from_secs(120);
    let mut failed_batches = vec![];
    for handle in writer_handles {
        while !handle.is_finished() {
            if Instant::now() > deadline {
                panic!(
                    "HANG: a writer thread did not finish (seed {seed}); injected: {:?}",
                    fs.injected()
                );
            }
            std::thread::sleep(Duration::from_millis(1));
        }
        let (local, batches) = handle.join().expect("writer thread panicked");
        for (key, state) in local {
            model.keys.insert(key, state);
        }
        failed_batches.extend(batches);
    }
    shared.stop.store(true, Ordering::SeqCst);
    for (name, handle) in [
        ("reader", reader_handle),
        ("scanner", scanner_handle),
        ("compactor", compactor_handle),
    ] {
        while !handle.is_finished() {
            if Instant::now() > deadline {
                panic!(
                    "HANG: the {name} thread did not finish (seed {seed}); injected: {:?}",
                    fs.injected()
                );
            }
            std::thread::sleep(Duration::from_millis(1));
        }
        handle.join().expect("helper thread panicked");
    }
    violations.extend(shared.violations.lock().unwrap().drain(..));
    let concurrent_calls = fs.counter() - preload_calls;

    model.failed_batches = failed_batches;
    let db = Arc::try_unwrap(db).unwrap_or_else(|_| panic!("the database is still shared"));
    let mut runner = Runner {
        fs: fs.clone(),
        opts,
        db: Some(db),
        model,
        violations,
        notes: vec![],
        errors_seen: 0,
    };
    runner.quiesce();
    runner.check_reads(false, "after the concurrent phase");
    runner.final_verification();
    (runner.violations, fs.injected(), concurrent_calls)
}

fn racy_config(variant: usize) -> Config {
    Config {
        max_memtable_size: 1500,
        max_file_size: if variant % 4 < 2 { 1400 } else { 8_000_000 },
        max_block_size: 300,
        reuse_log_files: variant % 2 == 0,
    }
}

#[test]
fn racy_control_without_fault() {
    let _serial = serialize_tests();
    for variant in 0..4 {
        let (violations, _, calls) = racy_run(1000 + variant as u64, &racy_config(variant), None);
        println!("[racy control] variant {variant}: {calls} calls in the concurrent phase");
        assert!(
            violations.is_empty(),
            "the fault free concurrent run violates the oracle: {violations:#?}"
        );
    }
}

#[test]
fn racy_random_single_faults() {
    let _serial = serialize_tests();
    let iterations: usize = std::env::var("AUDIT_RACY_RUNS")
        .ok()
        .and_then(|text| text.parse().ok())
        .unwrap_or(600);
    let mut failures = vec![];
    let mut fired = 0;
    for iteration in 0..iterations {
        let seed = 77_000 + iteration as u64;
        let mut rng = Lcg(seed);
        let variant = rng.below(4);
        let offset = rng.below(2600);
        let sticky = rng.below(3) == 0;
        let mode = match rng.below(3) {
            0 => Mode::NoEffect,
            1 => Mode::Short,
            _ => Mode::AfterEffect,
        };
        let config = racy_config(variant);
        let result = std::panic::catch_unwind(|| racy_run(seed, &config, Some((offset, sticky, mode))));
        match result {
            Ok((violations, injected, _)) => {
                if !injected.is_empty() {
                    fired += 1;
                }
                if !violations.is_empty() {
                    failures.push(format!(
                        "seed {seed} (variant {variant}, offset {offset}, sticky {sticky}, \
                         {mode:?}): injected {:?}\n    {}",
                        injected.first(),
                        violations.join("\n    ")
                    ));
                }
            }
            Err(panic) => {
                let message = panic
                    .downcast_ref::<String>()
                    .cloned()
                    .or_else(|| panic.downcast_ref::<&str>().map(|s| s.to_string()))
                    .unwrap_or_else(|| "<panic>".to_string());
                failures.push(format!(
                    "seed {seed} (variant {variant}, offset {offset}, sticky {sticky}, {mode:?}): \
                     PANIC {message}"
                ));
                if message.contains("HANG") {
                    // Threads of the hung run are still alive, stop here
                    break;
                }
            }
        }
    }
    println!(
        "[racy] {iterations} runs, the fault fired in {fired}, {} violating",
        failures.len()
    );
    assert!(
        failures.is_empty(),
        "{} concurrent single-fault runs violate the property:\n{}",
        failures.len(),
        failures.iter().take(10).cloned().collect::<Vec<_>>().join("\n")
    );
}


// ------------------------------------------------------------------------------------------------
// Short counts (`Ok(n)` with `n < len`): no call returns an error
// ------------------------------------------------------------------------------------------------

/// `write`/`append` transfer half of the bytes and return `Ok(half)`. Everything that goes through
/// `write_all` copes; `DB::set_current_file` does not look at the count (see NOTES.md, F1).
#[test]
fn sweep_short_counts_of_writes_reuse() {
    sweep(
        "short counts of write/append (Ok(n < len)), reuse",
        &default_config(true),
        &[Mode::ShortOk],
        Some(&["write", "append"]),
    );
}

#[test]
fn sweep_short_counts_of_writes_no_reuse() {
    sweep(
        "short counts of write/append (Ok(n < len)), no reuse",
        &default_config(false),
        &[Mode::ShortOk],
        Some(&["write", "append"]),
    );
}

/// Deterministic demonstration of F1.
#[test]
fn demo_truncated_current_file_after_short_append() {
    let _serial = serialize_tests();
    let fs = FaultFs::new(SWEEP_ELIGIBLE);
    // Without log reuse every open writes a new manifest and switches CURRENT. (With log reuse
    // the same happens whenever the manifest can not be reused: it is larger than
    // `max_file_size`, it has a torn tail or reading its size failed.)
    let config = default_config(false);
    let mut runner = Runner::new(fs.clone(), &config);
    assert!(runner.open(), "fault free open");
    for index in 0..5 {
        assert!(runner.put(&key(index), &value(index, 1, 100)), "fault free put");
    }
    runner.close();

    // The next append to the temp file for CURRENT transfers 10 of 20 bytes and says so
    fs.set_rule(Some(Rule {
        at: 0,
        sticky: false,
        mode: Mode::ShortOk,
        filter: Some("append temp".to_string()),
    }));
    let opened = runner.open();
    println!("open with the short append returned Ok: {opened}; injected: {:?}", fs.injected());
    println!(
        "CURRENT now holds {:?}",
        fs.file_contents(Path::new("/auditdb/CURRENT"))
            .map(|bytes| String::from_utf8_lossy(&bytes).to_string())
    );
    let mut acknowledged = 0;
    for index in 5..10 {
        if runner.put(&key(index), &value(index, 2, 100)) {
            acknowledged += 1;
        }
    }
    println!("{acknowledged} further writes were acknowledged in that session");
    runner.check_reads(false, "session with the truncated CURRENT");
    runner.final_verification();
    assert!(
        runner.violations.is_empty(),
        "a short count (10 of 20 bytes) of the append that writes the manifest name for CURRENT \
         is not noticed (injected: {:?}):\n    {}",
        fs.injected(),
        runner.violations.join("\n    ")
    );
}

// ------------------------------------------------------------------------------------------------
// Observations outside the stated fault model (ignored by default, see NOTES.md)
// ------------------------------------------------------------------------------------------------

/// Short reads (`Ok(n)` with `n < len` although the file has more bytes) of WALs and manifests
/// are taken for the end of the file. LevelDB's reader does the same.
#[test]
#[ignore]
fn observation_short_reads() {
    sweep(
        "short reads (Ok(n < len)), reuse",
        &default_config(true),
        &[Mode::ShortOk],
        Some(&["read"]),
    );
}

/// `create`, `rename` and `remove` that take effect and report an error nevertheless.
#[test]
#[ignore]
fn observation_errors_after_the_effect() {
    sweep_with(
        "create/rename/remove fail after taking effect, no reuse",
        &default_config(false),
        &[Mode::AfterEffect],
        Some(&["create", "rename", "remove"]),
        true,
    );
}

// ------------------------------------------------------------------------------------------------
// More configurations: a manifest that is really reused, a deep tree out of tiny files
// ------------------------------------------------------------------------------------------------

/// Many small writes, a few hundred flushes and compactions (trivial moves, several levels).
fn deep_workload(runner: &mut Runner) {
    let mut ops_after_error: Option<usize> = None;

    macro_rules! step {
        ($runner:ident, $body:expr) => {{
            if $runner.db.is_none() {
                $runner.fs.clear_rule();
                if !$runner.open() {
                    let message = "the database can not be opened although the fault is gone";
                    $runner.violation(message.to_string());
                    return;
                }
                $runner.quiesce();
                $runner.check_reads(false, "after reopening");
            }
            let ok: bool = $body;
            if !ok && ops_after_error.is_none() {
                ops_after_error = Some(0);
            }
            if let Some(count) = ops_after_error.as_mut() {
                *count += 1;
                if *count > 2 {
                    ops_after_error = None;
                    $runner.check_reads(false, "before the restart after an error");
                    $runner.close();
                    $runner.open();
                    $runner.quiesce();
                    $runner.check_reads(false, "after the restart after an error");
                }
            }
        }};
    }

    if !runner.open() {
        runner.fs.clear_rule();
        if !runner.open() {
            runner.violation("the database can not be created although the fault is gone".into());
            return;
        }
    }

    let mut rng = Lcg(4242);
    let mut generation = 0;
    for session in 0..3 {
        for op in 0..110 {
            generation += 1;
            let index = rng.below(48);
            match rng.below(12) {
                0 => step!(runner, runner.delete(&key(index))),
                1 => {
                    let base = 300 + rng.below(20) * 3;
                    step!(
                        runner,
                        runner.batch(&[
                            (key(base), Some(value(base, generation % 1000, 40))),
                            (key(base + 1), Some(value(base + 1, generation % 1000, 40))),
                            (key(base + 2), None),
                        ])
                    )
                }
                _ => step!(
                    runner,
                    runner.put(
                        &key(index),
                        &value(index, generation % 1000, 40 + rng.below(60))
                    )
                ),
            }
            if op % 37 == 36 {
                runner.check_reads(false, &format!("session {session}, operation {op}"));
            }
        }
        if session == 1 {
            step!(runner, {
                runner.compact(None, None);
                true
            });
        }
        runner.check_reads(false, &format!("end of session {session}"));
        runner.close();
        runner.open();
        runner.quiesce();
        runner.check_reads(false, &format!("after session {session}"));
    }
}

fn stride_from_env(default: usize) -> usize {
    std::env::var("AUDIT_STRIDE")
        .ok()
        .and_then(|text| text.parse().ok())
        .unwrap_or(default)
}

/// `max_file_size` large enough for the manifest to be reused by every open.
#[test]
fn sweep_reused_manifest_all_modes() {
    let config = Config {
        max_memtable_size: 1500,
        max_file_size: 8_000_000,
        max_block_size: 300,
        reuse_log_files: true,
    };
    sweep_generic(
        "manifest reused, all modes",
        &config,
        &sequential_workload,
        &[Mode::NoEffect, Mode::Short, Mode::AfterEffect],
        Some(&[
            "create", "write", "append", "flush", "rename", "remove", "open", "size", "list",
            "mkdir", "lock",
        ]),
        false,
        stride_from_env(1),
    );
}

/// Tiny files: deep tree, trivial moves, many manifest records.
#[test]
fn sweep_deep_tree_sampled() {
    let config = Config {
        max_memtable_size: 420,
        max_file_size: 330,
        max_block_size: 100,
        reuse_log_files: true,
    };
    sweep_generic(
        "deep tree",
        &config,
        &deep_workload,
        &[Mode::NoEffect, Mode::Short, Mode::AfterEffect],
        Some(&[
            "create", "write", "append", "flush", "rename", "remove", "open", "size", "read",
        ]),
        false,
        stride_from_env(11),
    );
}

// ------------------------------------------------------------------------------------------------
// Forced schedule: a memtable flush that runs inside a table compaction, every fault position
// ------------------------------------------------------------------------------------------------

#[derive(Default)]
struct ParkState {
    armed: bool,
    parked: bool,
    released: bool,
}

/// Parks the first thread that reaches `point` after arming until it is released.
struct ParkHandler {
    point: &'static str,
    state: Mutex<ParkState>,
    signal: std::sync::Condvar,
}

impl ParkHandler {
    fn new(point: &'static str) -> Arc<Self> {
        Arc::new(ParkHandler {
            point,
            state: Mutex::new(ParkState {
                armed: true,
                ..ParkState::default()
            }),
            signal: std::sync::Condvar::new(),
        })
    }

    fn is_parked(&self) -> bool {
        self.state.lock().unwrap().parked
    }

    fn release(&self) {
        let mut state = self.state.lock().unwrap();
        state.released = true;
        state.armed = false;
        self.signal.notify_all();
    }
}

impl raindb::verif::Handler for ParkHandler {
    fn pause(&self, point: &'static str, _args: &[u64]) {
        if point != self.point {
            return;
        }
        let mut state = self.state.lock().unwrap();
        if !state.armed {
            return;
        }
        state.armed = false;
        state.parked = true;
        self.signal.notify_all();
        while !state.released {
            state = self.signal.wait(state).unwrap();
        }
    }

    fn note(&self, _point: &'static str, _args: &[u64]) {}
}

impl Runner {
    /// A put that does not wait for the background work (the compaction thread may be parked).
    fn put_no_wait(&mut self, key: &[u8], value: &[u8]) -> bool {
        let result = self.db.as_ref().unwrap().put(
            WriteOptions::default(),
            key.to_vec(),
            value.to_vec(),
        );
        let ok = result.is_ok();
        self.record_write(
            &[(key.to_vec(), Some(value.to_vec()))],
            result,
            &format!("put({})", show_key(key)),
        );
        ok
    }
}

struct ForcedRun {
    violations: Vec<String>,
    injected: Vec<String>,
    calls_after_release: usize,
    layout: String,
    bad_state: Option<String>,
}

fn flush_inside_compaction_run(
    long_keys: bool,
    reuse_log_files: bool,
    fault: Option<(usize, bool, Mode)>,
) -> ForcedRun {
    let config = Config {
        max_memtable_size: 1500,
        max_file_size: 1400,
        max_block_size: 300,
        reuse_log_files,
    };
    let fs = FaultFs::new(SWEEP_ELIGIBLE);
    let mut runner = Runner::new(fs.clone(), &config);
    assert!(runner.open(), "fault free open");

    let handler = ParkHandler::new("compact.step");
    raindb::verif::set_handler(Some(handler.clone()));

    // Fill level 0 until a table compaction starts; it parks at its first key
    let mut generation = 0;
    let start = Instant::now();
    'fill: loop {
        for index in 0..12 {
            generation += 1;
            assert!(
                runner.put_no_wait(&key(index), &value(index, generation % 1000, 110)),
                "fault free put"
            );
            loop {
                if handler.is_parked() {
                    break 'fill;
                }
                let probe = runner.db.as_ref().unwrap().verif_probe();
                if !probe.background_compaction_scheduled && !probe.has_immutable_memtable {
                    break;
                }
                assert!(start.elapsed() < Duration::from_secs(60), "no progress while filling");
                std::thread::sleep(Duration::from_micros(200));
            }
        }
        assert!(generation < 2000, "the table compaction never started");
    }

    // The compaction thread is parked inside `compact_tables`. Rotate the memtable.
    if long_keys {
        // Both keys in one batch so that they end up in the same memtable and become the bounds
        // of the flushed table: its manifest record (about 40 KiB) needs two log fragments
        let mut batch = Batch::new();
        let mut ops = vec![];
        for suffix in [b'a', b'z'] {
            let mut long_key = vec![suffix; 20_000];
            long_key.extend_from_slice(b"-long");
            batch.add_put(long_key.clone(), b"long".to_vec());
            ops.push((long_key, Some(b"long".to_vec())));
        }
        let result = runner
            .db
            .as_ref()
            .unwrap()
            .apply(WriteOptions::default(), batch);
        assert!(result.is_ok(), "fault free batch");
        runner.record_write(&ops, result, "batch of two long keys");
    }
    let mut index = 20;
    while !runner
        .db
        .as_ref()
        .unwrap()
        .verif_probe()
        .has_immutable_memtable
    {
        generation += 1;
        assert!(
            runner.put_no_wait(&key(index), &value(index, generation % 1000, 110)),
            "fault free put"
        );
        index += 1;
        assert!(index < 200, "the memtable was never rotated");
    }

    let calls_before_release = fs.counter();
    if let Some((offset, sticky, mode)) = fault {
        fs.set_rule(Some(Rule {
            at: calls_before_release + offset,
            sticky,
            mode,
            filter: None,
        }));
    }
    handler.release();
    runner.quiesce();
    let calls_after_release = fs.counter() - calls_before_release;
    raindb::verif::set_handler(None);

    let probe = runner.db.as_ref().unwrap().verif_probe();
    let layout = runner
        .db
        .as_ref()
        .unwrap()
        .verif_files()
        .iter()
        .map(|file| format!("L{}:#{}", file.level, file.number))
        .collect::<Vec<_>>()
        .join(" ");
    runner.check_reads(false, "after the compaction");
    for extra in 0..3 {
        generation += 1;
        runner.put(&key(extra), &value(extra, generation % 1000, 90));
    }
    runner.check_reads(false, "after three more writes");
    runner.final_verification();

    ForcedRun {
        violations: runner.violations,
        injected: fs.injected(),
        calls_after_release,
        layout,
        bad_state: probe.bad_state,
    }
}

fn sweep_flush_inside_compaction(long_keys: bool, reuse_log_files: bool) {
    let _serial = serialize_tests();
    let name = format!("flush inside compaction, long_keys={long_keys}, reuse={reuse_log_files}");
    let control = flush_inside_compaction_run(long_keys, reuse_log_files, None);
    assert!(
        control.violations.is_empty(),
        "[{name}] the fault free run violates the oracle: {:#?}",
        control.violations
    );
    println!(
        "[{name}] control: {} calls after the release, layout {}",
        control.calls_after_release, control.layout
    );

    let mut failures = vec![];
    let mut runs = 0;
    for mode in [Mode::NoEffect, Mode::Short, Mode::AfterEffect] {
        for sticky in [false, true] {
            for offset in 0..control.calls_after_release + 3 {
                let result = std::panic::catch_unwind(|| {
                    flush_inside_compaction_run(long_keys, reuse_log_files, Some((offset, sticky, mode)))
                });
                runs += 1;
                match result {
                    Ok(run) => {
                        // A mode that does not apply to the call degenerates to `NoEffect`
                        if !run.violations.is_empty() {
                            failures.push(format!(
                                "offset {offset}, {mode:?}, sticky={sticky}: injected {:?}; sticky \
                                 error {:?}; layout {}\n    {}",
                                run.injected.first(),
                                run.bad_state,
                                run.layout,
                                run.violations.join("\n    ")
                            ));
                        }
                    }
                    Err(panic) => {
                        raindb::verif::set_handler(None);
                        let message = panic
                            .downcast_ref::<String>()
                            .cloned()
                            .or_else(|| panic.downcast_ref::<&str>().map(|s| s.to_string()))
                            .unwrap_or_else(|| "<panic>".to_string());
                        failures.push(format!(
                            "offset {offset}, {mode:?}, sticky={sticky}: PANIC {message}"
                        ));
                    }
                }
            }
        }
    }
    println!("[{name}] {runs} runs, {} violating", failures.len());
    assert!(
        failures.is_empty(),
        "[{name}] {} of {runs} runs violate the property:\n{}",
        failures.len(),
        failures.iter().take(10).cloned().collect::<Vec<_>>().join("\n")
    );
}

#[test]
fn sweep_flush_inside_compaction_short_keys() {
    sweep_flush_inside_compaction(false, true);
}

#[test]
fn sweep_flush_inside_compaction_long_keys() {
    sweep_flush_inside_compaction(true, true);
}

#[test]
fn sweep_flush_inside_compaction_long_keys_no_reuse() {
    sweep_flush_inside_compaction(true, false);
}

/// Run one position of the sequential sweep: `AUDIT_SINGLE=position,mode,sticky,reuse`.
#[test]
#[ignore]
fn debug_single_position() {
    let _serial = serialize_tests();
    let spec = std::env::var("AUDIT_SINGLE").expect("AUDIT_SINGLE=position,mode,sticky,reuse");
    let parts: Vec<&str> = spec.split(',').collect();
    let mode = match parts[1] {
        "noeffect" => Mode::NoEffect,
        "short" => Mode::Short,
        "aftereffect" => Mode::AfterEffect,
        _ => Mode::ShortOk,
    };
    let rule = Rule {
        at: parts[0].parse().unwrap(),
        sticky: parts[2] == "true",
        mode,
        filter: None,
    };
    let config = default_config(parts[3] == "true");
    let (outcome, fs) = run_once(&config, SWEEP_ELIGIBLE, Some(rule), &sequential_workload, true);
    println!("injected (first 5): {:#?}", &outcome.injected[..std::cmp::min(5, outcome.injected.len())]);
    println!("notes: {:#?}", outcome.notes);
    println!("violations: {:#?}", outcome.violations);
    println!("files: {:#?}", fs.file_names());
}

// ------------------------------------------------------------------------------------------------
// Forced schedule: a WAL append fails while a manual compaction is merging tables
// ------------------------------------------------------------------------------------------------

fn wal_fault_during_manual_compaction(mode: Mode, sticky: bool, reuse_log_files: bool) -> Vec<String> {
    let config = default_config(reuse_log_files);
    let fs = FaultFs::new(SWEEP_ELIGIBLE);
    let mut runner = Runner::new(fs.clone(), &config);
    assert!(runner.open(), "fault free open");
    let mut generation = 0;
    for _round in 0..3 {
        for index in 0..14 {
            generation += 1;
            assert!(runner.put(&key(index), &value(index, generation, 100)), "fault free put");
        }
    }

    let handler = ParkHandler::new("compact.step");
    raindb::verif::set_handler(Some(handler.clone()));
    let db = Arc::new(runner.db.take().unwrap());
    let compactor = {
        let db = Arc::clone(&db);
        std::thread::spawn(move || db.compact_range(None..None))
    };
    let start = Instant::now();
    while !handler.is_parked() {
        assert!(
            start.elapsed() < Duration::from_secs(60),
            "the manual compaction never reached its merge loop"
        );
        std::thread::sleep(Duration::from_micros(200));
    }

    // The compaction thread is parked in the middle of the manual compaction: fail a WAL append
    fs.set_rule(Some(Rule {
        at: 0,
        sticky,
        mode,
        filter: Some("write wal".to_string()),
    }));
    generation += 1;
    let failed_value = value(3, generation, 100);
    let result = db.put(WriteOptions::default(), key(3), failed_value.clone());
    let mut violations = vec![];
    if result.is_ok() {
        violations.push("the put whose WAL append failed returned Ok".to_string());
    }
    runner.record_write(&[(key(3), Some(failed_value))], result, "put");
    handler.release();

    let deadline = Instant::now() + Duration::from_secs(60);
    while !compactor.is_finished() {
        if Instant::now() > deadline {
            raindb::verif::set_handler(None);
            panic!("HANG: compact_range did not return within 60 s after the failed WAL append");
        }
        std::thread::sleep(Duration::from_millis(1));
    }
    compactor.join().expect("compact_range panicked");
    raindb::verif::set_handler(None);

    runner.db = Some(Arc::try_unwrap(db).unwrap_or_else(|_| panic!("database still shared")));
    runner.quiesce();
    runner.check_reads(false, "after the manual compaction");
    generation += 1;
    runner.put(&key(4), &value(4, generation, 100));
    runner.final_verification();
    violations.extend(runner.violations);
    violations
}

#[test]
fn wal_faults_during_manual_compaction() {
    let _serial = serialize_tests();
    let mut failures = vec![];
    for reuse in [true, false] {
        for mode in [Mode::NoEffect, Mode::Short, Mode::AfterEffect] {
            for sticky in [false, true] {
                let result = std::panic::catch_unwind(|| {
                    wal_fault_during_manual_compaction(mode, sticky, reuse)
                });
                match result {
                    Ok(violations) if violations.is_empty() => {}
                    Ok(violations) => failures.push(format!(
                        "{mode:?}, sticky={sticky}, reuse={reuse}:\n    {}",
                        violations.join("\n    ")
                    )),
                    Err(panic) => {
                        raindb::verif::set_handler(None);
                        let message = panic
                            .downcast_ref::<String>()
                            .cloned()
                            .or_else(|| panic.downcast_ref::<&str>().map(|s| s.to_string()))
                            .unwrap_or_else(|| "<panic>".to_string());
                        failures.push(format!(
                            "{mode:?}, sticky={sticky}, reuse={reuse}: PANIC {message}"
                        ));
                    }
                }
            }
        }
    }
    assert!(
        failures.is_empty(),
        "a failed WAL append during a manual compaction violates the property:\n{}",
        failures.join("\n")
    );
}


// ------------------------------------------------------------------------------------------------
// Persistent faults of some kinds of calls only ("disk full", "read-only file system")
// ------------------------------------------------------------------------------------------------

/// From the n-th matching call on every matching call fails, all other calls keep working (reads
/// succeed, so an open does not fail at its first call as it does with an all-kinds sticky fault).
fn sweep_persistent_kinds(name: &str, filter: &str, modes: &[Mode], reuse_log_files: bool) {
    let _serial = serialize_tests();
    let config = default_config(reuse_log_files);
    let (outcome, fs) = run_once(&config, SWEEP_ELIGIBLE, None, &sequential_workload, true);
    assert!(outcome.violations.is_empty(), "{:#?}", outcome.violations);
    let matching = fs
        .trace()
        .iter()
        .filter(|description| filter.split('|').any(|alternative| description.contains(alternative)))
        .count();
    println!("[{name}] {matching} matching calls");

    let mut failures = vec![];
    let mut runs = 0;
    for &mode in modes {
        for at in 0..matching {
            let rule = Rule {
                at,
                sticky: true,
                mode,
                filter: Some(filter.to_string()),
            };
            let result = std::panic::catch_unwind(|| {
                run_once(&config, SWEEP_ELIGIBLE, Some(rule), &sequential_workload, false).0
            });
            runs += 1;
            match result {
                Ok(outcome) => {
                    if !outcome.violations.is_empty() {
                        failures.push(format!(
                            "from matching call {at} on, {mode:?}: first injected {:?}\n    notes: \
                             {:?}\n    {}",
                            outcome.injected.first(),
                            outcome.notes,
                            outcome.violations.join("\n    ")
                        ));
                    }
                }
                Err(panic) => {
                    let message = panic
                        .downcast_ref::<String>()
                        .cloned()
                        .or_else(|| panic.downcast_ref::<&str>().map(|s| s.to_string()))
                        .unwrap_or_else(|| "<panic>".to_string());
                    failures.push(format!("from matching call {at} on, {mode:?}: PANIC {message}"));
                }
            }
        }
    }
    println!("[{name}] {runs} runs, {} violating", failures.len());
    assert!(
        failures.is_empty(),
        "[{name}] {} of {runs} runs violate the property:\n{}",
        failures.len(),
        failures.iter().take(10).cloned().collect::<Vec<_>>().join("\n")
    );
}

#[test]
fn sweep_disk_full_reuse() {
    sweep_persistent_kinds(
        "disk full (write/append fail from some point on), reuse",
        "write |append ",
        &[Mode::NoEffect, Mode::Short],
        true,
    );
}

#[test]
fn sweep_disk_full_no_reuse() {
    sweep_persistent_kinds(
        "disk full (write/append fail from some point on), no reuse",
        "write |append ",
        &[Mode::NoEffect, Mode::Short],
        false,
    );
}

#[test]
fn sweep_read_only_file_system() {
    sweep_persistent_kinds(
        "read-only (create/write/append/rename/remove fail from some point on), reuse",
        "create |write |append |rename |remove |mkdir ",
        &[Mode::NoEffect],
        true,
    );
}

#[test]
fn sweep_removes_fail_forever() {
    sweep_persistent_kinds(
        "remove fails from some point on, no reuse",
        "remove ",
        &[Mode::NoEffect],
        false,
    );
}
