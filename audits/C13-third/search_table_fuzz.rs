// Differential search test for C13 (not a deliverable).
// cargo test --offline --features verif --test audit_fuzz --release -- --nocapture
#![cfg(feature = "verif")]

use std::cmp::Ordering;

use raindb::verif::table::{self, Entry, Lookup};
use raindb::{DbOptions, Operation};

struct Rng(u64);
impl Rng {
    fn next(&mut self) -> u64 {
        let mut x = self.0;
        x ^= x << 13;
        x ^= x >> 7;
        x ^= x << 17;
        self.0 = x;
        x.wrapping_mul(0x2545F4914F6CDD1D)
    }
    fn below(&mut self, n: u64) -> u64 {
        if n == 0 {
            0
        } else {
            self.next() % n
        }
    }
    fn chance(&mut self, num: u64, den: u64) -> bool {
        self.below(den) < num
    }
}

fn ikey_cmp(a: (&[u8], u64), b: (&[u8], u64)) -> Ordering {
    match a.0.cmp(b.0) {
        Ordering::Equal => b.1.cmp(&a.1),
        other => other,
    }
}

fn gen_key(rng: &mut Rng, shape: u64, max_len: u64) -> Vec<u8> {
    let alphabet: &[u8] = match shape % 7 {
        0 => &[0x00, 0xff],
        1 => b"ab",
        2 => &[0xfe, 0xff],
        3 => &[0x00, 0x01],
        4 => &[0xff],
        5 => b"abcdefghijklmnopqrstuvwxyz",
        _ => &[],
    };
    let len = rng.below(max_len + 1) as usize;
    let mut key = Vec::with_capacity(len);
    for _ in 0..len {
        if alphabet.is_empty() {
            key.push(rng.below(256) as u8);
        } else {
            key.push(alphabet[rng.below(alphabet.len() as u64) as usize]);
        }
    }
    key
}

fn gen_entries(rng: &mut Rng) -> Vec<Entry> {
    let shape = rng.below(7);
    let max_len = [1u64, 2, 3, 5, 8, 20, 40][rng.below(7) as usize];
    let num_keys = [1u64, 2, 3, 10, 40, 150][rng.below(6) as usize];
    let max_versions = [1u64, 1, 2, 5, 30, 120][rng.below(6) as usize];
    let value_mode = rng.below(6);
    let seq_mode = rng.below(4);
    let prefix: Vec<u8> = if rng.chance(1, 3) {
        gen_key(rng, shape, 30)
    } else {
        vec![]
    };
    let long_key = rng.chance(1, 25);

    let mut keys: Vec<Vec<u8>> = vec![];
    for _ in 0..num_keys {
        let mut k = prefix.clone();
        k.extend(gen_key(rng, shape, max_len));
        keys.push(k);
    }
    if long_key {
        let mut k = vec![0x61u8; 70_000];
        k.extend(gen_key(rng, shape, max_len));
        keys.push(k.clone());
        k.push(0xff);
        keys.push(k);
    }
    if rng.chance(1, 4) {
        keys.push(vec![]);
    }
    keys.sort();
    keys.dedup();

    let mut entries: Vec<Entry> = vec![];
    for k in keys {
        let versions = 1 + rng.below(max_versions);
        let mut seqs: Vec<u64> = (0..versions)
            .map(|_| match seq_mode {
                0 => rng.below(300),
                1 => rng.below(1 << 20),
                2 => rng.next() >> 8,
                _ => {
                    if rng.chance(1, 10) {
                        u64::MAX - rng.below(3)
                    } else if rng.chance(1, 10) {
                        rng.below(2)
                    } else {
                        rng.next()
                    }
                }
            })
            .collect();
        seqs.sort();
        seqs.dedup();
        seqs.reverse();
        for s in seqs {
            let op = if rng.chance(1, 4) {
                Operation::Delete
            } else {
                Operation::Put
            };
            let vlen = match value_mode {
                0 => 0,
                1 => rng.below(4),
                2 => rng.below(100),
                3 => rng.below(3000),
                4 => {
                    if rng.chance(1, 20) {
                        rng.below(200_000)
                    } else {
                        rng.below(10)
                    }
                }
                _ => {
                    if rng.chance(1, 200) {
                        3_000_000 + rng.below(10)
                    } else {
                        rng.below(50)
                    }
                }
            } as usize;
            let value: Vec<u8> = if op == Operation::Delete {
                vec![]
            } else if rng.chance(1, 2) {
                (0..vlen).map(|_| rng.next() as u8).collect()
            } else {
                vec![(s & 0xff) as u8; vlen]
            };
            entries.push((k.clone(), s, op, value));
        }
    }
    entries
}

fn expect_seek(entries: &[Entry], key: &[u8], seq: u64) -> Option<usize> {
    entries
        .iter()
        .position(|e| ikey_cmp((&e.0, e.1), (key, seq)) != Ordering::Less)
}

fn expect_get(entries: &[Entry], key: &[u8], bound: u64) -> Lookup {
    for e in entries {
        if e.0 == key && e.1 <= bound {
            return match e.2 {
                Operation::Put => Lookup::Value(e.3.clone()),
                Operation::Delete => Lookup::Deleted,
            };
        }
    }
    Lookup::NotInFile
}

fn matches(got: &Option<(raindb::verif::KeyInfo, Vec<u8>)>, want: Option<&Entry>) -> bool {
    match (got, want) {
        (None, None) => true,
        (Some((k, v)), Some(e)) => {
            k.user_key == e.0 && k.sequence == e.1 && k.operation == e.2 && v == &e.3
        }
        _ => false,
    }
}

fn mutations(rng: &mut Rng, key: &[u8]) -> Vec<Vec<u8>> {
    let mut out = vec![key.to_vec()];
    let mut k = key.to_vec();
    k.push(0);
    out.push(k);
    let mut k = key.to_vec();
    k.push(0xff);
    out.push(k);
    if !key.is_empty() {
        out.push(key[..key.len() - 1].to_vec());
        let mut k = key.to_vec();
        let last = k.len() - 1;
        k[last] = k[last].wrapping_add(1);
        out.push(k);
        let mut k = key.to_vec();
        k[last] = k[last].wrapping_sub(1);
        out.push(k);
        // successor style: first byte incremented, rest dropped
        let cut = rng.below(key.len() as u64) as usize;
        let mut k = key[..=cut].to_vec();
        k[cut] = k[cut].wrapping_add(1);
        out.push(k);
    }
    out
}

fn run_case(seed: u64, stats: &mut [u64; 4]) -> Result<(), String> {
    let mut rng = Rng(seed.wrapping_mul(0x9E3779B97F4A7C15) | 1);
    let entries = gen_entries(&mut rng);
    if entries.is_empty() {
        return Ok(());
    }
    let block_sizes = [
        0usize, 1, 2, 8, 16, 32, 64, 100, 256, 1024, 4096, 65536, 1 << 30,
    ];
    let bs = block_sizes[rng.below(block_sizes.len() as u64) as usize];
    let mut options = DbOptions::with_memory_env();
    options.db_path = "fz".to_string();
    if std::env::var("FZ_DISK").is_ok() {
        let dir = format!("/tmp/a3/C13/target/fzdisk/{}", seed % 16);
        std::fs::create_dir_all(format!("{dir}/data")).unwrap();
        options.filesystem_provider = std::sync::Arc::new(raindb::fs::OsFileSystem::new());
        options.db_path = dir;
    }
    options.max_block_size = bs;
    if rng.chance(1, 4) {
        options.filter_policy = std::sync::Arc::new(raindb::BloomFilterPolicy::new(
            [0usize, 1, 3, 50, 100][rng.below(5) as usize],
        ));
    }
    let fill_cache = rng.chance(1, 2);
    let ctx = format!(
        "seed {} bs {} n {} fill {}",
        seed,
        bs,
        entries.len(),
        fill_cache
    );

    table::build(&options, 7, &entries).map_err(|e| format!("{ctx}: build: {e}"))?;
    let reader = table::open(&options, 7).map_err(|e| format!("{ctx}: open: {e}"))?;

    // forward
    let mut c = reader.cursor(fill_cache);
    c.seek_to_first().map_err(|e| format!("{ctx}: stf {e}"))?;
    for (i, e) in entries.iter().enumerate() {
        let cur = c.current();
        if !matches(&cur, Some(e)) {
            return Err(format!("{ctx}: forward mismatch at {i}: got {:?}", cur.map(|x| x.0)));
        }
        let nxt = c.next();
        if !matches(&nxt, entries.get(i + 1)) {
            return Err(format!("{ctx}: next() return mismatch at {i}: got {:?}", nxt.map(|x| x.0)));
        }
    }
    if c.is_valid() {
        return Err(format!("{ctx}: valid after end"));
    }
    // backward
    let mut c = reader.cursor(fill_cache);
    c.seek_to_last().map_err(|e| format!("{ctx}: stl {e}"))?;
    for i in (0..entries.len()).rev() {
        let cur = c.current();
        if !matches(&cur, Some(&entries[i])) {
            return Err(format!("{ctx}: backward mismatch at {i}: got {:?}", cur.map(|x| x.0)));
        }
        let prv = c.prev();
        let want = if i == 0 { None } else { Some(&entries[i - 1]) };
        if !matches(&prv, want) {
            return Err(format!("{ctx}: prev() return mismatch at {i}: got {:?}", prv.map(|x| x.0)));
        }
    }
    if c.is_valid() {
        return Err(format!("{ctx}: valid before start"));
    }
    stats[0] += 1;

    // targets
    let mut targets: Vec<(Vec<u8>, u64)> = vec![];
    let stride = 1 + entries.len() / 60;
    for (i, e) in entries.iter().enumerate() {
        if i % stride != 0 && i + 1 != entries.len() && !rng.chance(1, 10) {
            continue;
        }
        for k in mutations(&mut rng, &e.0) {
            if k.len() > 1000 && !rng.chance(1, 3) {
                continue;
            }
            for s in [
                e.1,
                e.1.wrapping_add(1),
                e.1.wrapping_sub(1),
                0,
                u64::MAX,
                u64::MAX - 1,
                rng.next(),
                rng.below(400),
            ] {
                targets.push((k.clone(), s));
            }
        }
    }
    targets.push((vec![], u64::MAX));
    targets.push((vec![], 0));
    targets.push((vec![0xff; 50], 0));

    let mut cursor = reader.cursor(fill_cache);
    for (k, s) in &targets {
        // get
        let got = reader.get(k, *s, fill_cache);
        let want = expect_get(&entries, k, *s);
        if got != want {
            let short = |l: &Lookup| match l {
                Lookup::Value(v) => format!("Value(len {})", v.len()),
                other => format!("{:?}", other),
            };
            return Err(format!(
                "{ctx}: get({:?} len {}, {}) = {} want {}",
                &k[..k.len().min(40)],
                k.len(),
                s,
                short(&got),
                short(&want)
            ));
        }
        stats[1] += 1;

        // seek; alternate between a reused cursor and a fresh one
        let fresh = rng.chance(1, 3);
        let mut fc;
        let cur: &mut table::Cursor = if fresh {
            fc = reader.cursor(fill_cache);
            &mut fc
        } else {
            &mut cursor
        };
        cur.seek(k, *s).map_err(|e| format!("{ctx}: seek {e}"))?;
        let pos = expect_seek(&entries, k, *s);
        let got = cur.current();
        if !matches(&got, pos.map(|p| &entries[p])) {
            return Err(format!(
                "{ctx}: seek({:?} len {}, {}) at {:?} want index {:?}",
                &k[..k.len().min(40)],
                k.len(),
                s,
                got.map(|x| x.0),
                pos
            ));
        }
        stats[2] += 1;
        // random walk from here
        if let Some(mut p) = pos {
            let steps = rng.below(8);
            for _ in 0..steps {
                if rng.chance(1, 2) {
                    let got = cur.next();
                    let want = entries.get(p + 1);
                    if !matches(&got, want) {
                        return Err(format!("{ctx}: walk next from {p}: got {:?}", got.map(|x| x.0)));
                    }
                    if want.is_none() {
                        break;
                    }
                    p += 1;
                } else {
                    let got = cur.prev();
                    let want = if p == 0 { None } else { Some(&entries[p - 1]) };
                    if !matches(&got, want) {
                        return Err(format!("{ctx}: walk prev from {p}: got {:?}", got.map(|x| x.0)));
                    }
                    if want.is_none() {
                        break;
                    }
                    p -= 1;
                }
                stats[3] += 1;
            }
        }
    }
    Ok(())
}

#[test]
fn fuzz() {
    let start: u64 = std::env::var("FZ_START").ok().and_then(|s| s.parse().ok()).unwrap_or(1);
    let count: u64 = std::env::var("FZ_COUNT").ok().and_then(|s| s.parse().ok()).unwrap_or(300);
    let mut stats = [0u64; 4];
    let mut failures = 0;
    for seed in start..start + count {
        let r = std::panic::catch_unwind(std::panic::AssertUnwindSafe(|| {
            let mut st = [0u64; 4];
            let r = run_case(seed, &mut st);
            (r, st)
        }));
        match r {
            Ok((Ok(()), st)) => {
                for i in 0..4 {
                    stats[i] += st[i];
                }
            }
            Ok((Err(e), _)) => {
                failures += 1;
                println!("FAIL {e}");
            }
            Err(p) => {
                failures += 1;
                let msg = p
                    .downcast_ref::<String>()
                    .cloned()
                    .or_else(|| p.downcast_ref::<&str>().map(|s| s.to_string()))
                    .unwrap_or_default();
                println!("PANIC seed {seed}: {msg}");
            }
        }
        if failures > 15 {
            break;
        }
        if (seed - start) % 100 == 99 {
            eprintln!("progress: seeds {}..={} done, tables {} gets {} seeks {} walk {} failures {}", start, seed, stats[0], stats[1], stats[2], stats[3], failures);
        }
    }
    println!(
        "tables {} gets {} seeks {} walk-steps {} failures {}",
        stats[0], stats[1], stats[2], stats[3], failures
    );
    assert_eq!(failures, 0);
}

#[test]
fn concurrent() {
    let rounds: u64 = std::env::var("FZ_CONC").ok().and_then(|s| s.parse().ok()).unwrap_or(20);
    for round in 0..rounds {
        let mut rng = Rng((round + 77).wrapping_mul(0x9E3779B97F4A7C15) | 1);
        let mut entries = vec![];
        while entries.len() < 50 {
            entries = gen_entries(&mut rng);
        }
        let mut options = DbOptions::with_memory_env();
        options.db_path = "fz".to_string();
        options.max_block_size = [1usize, 64, 256, 4096][rng.below(4) as usize];
        table::build(&options, 9, &entries).unwrap();
        let reader = table::open(&options, 9).unwrap();
        let reader2 = table::open(&options, 9).unwrap();
        let entries = &entries;
        let failed = std::sync::atomic::AtomicBool::new(false);
        std::thread::scope(|s| {
            for t in 0..8u64 {
                let reader = if t % 2 == 0 { &reader } else { &reader2 };
                let failed = &failed;
                s.spawn(move || {
                    let mut rng = Rng((round * 100 + t + 5).wrapping_mul(0x9E3779B97F4A7C15) | 1);
                    let mut cur = reader.cursor(true);
                    for _ in 0..3000 {
                        let e = &entries[rng.below(entries.len() as u64) as usize];
                        let ks = mutations(&mut rng, &e.0);
                        let k = &ks[rng.below(ks.len() as u64) as usize];
                        let s = [e.1, e.1.wrapping_add(1), e.1.wrapping_sub(1), u64::MAX, 0][rng.below(5) as usize];
                        let fill = rng.chance(1, 2);
                        let got = reader.get(k, s, fill);
                        if got != expect_get(entries, k, s) {
                            println!("conc get mismatch round {round}");
                            failed.store(true, std::sync::atomic::Ordering::SeqCst);
                            return;
                        }
                        if rng.chance(1, 4) {
                            cur = reader.cursor(fill);
                        }
                        cur.seek(k, s).unwrap();
                        let pos = expect_seek(entries, k, s);
                        if !matches(&cur.current(), pos.map(|p| &entries[p])) {
                            println!("conc seek mismatch round {round}");
                            failed.store(true, std::sync::atomic::Ordering::SeqCst);
                            return;
                        }
                        if let Some(p) = pos {
                            let got = cur.next();
                            if !matches(&got, entries.get(p + 1)) {
                                println!("conc next mismatch round {round}");
                                failed.store(true, std::sync::atomic::Ordering::SeqCst);
                                return;
                            }
                        }
                    }
                });
            }
        });
        assert!(!failed.load(std::sync::atomic::Ordering::SeqCst));
    }
}

mod faultfs {
    use raindb::fs::*;
    use std::io::{self, Read, Seek, SeekFrom};
    use std::path::{Path, PathBuf};
    use std::sync::atomic::{AtomicI64, AtomicU64, Ordering};
    use std::sync::Arc;

    pub struct Ctl {
        pub countdown: AtomicI64, // fail when it reaches 0; negative = disabled
        pub mode: AtomicU64,      // 0 = error, 1 = flip a bit in the returned data
        pub reads: AtomicU64,
    }
    pub struct FaultFs {
        pub inner: InMemoryFileSystem,
        pub ctl: Arc<Ctl>,
    }
    struct FaultFile {
        inner: Box<dyn ReadonlyRandomAccessFile>,
        ctl: Arc<Ctl>,
    }
    impl Read for FaultFile {
        fn read(&mut self, buf: &mut [u8]) -> io::Result<usize> {
            self.inner.read(buf)
        }
    }
    impl Seek for FaultFile {
        fn seek(&mut self, pos: SeekFrom) -> io::Result<u64> {
            self.inner.seek(pos)
        }
    }
    impl ReadonlyRandomAccessFile for FaultFile {
        fn read_from(&self, buf: &mut [u8], offset: usize) -> io::Result<usize> {
            self.ctl.reads.fetch_add(1, Ordering::SeqCst);
            let c = self.ctl.countdown.load(Ordering::SeqCst);
            if c >= 0 {
                self.ctl.countdown.store(c - 1, Ordering::SeqCst);
            }
            if c == 0 {
                if self.ctl.mode.load(Ordering::SeqCst) == 0 {
                    return Err(io::Error::new(io::ErrorKind::Other, "injected"));
                }
                let n = self.inner.read_from(buf, offset)?;
                if !buf.is_empty() {
                    let i = buf.len() / 2;
                    buf[i] ^= 0x10;
                }
                return Ok(n);
            }
            self.inner.read_from(buf, offset)
        }
        fn len(&self) -> io::Result<u64> {
            self.inner.len()
        }
    }
    impl FileSystem for FaultFs {
        fn get_name(&self) -> String {
            "fault".into()
        }
        fn create_dir(&self, p: &Path) -> io::Result<()> {
            self.inner.create_dir(p)
        }
        fn create_dir_all(&self, p: &Path) -> io::Result<()> {
            self.inner.create_dir_all(p)
        }
        fn list_dir(&self, p: &Path) -> io::Result<Vec<PathBuf>> {
            self.inner.list_dir(p)
        }
        fn open_file(&self, p: &Path) -> io::Result<Box<dyn ReadonlyRandomAccessFile>> {
            Ok(Box::new(FaultFile {
                inner: self.inner.open_file(p)?,
                ctl: Arc::clone(&self.ctl),
            }))
        }
        fn rename(&self, a: &Path, b: &Path) -> io::Result<()> {
            self.inner.rename(a, b)
        }
        fn create_file(&self, p: &Path, append: bool) -> io::Result<Box<dyn RandomAccessFile>> {
            self.inner.create_file(p, append)
        }
        fn remove_file(&self, p: &Path) -> io::Result<()> {
            self.inner.remove_file(p)
        }
        fn remove_dir(&self, p: &Path) -> io::Result<()> {
            self.inner.remove_dir(p)
        }
        fn remove_dir_all(&self, p: &Path) -> io::Result<()> {
            self.inner.remove_dir_all(p)
        }
        fn get_file_size(&self, p: &Path) -> io::Result<u64> {
            self.inner.get_file_size(p)
        }
        fn is_dir(&self, p: &Path) -> io::Result<bool> {
            self.inner.is_dir(p)
        }
        fn lock_file(&self, p: &Path) -> io::Result<FileLock> {
            self.inner.lock_file(p)
        }
    }
}

#[test]
fn read_faults() {
    use std::sync::atomic::Ordering::SeqCst;
    let mut checked = 0u64;
    let mut injected = 0u64;
    for round in 0..40u64 {
        let mut rng = Rng((round + 991).wrapping_mul(0x9E3779B97F4A7C15) | 1);
        let mut entries = vec![];
        while entries.len() < 20 || entries.len() > 400 {
            entries = gen_entries(&mut rng);
        }
        let ctl = std::sync::Arc::new(faultfs::Ctl {
            countdown: std::sync::atomic::AtomicI64::new(-1),
            mode: std::sync::atomic::AtomicU64::new(round % 2),
            reads: std::sync::atomic::AtomicU64::new(0),
        });
        let mut options = DbOptions::with_memory_env();
        options.filesystem_provider = std::sync::Arc::new(faultfs::FaultFs {
            inner: raindb::fs::InMemoryFileSystem::new(),
            ctl: std::sync::Arc::clone(&ctl),
        });
        options.db_path = "fz".to_string();
        options.max_block_size = [1usize, 64, 256][rng.below(3) as usize];
        table::build(&options, 3, &entries).unwrap();
        for n in 0..40i64 {
            let fill = n % 2 == 0;
            ctl.countdown.store(n, SeqCst);
            let reader = match table::open(&options, 3) {
                Ok(r) => r,
                Err(_) => {
                    injected += 1;
                    continue;
                }
            };
            // scan forward with the fault pending
            let mut c = reader.cursor(fill);
            let mut i = 0usize;
            let mut ended_by_error = false;
            match c.seek_to_first() {
                Err(_) => ended_by_error = true,
                Ok(()) => {
                    while let Some(cur) = c.current() {
                        assert!(matches(&Some(cur), entries.get(i)), "round {round} n {n}: scan wrong entry at {i}");
                        i += 1;
                        c.next();
                    }
                }
            }
            if i != entries.len() {
                // must be explained by the fault
                assert!(
                    ended_by_error || ctl.countdown.load(SeqCst) < 0,
                    "round {round} n {n}: scan ended early at {i}/{} with no fault consumed",
                    entries.len()
                );
                injected += 1;
            }
            // gets with (possibly) the fault still pending
            for e in entries.iter().step_by(1 + entries.len() / 25) {
                let got = reader.get(&e.0, e.1, fill);
                let want = expect_get(&entries, &e.0, e.1);
                match got {
                    Lookup::Error(_) => injected += 1,
                    g => assert_eq!(g, want, "round {round} n {n}: get wrong under fault"),
                }
                checked += 1;
            }
            // fault gone: everything must be right with the same reader
            ctl.countdown.store(-1, SeqCst);
            let mut c = reader.cursor(fill);
            c.seek_to_first().unwrap();
            for (i, e) in entries.iter().enumerate() {
                assert!(matches(&c.current(), Some(e)), "round {round} n {n}: after-fault scan wrong at {i}");
                c.next();
            }
            assert!(!c.is_valid());
            for e in entries.iter().step_by(1 + entries.len() / 25) {
                assert_eq!(reader.get(&e.0, e.1, fill), expect_get(&entries, &e.0, e.1));
                assert_eq!(reader.get(&e.0, e.1.wrapping_sub(1), fill), expect_get(&entries, &e.0, e.1.wrapping_sub(1)));
                checked += 2;
            }
        }
    }
    println!("read_faults: checked {checked} injected-visible {injected}");
}

fn full_check(name: &str, entries: &[Entry], bs: usize, get_stride: usize) {
    let mut options = DbOptions::with_memory_env();
    options.db_path = "fz".to_string();
    options.max_block_size = bs;
    table::build(&options, 11, entries).unwrap();
    let reader = table::open(&options, 11).unwrap();
    let mut c = reader.cursor(true);
    c.seek_to_first().unwrap();
    for (i, e) in entries.iter().enumerate() {
        assert!(matches(&c.current(), Some(e)), "{name}: fwd {i}");
        c.next();
    }
    assert!(!c.is_valid());
    c.seek_to_last().unwrap();
    for (i, e) in entries.iter().enumerate().rev() {
        assert!(matches(&c.current(), Some(e)), "{name}: bwd {i}");
        c.prev();
    }
    assert!(!c.is_valid());
    for (i, e) in entries.iter().enumerate().step_by(get_stride) {
        for s in [e.1, e.1.wrapping_add(1), e.1.wrapping_sub(1), u64::MAX, 0] {
            // entries are sorted so compute expectations locally (cheap) instead of scanning everything
            let lo = entries[..i].iter().rposition(|x| x.0 != e.0).map(|p| p + 1).unwrap_or(0);
            let hi = entries[i..].iter().position(|x| x.0 != e.0).map(|p| p + i).unwrap_or(entries.len());
            let want = expect_get(&entries[lo..hi], &e.0, s);
            assert_eq!(reader.get(&e.0, s, true), want, "{name}: get at {i} seq {s}");
            c.seek(&e.0, s).unwrap();
            let pos = entries[lo..].iter().position(|x| ikey_cmp((&x.0, x.1), (&e.0, s)) != Ordering::Less).map(|p| p + lo);
            assert!(matches(&c.current(), pos.map(|p| &entries[p])), "{name}: seek at {i} seq {s}");
        }
    }
    println!("{name}: ok ({} entries)", entries.len());
}

#[test]
fn specials() {
    // 1. one empty user key, 60k versions, one entry per block
    let e: Vec<Entry> = (0..60_000u64).rev().map(|s| (vec![], s * 3, if s % 7 == 0 { Operation::Delete } else { Operation::Put }, vec![s as u8; (s % 3) as usize])).collect();
    full_check("empty-key-versions bs1", &e, 1, 97);
    full_check("empty-key-versions bs100", &e, 100, 97);
    // 2. keys of 0xff bytes
    let mut e: Vec<Entry> = vec![];
    for len in 0..300usize {
        for s in (0..(len as u64 % 5 + 1)).rev() {
            e.push((vec![0xff; len], s + 10, Operation::Put, vec![len as u8; len % 40]));
        }
    }
    for bs in [1usize, 16, 200, 4096] {
        full_check("ff-keys", &e, bs, 1);
    }
    // 3. large values
    let mut rng = Rng(12345);
    let big_random: Vec<u8> = (0..20_000_000).map(|_| rng.next() as u8).collect();
    let e: Vec<Entry> = vec![
        (b"a".to_vec(), 9, Operation::Put, vec![7u8; 20_000_000]),
        (b"a".to_vec(), 8, Operation::Put, big_random.clone()),
        (b"a".to_vec(), 7, Operation::Delete, vec![]),
        (b"b".to_vec(), 9, Operation::Put, big_random),
        (b"c".to_vec(), 9, Operation::Put, vec![]),
    ];
    full_check("big-values", &e, 4096, 1);
    full_check("big-values bs1", &e, 1, 1);
    // 4. very long keys differing at the end
    let mut e: Vec<Entry> = vec![];
    for last in [0u8, 1, 0x7f, 0xfe, 0xff] {
        let mut k = vec![0xabu8; 80_000];
        k.push(last);
        for s in [5u64, 4, 1] {
            e.push((k.clone(), s, Operation::Put, vec![last; 10]));
        }
        k.push(0);
        e.push((k, 3, Operation::Delete, vec![]));
    }
    for bs in [1usize, 4096, 1 << 20] {
        full_check("long-keys", &e, bs, 1);
    }
    // 5. dense one/two byte keys, every byte value
    let mut e: Vec<Entry> = vec![];
    for a in 0..=255u8 {
        e.push((vec![a], 2, Operation::Put, vec![a]));
        for b in [0u8, 1, 0x80, 0xfe, 0xff] {
            e.push((vec![a, b], 2, Operation::Put, vec![a, b]));
            e.push((vec![a, b], 1, Operation::Delete, vec![]));
        }
    }
    e.insert(0, (vec![], 1, Operation::Put, vec![]));
    for bs in [1usize, 30, 100, 1000] {
        full_check("dense-bytes", &e, bs, 1);
    }
}
