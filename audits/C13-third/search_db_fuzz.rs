// DB-level differential search (not a deliverable).
// cargo test --offline --features verif --test audit_dbfuzz --release -- --nocapture
use std::collections::BTreeMap;
use std::sync::Arc;

use raindb::fs::{FileSystem, InMemoryFileSystem};
use raindb::{Batch, DbOptions, RainDBError, RainDbIterator, ReadOptions, Snapshot, WriteOptions, DB};

struct Rng(u64);
impl Rng {
    fn next(&mut self) -> u64 {
        let mut x = self.0;
        x ^= x << 13;
        x ^= x >> 7;
        x ^= x << 17;
        self.0 = x;
        x.wrapping_mul(0x2545F4914F6CDD1D)
    }
    fn below(&mut self, n: u64) -> u64 {
        if n == 0 {
            0
        } else {
            self.next() % n
        }
    }
    fn chance(&mut self, num: u64, den: u64) -> bool {
        self.below(den) < num
    }
}

type Model = BTreeMap<Vec<u8>, Vec<u8>>;

fn gen_key(rng: &mut Rng, shape: u64) -> Vec<u8> {
    let alphabet: &[u8] = match shape % 5 {
        0 => &[0x00, 0xff],
        1 => b"ab",
        2 => &[0xfe, 0xff],
        3 => b"abcdefgh",
        _ => &[0xff],
    };
    let len = rng.below(5) as usize;
    let mut k: Vec<u8> = (0..len)
        .map(|_| alphabet[rng.below(alphabet.len() as u64) as usize])
        .collect();
    if rng.chance(1, 200) {
        let mut long = vec![b'a'; 66_000];
        long.extend(k);
        k = long;
    }
    k
}

fn gen_val(rng: &mut Rng, tag: u64) -> Vec<u8> {
    let len = match rng.below(10) {
        0 => 0,
        1..=6 => rng.below(40),
        7 | 8 => rng.below(400),
        _ => rng.below(6000),
    } as usize;
    let mut v = tag.to_le_bytes().to_vec();
    v.truncate(len.min(8));
    if rng.chance(1, 2) {
        v.extend((0..len.saturating_sub(8)).map(|_| rng.next() as u8));
    } else {
        v.extend(std::iter::repeat(tag as u8).take(len.saturating_sub(8)));
    }
    v
}

fn check_view(
    ctx: &str,
    db: &DB,
    model: &Model,
    snap: Option<&Snapshot>,
    rng: &mut Rng,
    shape: u64,
    full: bool,
) -> Result<(), String> {
    let ro = || ReadOptions {
        fill_cache: true,
        snapshot: snap.cloned(),
    };
    // point gets
    for _ in 0..6 {
        let k = if rng.chance(1, 2) && !model.is_empty() {
            let n = rng.below(model.len() as u64) as usize;
            model.keys().nth(n).unwrap().clone()
        } else {
            gen_key(rng, shape)
        };
        let got = db.get(ro(), &k);
        match (got, model.get(&k)) {
            (Ok(v), Some(m)) if &v == m => {}
            (Err(RainDBError::KeyNotFound), None) => {}
            (g, m) => {
                return Err(format!(
                    "{ctx}: get key len {} {:?} => {:?} want {:?}",
                    k.len(),
                    &k[..k.len().min(8)],
                    g.map(|v| v.len()),
                    m.map(|v| v.len())
                ))
            }
        }
    }
    if !full {
        return Ok(());
    }
    let mut it = db.new_iterator(ro()).map_err(|e| format!("{ctx}: iter {e}"))?;
    it.seek_to_first().map_err(|e| format!("{ctx}: stf {e}"))?;
    for (i, (k, v)) in model.iter().enumerate() {
        match it.current() {
            Some((ck, cv)) if ck == k && cv == v => {}
            other => {
                return Err(format!(
                    "{ctx}: forward #{i} want key {:?} got {:?}",
                    &k[..k.len().min(8)],
                    other.map(|(k, _)| k[..k.len().min(8)].to_vec())
                ))
            }
        }
        it.next();
    }
    if it.is_valid() {
        return Err(format!("{ctx}: forward too long"));
    }
    if let Some(e) = it.status() {
        return Err(format!("{ctx}: status {e}"));
    }
    it.seek_to_last().map_err(|e| format!("{ctx}: stl {e}"))?;
    for (i, (k, v)) in model.iter().rev().enumerate() {
        match it.current() {
            Some((ck, cv)) if ck == k && cv == v => {}
            other => {
                return Err(format!(
                    "{ctx}: backward #{i} want key {:?} got {:?}",
                    &k[..k.len().min(8)],
                    other.map(|(k, _)| k[..k.len().min(8)].to_vec())
                ))
            }
        }
        it.prev();
    }
    if it.is_valid() {
        return Err(format!("{ctx}: backward too long"));
    }
    // seeks + walks
    for _ in 0..10 {
        let k = gen_key(rng, shape);
        it.seek(&k).map_err(|e| format!("{ctx}: seek {e}"))?;
        let mut range = model.range(k.clone()..);
        let want = range.next();
        match (it.current(), want) {
            (None, None) => {}
            (Some((ck, cv)), Some((k, v))) if ck == k && cv == v => {}
            (g, w) => {
                return Err(format!(
                    "{ctx}: seek {:?} got {:?} want {:?}",
                    &k[..k.len().min(8)],
                    g.map(|(k, _)| k[..k.len().min(8)].to_vec()),
                    w.map(|(k, _)| k[..k.len().min(8)].to_vec())
                ))
            }
        }
        if let Some((wk, _)) = want {
            // walk: prev then next next
            let mut pos: Vec<(&Vec<u8>, &Vec<u8>)> = model.iter().collect();
            let mut idx = pos.iter().position(|(k, _)| *k == wk).unwrap();
            for _ in 0..rng.below(6) {
                let fwd = rng.chance(1, 2);
                let got = if fwd { it.next() } else { it.prev() }
                    .map(|(k, v)| (k.clone(), v.clone()));
                let want = if fwd {
                    pos.get(idx + 1).cloned()
                } else if idx == 0 {
                    None
                } else {
                    pos.get(idx - 1).cloned()
                };
                match (&got, want) {
                    (None, None) => break,
                    (Some((gk, gv)), Some((k, v))) if gk == k && gv == v => {
                        if fwd {
                            idx += 1
                        } else {
                            idx -= 1
                        }
                    }
                    (g, w) => {
                        return Err(format!(
                            "{ctx}: walk fwd={fwd} from {idx} got {:?} want {:?}",
                            g.as_ref().map(|(k, _)| k[..k.len().min(8)].to_vec()),
                            w.map(|(k, _)| k[..k.len().min(8)].to_vec())
                        ))
                    }
                }
            }
            pos.clear();
        }
    }
    Ok(())
}

fn run_case(seed: u64, ops_total: &mut u64) -> Result<(), String> {
    let mut rng = Rng(seed.wrapping_mul(0x9E3779B97F4A7C15) | 1);
    let fs: Arc<dyn FileSystem> = Arc::new(InMemoryFileSystem::new());
    let shape = rng.below(5);
    let mk_opts = |rng: &mut Rng, fs: &Arc<dyn FileSystem>| {
        let mut o = DbOptions::default();
        o.filesystem_provider = Arc::clone(fs);
        o.db_path = "dbfz".to_string();
        o.create_if_missing = true;
        o.max_memtable_size = [300usize, 1000, 4000, 20000][rng.below(4) as usize];
        o.max_file_size = [200u64, 1000, 5000, 100_000][rng.below(4) as usize];
        o.max_block_size = [1usize, 16, 64, 256, 1024, 4096][rng.below(6) as usize];
        o.reuse_log_files = rng.chance(1, 2);
        o
    };
    let mut opts = mk_opts(&mut rng, &fs);
    let mut db = DB::open(opts.clone()).map_err(|e| format!("seed {seed}: open {e}"))?;
    let mut model: Model = BTreeMap::new();
    let mut snaps: Vec<(Snapshot, Model)> = vec![];
    let nops = 150 + rng.below(500);
    for op in 0..nops {
        *ops_total += 1;
        let ctx = format!(
            "seed {seed} op {op} (mem {} file {} block {})",
            opts.max_memtable_size, opts.max_file_size, opts.max_block_size
        );
        match rng.below(100) {
            0..=44 => {
                let k = gen_key(&mut rng, shape);
                let v = gen_val(&mut rng, op);
                db.put(WriteOptions::default(), k.clone(), v.clone())
                    .map_err(|e| format!("{ctx}: put {e}"))?;
                model.insert(k, v);
            }
            45..=59 => {
                let k = gen_key(&mut rng, shape);
                db.delete(WriteOptions::default(), k.clone())
                    .map_err(|e| format!("{ctx}: delete {e}"))?;
                model.remove(&k);
            }
            60..=66 => {
                let mut b = Batch::new();
                for _ in 0..rng.below(20) {
                    let k = gen_key(&mut rng, shape);
                    if rng.chance(1, 3) {
                        b.add_delete(k.clone());
                        model.remove(&k);
                    } else {
                        let v = gen_val(&mut rng, op);
                        b.add_put(k.clone(), v.clone());
                        model.insert(k, v);
                    }
                }
                db.apply(WriteOptions::default(), b)
                    .map_err(|e| format!("{ctx}: apply {e}"))?;
            }
            67..=71 => {
                if snaps.len() < 4 {
                    snaps.push((db.get_snapshot(), model.clone()));
                }
            }
            72..=74 => {
                if !snaps.is_empty() {
                    let i = rng.below(snaps.len() as u64) as usize;
                    let (s, _) = snaps.remove(i);
                    db.release_snapshot(s);
                }
            }
            75..=79 => {
                let a = gen_key(&mut rng, shape);
                let b = gen_key(&mut rng, shape);
                let (a, b) = if a <= b { (a, b) } else { (b, a) };
                let start = if rng.chance(1, 3) { None } else { Some(a.as_slice()) };
                let end = if rng.chance(1, 3) { None } else { Some(b.as_slice()) };
                db.compact_range(start..end);
            }
            80..=82 => {
                for (s, _) in snaps.drain(..) {
                    db.release_snapshot(s);
                }
                drop(db);
                opts = mk_opts(&mut rng, &fs);
                db = DB::open(opts.clone()).map_err(|e| format!("{ctx}: reopen {e}"))?;
                check_view(&ctx, &db, &model, None, &mut rng, shape, true)?;
            }
            83..=92 => {
                let full = rng.0 % 3 == 0;
                check_view(&ctx, &db, &model, None, &mut rng, shape, full)?;
            }
            _ => {
                if !snaps.is_empty() {
                    let i = rng.below(snaps.len() as u64) as usize;
                    let full = rng.0 % 2 == 0;
                    let (s, m) = &snaps[i];
                    let ctx = format!("{ctx} snap#{i}");
                    check_view(&ctx, &db, m, Some(s), &mut rng, shape, full)?;
                }
            }
        }
    }
    let ctx = format!("seed {seed} final");
    check_view(&ctx, &db, &model, None, &mut rng, shape, true)?;
    for (i, (s, m)) in snaps.iter().enumerate() {
        check_view(&format!("{ctx} snap#{i}"), &db, m, Some(s), &mut rng, shape, true)?;
    }
    for (s, _) in snaps.drain(..) {
        db.release_snapshot(s);
    }
    Ok(())
}

#[test]
fn dbfuzz() {
    let start: u64 = std::env::var("FZ_START").ok().and_then(|s| s.parse().ok()).unwrap_or(1);
    let count: u64 = std::env::var("FZ_COUNT").ok().and_then(|s| s.parse().ok()).unwrap_or(100);
    let mut ops = 0u64;
    let mut failures = 0;
    for seed in start..start + count {
        let r = std::panic::catch_unwind(std::panic::AssertUnwindSafe(|| run_case(seed, &mut ops)));
        match r {
            Ok(Ok(())) => {}
            Ok(Err(e)) => {
                failures += 1;
                println!("FAIL {e}");
            }
            Err(p) => {
                failures += 1;
                let msg = p
                    .downcast_ref::<String>()
                    .cloned()
                    .or_else(|| p.downcast_ref::<&str>().map(|s| s.to_string()))
                    .unwrap_or_default();
                println!("PANIC seed {seed}: {msg}");
            }
        }
        if failures > 10 {
            break;
        }
    }
    println!("cases {count} ops {ops} failures {failures}");
    assert_eq!(failures, 0);
}
