//! Second audit of C09 "Every operation terminates; the background worker never dies".
//!
//! Run with
//!
//!     cargo test --offline --features verif --test audit_demo -- --test-threads=1
//!
//! Both tests FAIL on the unmodified code (dev/test profile). See AUDIT/NOTES.md.

use std::path::Path;
use std::sync::mpsc;
use std::sync::{Arc, Mutex, Once};
use std::time::Duration;

use raindb::fs::{FileSystem, TmpFileSystem};
use raindb::{DbOptions, RainDbIterator, ReadOptions, WriteOptions, DB};

// ---------------------------------------------------------------------------------------------
// Helpers: panic recorder (sees the panics of the compaction thread too) and a watchdog

static PANICS: Mutex<Vec<String>> = Mutex::new(Vec::new());
static HOOK: Once = Once::new();

fn install_panic_recorder() {
    HOOK.call_once(|| {
        std::panic::set_hook(Box::new(move |info| {
            let thread = std::thread::current();
            let message = format!("[thread {}] {}", thread.name().unwrap_or("?"), info);
            eprintln!("{message}");
            if let Ok(mut panics) = PANICS.lock() {
                panics.push(message);
            }
        }));
    });
}

fn take_panics() -> Vec<String> {
    std::mem::take(&mut *PANICS.lock().unwrap())
}

enum Outcome<T> {
    Returned(T),
    Panicked,
    DidNotReturn,
}

fn run_with_timeout<T: Send + 'static>(
    limit: Duration,
    work: impl FnOnce() -> T + Send + 'static,
) -> Outcome<T> {
    let (sender, receiver) = mpsc::channel();
    std::thread::Builder::new()
        .name("caller".to_string())
        .spawn(move || {
            let result = std::panic::catch_unwind(std::panic::AssertUnwindSafe(work));
            let _ = sender.send(result);
        })
        .unwrap();
    match receiver.recv_timeout(limit) {
        Ok(Ok(value)) => Outcome::Returned(value),
        Ok(Err(_)) => Outcome::Panicked,
        Err(_) => Outcome::DidNotReturn,
    }
}

fn options(fs: &Arc<TmpFileSystem>) -> DbOptions {
    let filesystem_provider: Arc<dyn FileSystem> = fs.clone();
    DbOptions {
        db_path: "db".to_string(),
        filesystem_provider,
        create_if_missing: true,
        ..DbOptions::default()
    }
}

fn scratch_fs() -> Arc<TmpFileSystem> {
    // Stay inside the work tree
    let root = Path::new(env!("CARGO_MANIFEST_DIR")).join("target");
    std::fs::create_dir_all(&root).unwrap();
    Arc::new(TmpFileSystem::new(Some(&root)))
}

// ---------------------------------------------------------------------------------------------
// D1: a large `max_file_size` kills the compaction thread at the first flush

/// `DbOptions::max_file_size` is a public `u64` that is used unsanitized. The property demands that
/// every call returns "for every ... configuration" and that the compaction thread never panics.
#[test]
fn put_flush_and_close_must_return_with_a_max_file_size_of_u64_max() {
    install_panic_recorder();
    let fs = scratch_fs();
    let mut opts = options(&fs);
    opts.max_file_size = u64::MAX; // "no limit on the size of a table file"
    opts.max_memtable_size = 4096;

    let outcome = run_with_timeout(Duration::from_secs(30), move || {
        let db = DB::open(opts).expect("open of a new database");
        // ~8 KiB of data: the memtable is rotated and the compaction thread flushes it
        for i in 0..100u32 {
            db.put(
                WriteOptions::default(),
                format!("key{i:04}").into_bytes(),
                vec![b'v'; 80],
            )
            .expect("put on a healthy file system");
        }
        // flushes what is left and compacts
        db.compact_range(None..None);
        let value = db.get(ReadOptions::default(), b"key0007").expect("get");
        drop(db);
        value
    });
    let worker_panics: Vec<String> = take_panics()
        .into_iter()
        .filter(|message| message.contains("raindb-"))
        .collect();

    let mut violations: Vec<String> = vec![];
    if !worker_panics.is_empty() {
        violations.push(format!(
            "the background compaction thread panicked: {worker_panics:?} (required: it never \
            panics or stops)"
        ));
    }
    match outcome {
        Outcome::Returned(value) => assert_eq!(value, vec![b'v'; 80]),
        Outcome::Panicked => violations.push(
            "a public call panicked instead of returning (required: every call returns)"
                .to_string(),
        ),
        Outcome::DidNotReturn => violations.push(
            "100 small puts + compact_range + get + close did not return within 30s on a \
            healthy file system (required: every call returns in bounded time for every \
            configuration)"
                .to_string(),
        ),
    }
    assert!(
        violations.is_empty(),
        "max_file_size = u64::MAX:\n - {}",
        violations.join("\n - ")
    );
}

// ---------------------------------------------------------------------------------------------
// D2: `current()` on an iterator that is not positioned panics instead of returning `None`

/// `RainDbIterator::current` is documented as "Returns a tuple ... if the iterator is valid.
/// Otherwise, returns `None`." and every other implementation in the crate does that.
/// `DatabaseIterator::current` (the only one handed out to clients) asserts instead.
#[test]
fn current_on_an_unpositioned_database_iterator_must_return_none() {
    install_panic_recorder();
    let fs = scratch_fs();
    let opts = options(&fs);

    let outcome = run_with_timeout(Duration::from_secs(30), move || {
        let db = DB::open(opts).expect("open of a new database");
        db.put(WriteOptions::default(), b"a".to_vec(), b"1".to_vec())
            .unwrap();

        let mut observations: Vec<String> = vec![];
        let mut check = |what: &str, step: &mut dyn FnMut() -> bool| {
            let result = std::panic::catch_unwind(std::panic::AssertUnwindSafe(|| step()));
            match result {
                Ok(true) => {}
                Ok(false) => observations.push(format!("{what}: returned Some(..)")),
                Err(_) => observations.push(format!("{what}: panicked")),
            }
        };

        // A new iterator is not positioned yet
        let iter = db.new_iterator(ReadOptions::default()).unwrap();
        assert!(!iter.is_valid());
        check("current() on a new iterator", &mut || iter.current().is_none());

        // An iterator that ran off the end
        let mut iter = db.new_iterator(ReadOptions::default()).unwrap();
        iter.seek_to_first().unwrap();
        assert!(iter.is_valid());
        assert!(iter.next().is_none());
        assert!(!iter.is_valid());
        check("current() after the last entry", &mut || iter.current().is_none());

        // A seek past every key
        let mut iter = db.new_iterator(ReadOptions::default()).unwrap();
        iter.seek(&b"zzz".to_vec()).unwrap();
        assert!(!iter.is_valid());
        check("current() after a seek past the last key", &mut || {
            iter.current().is_none()
        });

        drop(iter);
        drop(db);
        observations
    });
    let panics = take_panics();

    match outcome {
        Outcome::Returned(observations) => assert!(
            observations.is_empty(),
            "iterator steps that did not return what the `RainDbIterator` contract documents \
            (`None` for an iterator that is not valid): {observations:?}; panic messages: \
            {panics:?}"
        ),
        Outcome::Panicked => panic!("the scenario itself panicked: {panics:?}"),
        Outcome::DidNotReturn => panic!("the scenario did not return within 30s"),
    }
}
