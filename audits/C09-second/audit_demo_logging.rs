//! Second audit of C09 "Every operation terminates; the background worker never dies".
//!
//! D3: with a logger installed at `Info` level (or finer), `DB::open` with options whose block cache
//! already holds a few hundred blocks does not return in any reasonable time.
//!
//!     cargo test --offline --features verif --test audit_demo_logging -- --test-threads=1
//!
//! This is in a file of its own because a logger can only be installed once per process.
//! The test FAILS on the unmodified code. See AUDIT/NOTES.md.

use std::path::Path;
use std::sync::mpsc;
use std::sync::Arc;
use std::time::{Duration, Instant};

use raindb::fs::{FileSystem, TmpFileSystem};
use raindb::{DbOptions, ReadOptions, WriteOptions, DB};

/// What every real logger does: format the message. The text is thrown away.
struct FormattingLogger;

impl log::Log for FormattingLogger {
    fn enabled(&self, metadata: &log::Metadata) -> bool {
        metadata.level() <= log::Level::Info
    }

    fn log(&self, record: &log::Record) {
        if self.enabled(record.metadata()) {
            let text = format!("{}", record.args());
            std::hint::black_box(text);
        }
    }

    fn flush(&self) {}
}

static LOGGER: FormattingLogger = FormattingLogger;

enum Outcome<T> {
    Returned(T),
    Panicked,
    DidNotReturn,
}

fn run_with_timeout<T: Send + 'static>(
    limit: Duration,
    work: impl FnOnce() -> T + Send + 'static,
) -> Outcome<T> {
    let (sender, receiver) = mpsc::channel();
    std::thread::Builder::new()
        .name("caller".to_string())
        .spawn(move || {
            let result = std::panic::catch_unwind(std::panic::AssertUnwindSafe(work));
            let _ = sender.send(result);
        })
        .unwrap();
    match receiver.recv_timeout(limit) {
        Ok(Ok(value)) => Outcome::Returned(value),
        Ok(Err(_)) => Outcome::Panicked,
        Err(_) => Outcome::DidNotReturn,
    }
}

/// The application keeps one `DbOptions` value (and with it one block cache, which is the
/// documented way to share a cache) and opens the database a second time with it, e.g. after a
/// close or for a second database. `RUST_LOG=info`-style logging is on.
#[test]
fn reopening_with_a_warm_block_cache_must_return_when_info_logging_is_enabled() {
    log::set_logger(&LOGGER).expect("no other logger in this test binary");
    log::set_max_level(log::LevelFilter::Info);

    // Stay inside the work tree
    let root = Path::new(env!("CARGO_MANIFEST_DIR")).join("target");
    std::fs::create_dir_all(&root).unwrap();
    let fs = Arc::new(TmpFileSystem::new(Some(&root)));
    let filesystem_provider: Arc<dyn FileSystem> = fs.clone();
    let options = DbOptions {
        db_path: "db".to_string(),
        filesystem_provider,
        create_if_missing: true,
        max_block_size: 256,
        ..DbOptions::default()
    };

    const NUM_KEYS: u32 = 400;

    // First life: write 400 entries (~100 KiB), flush them and read them back. The reads leave
    // about 400 small blocks in the block cache (its capacity is 8 Mi entries).
    let first_life_options = options.clone();
    let first_life = run_with_timeout(Duration::from_secs(120), move || {
        let db = DB::open(first_life_options).expect("open of a new database");
        for i in 0..NUM_KEYS {
            db.put(
                WriteOptions::default(),
                format!("key{i:06}").into_bytes(),
                vec![b'v'; 200],
            )
            .unwrap();
        }
        db.compact_range(None..None);
        for i in 0..NUM_KEYS {
            db.get(ReadOptions::default(), format!("key{i:06}").as_bytes())
                .unwrap();
        }
        drop(db);
    });
    assert!(
        matches!(first_life, Outcome::Returned(())),
        "the first life of the database (empty cache) must work"
    );

    // Second life: same options, same (now warm) block cache
    let limit = Duration::from_secs(60);
    let started = Instant::now();
    let second_life_options = options.clone();
    let second_life = run_with_timeout(limit, move || {
        let db = DB::open(second_life_options).expect("reopen");
        let value = db.get(ReadOptions::default(), b"key000007").unwrap();
        drop(db);
        value
    });
    match second_life {
        Outcome::Returned(value) => {
            assert_eq!(value, vec![b'v'; 200]);
            println!("reopen + get + close took {:?}", started.elapsed());
        }
        Outcome::Panicked => panic!("reopen panicked"),
        Outcome::DidNotReturn => panic!(
            "DB::open of a 100 KiB database did not return within {limit:?} (the first open took \
            milliseconds). Observed: the calling thread is busy formatting the log message of \
            db.rs:236 (`{{:#?}}` of the options, i.e. of every block in the shared block cache, \
            with a cost that grows like the 3rd-4th power of the number of cached blocks). \
            Required: open returns in bounded time for every configuration as long as the file \
            system makes progress."
        ),
    }
}
