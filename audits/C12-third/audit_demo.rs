// OBSERVATION, NOT CLAIMED AS A C12 FINDING (see NOTES.md, section "Observation O1").
//
// Run (from the worktree root, unmodified tree):
//   cargo test --offline --features verif --test audit_demo --release -- --nocapture
//
// A `ReadonlyRandomAccessFile` whose `Read::read` returns fewer bytes than asked for although the
// file has more (which the contract of `std::io::Read` allows; here: at most 4096 bytes per call)
// makes `LogReader` report a clean end of file at the first fragment whose payload is longer than
// one read: every record from there on is dropped without any error. Deterministic.
#![cfg(feature = "verif")]

use std::collections::HashMap;
use std::io::{self, Read, Seek, SeekFrom, Write};
use std::path::{Path, PathBuf};
use std::sync::{Arc, Mutex};

use raindb::fs::{FileLock, FileSystem, RandomAccessFile, ReadonlyRandomAccessFile};
use raindb::verif::log::{Reader, Writer};
use raindb::verif::UnlockableFile;

type Data = Arc<Mutex<Vec<u8>>>;

/// Largest number of bytes one `read` call hands out.
const MAX_READ: usize = 4096;

#[derive(Default)]
struct ShortReadFs {
    files: Mutex<HashMap<PathBuf, Data>>,
}
struct Handle {
    data: Data,
    cursor: usize,
}
impl Read for Handle {
    fn read(&mut self, buf: &mut [u8]) -> io::Result<usize> {
        let d = self.data.lock().unwrap();
        if self.cursor >= d.len() {
            return Ok(0);
        }
        let n = buf.len().min(d.len() - self.cursor).min(MAX_READ);
        buf[..n].copy_from_slice(&d[self.cursor..self.cursor + n]);
        self.cursor += n;
        Ok(n)
    }
}
impl Seek for Handle {
    fn seek(&mut self, pos: SeekFrom) -> io::Result<u64> {
        let len = self.data.lock().unwrap().len() as i64;
        let new = match pos {
            SeekFrom::Start(o) => o as i64,
            SeekFrom::Current(o) => self.cursor as i64 + o,
            SeekFrom::End(o) => len + o,
        };
        self.cursor = new.max(0) as usize;
        Ok(self.cursor as u64)
    }
}
impl Write for Handle {
    fn write(&mut self, buf: &[u8]) -> io::Result<usize> {
        let mut d = self.data.lock().unwrap();
        d.extend_from_slice(buf); // log files are only ever appended to
        self.cursor = d.len();
        Ok(buf.len())
    }
    fn flush(&mut self) -> io::Result<()> {
        Ok(())
    }
}
impl ReadonlyRandomAccessFile for Handle {
    fn read_from(&self, buf: &mut [u8], offset: usize) -> io::Result<usize> {
        let d = self.data.lock().unwrap();
        if offset >= d.len() {
            return Ok(0);
        }
        let n = buf.len().min(d.len() - offset);
        buf[..n].copy_from_slice(&d[offset..offset + n]);
        Ok(n)
    }
    fn len(&self) -> io::Result<u64> {
        Ok(self.data.lock().unwrap().len() as u64)
    }
}
impl RandomAccessFile for Handle {
    fn append(&mut self, buf: &[u8]) -> io::Result<usize> {
        self.data.lock().unwrap().extend_from_slice(buf);
        Ok(buf.len())
    }
}
struct NoLock;
impl UnlockableFile for NoLock {
    fn unlock(&self) -> io::Result<()> {
        Ok(())
    }
}
fn not_found() -> io::Error {
    io::Error::new(io::ErrorKind::NotFound, "no such file")
}
impl FileSystem for ShortReadFs {
    fn get_name(&self) -> String {
        "ShortReadFs".into()
    }
    fn create_dir(&self, _: &Path) -> io::Result<()> {
        Ok(())
    }
    fn create_dir_all(&self, _: &Path) -> io::Result<()> {
        Ok(())
    }
    fn list_dir(&self, path: &Path) -> io::Result<Vec<PathBuf>> {
        let mut v: Vec<PathBuf> = self
            .files
            .lock()
            .unwrap()
            .keys()
            .filter(|k| k.parent() == Some(path))
            .cloned()
            .collect();
        v.sort();
        Ok(v)
    }
    fn open_file(&self, path: &Path) -> io::Result<Box<dyn ReadonlyRandomAccessFile>> {
        let d = self.files.lock().unwrap().get(path).cloned().ok_or_else(not_found)?;
        Ok(Box::new(Handle { data: d, cursor: 0 }))
    }
    fn rename(&self, from: &Path, to: &Path) -> io::Result<()> {
        let mut f = self.files.lock().unwrap();
        let d = f.remove(from).ok_or_else(not_found)?;
        f.insert(to.to_path_buf(), d);
        Ok(())
    }
    fn create_file(&self, path: &Path, append: bool) -> io::Result<Box<dyn RandomAccessFile>> {
        let mut f = self.files.lock().unwrap();
        if !append || !f.contains_key(path) {
            f.insert(path.to_path_buf(), Arc::new(Mutex::new(vec![])));
        }
        let d = f.get(path).unwrap().clone();
        let cursor = d.lock().unwrap().len();
        Ok(Box::new(Handle { data: d, cursor }))
    }
    fn remove_file(&self, path: &Path) -> io::Result<()> {
        self.files.lock().unwrap().remove(path).map(|_| ()).ok_or_else(not_found)
    }
    fn remove_dir(&self, _: &Path) -> io::Result<()> {
        Ok(())
    }
    fn remove_dir_all(&self, path: &Path) -> io::Result<()> {
        self.files.lock().unwrap().retain(|k, _| !k.starts_with(path));
        Ok(())
    }
    fn get_file_size(&self, path: &Path) -> io::Result<u64> {
        let f = self.files.lock().unwrap();
        let d = f.get(path).cloned().ok_or_else(not_found)?;
        let len = d.lock().unwrap().len() as u64;
        Ok(len)
    }
    fn is_dir(&self, path: &Path) -> io::Result<bool> {
        Ok(self.files.lock().unwrap().keys().any(|k| k.starts_with(path) && k != path))
    }
    fn lock_file(&self, _: &Path) -> io::Result<FileLock> {
        Ok(FileLock::new(Box::new(NoLock)))
    }
}

#[test]
fn log_reader_takes_a_short_read_for_the_end_of_the_file() {
    let fs: Arc<dyn FileSystem> = Arc::new(ShortReadFs::default());
    let path = Path::new("/db/wal/wal-1.log");
    let appended: Vec<Vec<u8>> = vec![vec![1u8; 100], vec![2u8; 5000], vec![3u8; 100]];

    let mut writer = Writer::new(Arc::clone(&fs), path, false).unwrap();
    for record in &appended {
        writer.append(record).unwrap();
    }
    drop(writer);

    let mut reader = Reader::new(Arc::clone(&fs), path).unwrap();
    let mut read_back: Vec<Vec<u8>> = vec![];
    loop {
        let (record, is_eof) = reader.read_record().expect("no error is reported either");
        if is_eof {
            break;
        }
        read_back.push(record);
    }

    assert_eq!(
        read_back.iter().map(|r| r.len()).collect::<Vec<_>>(),
        appended.iter().map(|r| r.len()).collect::<Vec<_>>(),
        "the reader reported a clean end of file after {} of {} records",
        read_back.len(),
        appended.len()
    );
    assert!(read_back == appended);
}
