// cargo test --offline --features verif --test audit_db --release -- --nocapture
#![cfg(feature = "verif")]
mod common;
use common::MemFs;
use raindb::fs::FileSystem;
use raindb::{DbOptions, ReadOptions, WriteOptions, DB};
use std::collections::BTreeMap;
use std::path::PathBuf;
use std::sync::Arc;

const BLOCK: usize = 32768;

struct Rng(u64);
impl Rng {
    fn next(&mut self) -> u64 {
        self.0 ^= self.0 << 13;
        self.0 ^= self.0 >> 7;
        self.0 ^= self.0 << 17;
        self.0
    }
    fn below(&mut self, n: u64) -> u64 {
        self.next() % n
    }
}

fn opts(fs: &Arc<MemFs>, reuse: bool) -> DbOptions {
    let dynfs: Arc<dyn FileSystem> = fs.clone();
    DbOptions {
        db_path: "/db".to_string(),
        max_memtable_size: 64 * 1024 * 1024,
        filesystem_provider: dynfs,
        create_if_missing: true,
        reuse_log_files: reuse,
        ..DbOptions::default()
    }
}

fn val(id: u64, len: usize) -> Vec<u8> {
    let mut v = Vec::with_capacity(len);
    let mut x = id.wrapping_mul(0x9E3779B97F4A7C15) | 1;
    for _ in 0..len {
        x ^= x << 13;
        x ^= x >> 7;
        x ^= x << 17;
        v.push((x >> 24) as u8);
    }
    v
}

fn wal_files(fs: &MemFs) -> Vec<PathBuf> {
    fs.names()
        .into_iter()
        .filter(|p| p.to_str().unwrap().contains("/wal/"))
        .collect()
}

fn check(db: &DB, model: &BTreeMap<Vec<u8>, Vec<u8>>, all_keys: &[Vec<u8>], ctx: &str) {
    for k in all_keys {
        let got = db.get(ReadOptions::default(), k);
        match (got, model.get(k)) {
            (Ok(v), Some(m)) => assert!(&v == m, "{ctx}: key {:?} wrong value (len {} vs {})", String::from_utf8_lossy(k), v.len(), m.len()),
            (Err(raindb::RainDBError::KeyNotFound), None) => {}
            (Ok(v), None) => panic!("{ctx}: key {:?} should be absent, got len {}", String::from_utf8_lossy(k), v.len()),
            (Err(e), m) => panic!("{ctx}: key {:?} error {e}, model has {:?}", String::from_utf8_lossy(k), m.map(|x| x.len())),
        }
    }
}

fn size_near(rng: &mut Rng, off: usize) -> usize {
    // choose a value length so that the WAL record ends near a block boundary, or spans blocks
    let rem = BLOCK - off % BLOCK;
    match rng.below(6) {
        0 => rng.below(100) as usize,
        1 | 2 => {
            let t = rng.below(20) as usize;
            // record = 7 hdr + 12 + 1 + klen(1) + 6 key + vlen varint(1..3) + value
            (rem as i64 - 7 - 12 - 1 - 1 - 6 - 3 - t as i64 + 8).max(0) as usize
        }
        3 => rem + rng.below(3 * BLOCK as u64) as usize,
        4 => rng.below(40000) as usize,
        _ => rng.below(3000) as usize,
    }
}

#[test]
fn torn_wal_reuse_sweep() {
    let mut opens = 0usize;
    for seed in 1..=40u64 {
        let mut rng = Rng(seed.wrapping_mul(0x2545F4914F6CDD1D) | 1);
        let reuse = true;
        let fs = Arc::new(MemFs::default());
        let mut all_keys: Vec<Vec<u8>> = vec![];
        let mut ends: Vec<(usize, Vec<u8>, Option<Vec<u8>>)> = vec![];
        let wal;
        {
            let db = DB::open(opts(&fs, reuse)).unwrap();
            let w = wal_files(&fs);
            assert_eq!(w.len(), 1, "{w:?}");
            wal = w[0].clone();
            let n = 3 + rng.below(6);
            for i in 0..n {
                let k = format!("k{:05}", rng.below(6)).into_bytes();
                let off = fs.get(&wal).len();
                if rng.below(5) == 0 {
                    db.delete(WriteOptions::default(), k.clone()).unwrap();
                    ends.push((fs.get(&wal).len(), k.clone(), None));
                } else {
                    let v = val(seed * 1000 + i, size_near(&mut rng, off));
                    db.put(WriteOptions::default(), k.clone(), v.clone()).unwrap();
                    ends.push((fs.get(&wal).len(), k.clone(), Some(v)));
                }
                if !all_keys.contains(&k) {
                    all_keys.push(k);
                }
            }
        }
        let snap = fs.snapshot();
        let full = snap.get(&wal).unwrap().clone();
        let mut cuts: Vec<usize> = vec![];
        let mut prev = 0usize;
        for (e, _, _) in &ends {
            for d in 0..=9usize {
                cuts.push(prev + d);
                cuts.push(e.saturating_sub(d));
            }
            // block boundaries inside the record
            let mut b = (prev / BLOCK + 1) * BLOCK;
            while b < *e {
                for d in 0..=8usize {
                    cuts.push(b + d);
                    cuts.push(b - d);
                }
                b += BLOCK;
            }
            cuts.push(prev + (e - prev) / 2);
            prev = *e;
        }
        cuts.retain(|c| *c <= full.len());
        cuts.sort();
        cuts.dedup();
        for &cut in &cuts {
            let mut s2 = snap.clone();
            s2.insert(wal.clone(), full[..cut].to_vec());
            fs.restore(&s2);
            let mut model: BTreeMap<Vec<u8>, Vec<u8>> = BTreeMap::new();
            for (e, k, v) in &ends {
                if *e <= cut {
                    match v {
                        Some(v) => {
                            model.insert(k.clone(), v.clone());
                        }
                        None => {
                            model.remove(k);
                        }
                    }
                }
            }
            let ctx = format!("seed {seed} cut {cut}/{}", full.len());
            // session 2
            {
                let db = DB::open(opts(&fs, reuse)).unwrap_or_else(|e| panic!("{ctx}: open {e}"));
                opens += 1;
                check(&db, &model, &all_keys, &format!("{ctx} s2"));
                let m = 1 + rng.below(3);
                for j in 0..m {
                    let k = format!("k{:05}", rng.below(6)).into_bytes();
                    let wl: usize = wal_files(&fs).iter().map(|p| fs.get(p).len()).max().unwrap_or(0);
                    let v = val(777 + j, size_near(&mut rng, wl));
                    db.put(WriteOptions::default(), k.clone(), v.clone()).unwrap();
                    model.insert(k.clone(), v);
                    if !all_keys.contains(&k) {
                        all_keys.push(k);
                    }
                }
                check(&db, &model, &all_keys, &format!("{ctx} s2 after writes"));
            }
            // session 3
            {
                let db = DB::open(opts(&fs, reuse)).unwrap_or_else(|e| panic!("{ctx}: open3 {e}"));
                opens += 1;
                check(&db, &model, &all_keys, &format!("{ctx} s3"));
                let k = b"k00000".to_vec();
                let v = val(5, 10);
                db.put(WriteOptions::default(), k.clone(), v.clone()).unwrap();
                model.insert(k, v);
            }
            {
                let db = DB::open(opts(&fs, reuse)).unwrap_or_else(|e| panic!("{ctx}: open4 {e}"));
                opens += 1;
                check(&db, &model, &all_keys, &format!("{ctx} s4"));
            }
        }
    }
    println!("torn_wal_reuse_sweep: {opens} opens");
}
