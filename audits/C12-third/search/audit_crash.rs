// cargo test --offline --features verif --test audit_crash --release -- --nocapture
#![cfg(feature = "verif")]
mod common;
use common::MemFs;
use raindb::fs::{FileLock, FileSystem, RandomAccessFile, ReadonlyRandomAccessFile};
use raindb::{DbOptions, ReadOptions, WriteOptions, DB};
use std::collections::BTreeMap;
use std::io::{self, Read, Seek, SeekFrom, Write};
use std::path::{Path, PathBuf};
use std::sync::atomic::{AtomicBool, AtomicI64, AtomicU64, Ordering};
use std::sync::Arc;

struct Ctl {
    budget: AtomicI64, // number of write calls allowed; i64::MAX = unlimited
    dead: AtomicBool,
    mode: AtomicU64, // 0: drop the fatal write entirely, 1: write half, 2: write all then die
    writes: AtomicU64,
    only: std::sync::Mutex<Option<String>>, // count only writes to paths containing this
}
struct CrashFs {
    inner: Arc<MemFs>,
    ctl: Arc<Ctl>,
}
struct CH {
    inner: Box<dyn RandomAccessFile>,
    ctl: Arc<Ctl>,
    counted: bool,
}
fn dead_err() -> io::Error {
    io::Error::new(io::ErrorKind::Other, "crashed")
}
impl Read for CH {
    fn read(&mut self, b: &mut [u8]) -> io::Result<usize> {
        self.inner.read(b)
    }
}
impl Seek for CH {
    fn seek(&mut self, p: SeekFrom) -> io::Result<u64> {
        self.inner.seek(p)
    }
}
impl CH {
    fn gate(&mut self, buf: &[u8]) -> io::Result<Option<usize>> {
        if self.ctl.dead.load(Ordering::SeqCst) {
            return Err(dead_err());
        }
        if !self.counted {
            return Ok(None);
        }
        self.ctl.writes.fetch_add(1, Ordering::SeqCst);
        let left = self.ctl.budget.fetch_sub(1, Ordering::SeqCst);
        if left <= 0 {
            self.ctl.dead.store(true, Ordering::SeqCst);
            let n = match self.ctl.mode.load(Ordering::SeqCst) {
                0 => 0,
                1 => buf.len() / 2,
                _ => buf.len(),
            };
            return Ok(Some(n));
        }
        Ok(None)
    }
}
impl Write for CH {
    fn write(&mut self, buf: &[u8]) -> io::Result<usize> {
        match self.gate(buf)? {
            None => self.inner.write(buf),
            Some(n) => {
                if n > 0 {
                    self.inner.write_all(&buf[..n])?;
                }
                Err(dead_err())
            }
        }
    }
    fn flush(&mut self) -> io::Result<()> {
        if self.ctl.dead.load(Ordering::SeqCst) {
            return Err(dead_err());
        }
        Ok(())
    }
}
impl ReadonlyRandomAccessFile for CH {
    fn read_from(&self, buf: &mut [u8], offset: usize) -> io::Result<usize> {
        self.inner.read_from(buf, offset)
    }
    fn len(&self) -> io::Result<u64> {
        self.inner.len()
    }
}
impl RandomAccessFile for CH {
    fn append(&mut self, buf: &[u8]) -> io::Result<usize> {
        match self.gate(buf)? {
            None => self.inner.append(buf),
            Some(n) => {
                if n > 0 {
                    self.inner.append(&buf[..n])?;
                }
                Err(dead_err())
            }
        }
    }
}
impl CrashFs {
    fn chk(&self) -> io::Result<()> {
        if self.ctl.dead.load(Ordering::SeqCst) {
            Err(dead_err())
        } else {
            Ok(())
        }
    }
}
impl FileSystem for CrashFs {
    fn get_name(&self) -> String {
        "CrashFs".into()
    }
    fn create_dir(&self, p: &Path) -> io::Result<()> {
        self.chk()?;
        self.inner.create_dir(p)
    }
    fn create_dir_all(&self, p: &Path) -> io::Result<()> {
        self.chk()?;
        self.inner.create_dir_all(p)
    }
    fn list_dir(&self, p: &Path) -> io::Result<Vec<PathBuf>> {
        self.chk()?;
        self.inner.list_dir(p)
    }
    fn open_file(&self, p: &Path) -> io::Result<Box<dyn ReadonlyRandomAccessFile>> {
        self.chk()?;
        self.inner.open_file(p)
    }
    fn rename(&self, a: &Path, b: &Path) -> io::Result<()> {
        self.chk()?;
        self.inner.rename(a, b)
    }
    fn create_file(&self, p: &Path, append: bool) -> io::Result<Box<dyn RandomAccessFile>> {
        self.chk()?;
        let counted = match &*self.ctl.only.lock().unwrap() {
            Some(s) => p.to_str().unwrap().contains(s.as_str()),
            None => true,
        };
        Ok(Box::new(CH {
            inner: self.inner.create_file(p, append)?,
            ctl: self.ctl.clone(),
            counted,
        }))
    }
    fn remove_file(&self, p: &Path) -> io::Result<()> {
        self.chk()?;
        self.inner.remove_file(p)
    }
    fn remove_dir(&self, p: &Path) -> io::Result<()> {
        self.chk()?;
        self.inner.remove_dir(p)
    }
    fn remove_dir_all(&self, p: &Path) -> io::Result<()> {
        self.chk()?;
        self.inner.remove_dir_all(p)
    }
    fn get_file_size(&self, p: &Path) -> io::Result<u64> {
        self.chk()?;
        self.inner.get_file_size(p)
    }
    fn is_dir(&self, p: &Path) -> io::Result<bool> {
        self.chk()?;
        self.inner.is_dir(p)
    }
    fn lock_file(&self, p: &Path) -> io::Result<FileLock> {
        self.chk()?;
        self.inner.lock_file(p)
    }
}

struct Rng(u64);
impl Rng {
    fn next(&mut self) -> u64 {
        self.0 ^= self.0 << 13;
        self.0 ^= self.0 >> 7;
        self.0 ^= self.0 << 17;
        self.0
    }
    fn below(&mut self, n: u64) -> u64 {
        self.next() % n
    }
}

fn opts(fs: &Arc<CrashFs>) -> DbOptions {
    let dynfs: Arc<dyn FileSystem> = fs.clone();
    DbOptions {
        db_path: "/db".to_string(),
        max_memtable_size: 120 * 1024,
        max_file_size: 256 * 1024,
        filesystem_provider: dynfs,
        create_if_missing: true,
        reuse_log_files: true,
        ..DbOptions::default()
    }
}

fn key(i: u64) -> Vec<u8> {
    // long keys so that manifest records span several 32 KiB blocks
    let mut k = format!("key{:03}-", i).into_bytes();
    k.resize(40_000 + (i as usize % 7) * 1111, b'a' + (i % 26) as u8);
    k
}
fn val(id: u64, len: usize) -> Vec<u8> {
    let mut v = Vec::with_capacity(len);
    let mut x = id.wrapping_mul(0x9E3779B97F4A7C15) | 1;
    for _ in 0..len {
        x ^= x << 13;
        x ^= x >> 7;
        x ^= x << 17;
        v.push((x >> 24) as u8);
    }
    v
}

const NKEYS: u64 = 8;

/// Runs a workload until the fs dies or the workload ends. Returns (model of acknowledged, inflight)
fn workload(
    fs: &Arc<CrashFs>,
    seed: u64,
    model: &mut BTreeMap<Vec<u8>, Option<Vec<u8>>>,
    nops: u64,
) -> Option<(Vec<u8>, Option<Vec<u8>>)> {
    let mut rng = Rng(seed | 1);
    let db = match DB::open(opts(fs)) {
        Ok(db) => db,
        Err(_) => return None,
    };
    for i in 0..nops {
        let k = key(rng.below(NKEYS));
        if rng.below(6) == 0 {
            match db.delete(WriteOptions::default(), k.clone()) {
                Ok(()) => {
                    model.insert(k, None);
                }
                Err(_) => return Some((k, None)),
            }
        } else {
            let v = val(seed.wrapping_add(i), rng.below(3000) as usize);
            match db.put(WriteOptions::default(), k.clone(), v.clone()) {
                Ok(()) => {
                    model.insert(k, Some(v));
                }
                Err(_) => return Some((k, Some(v))),
            }
        }
    }
    None
}

fn verify(
    fs: &Arc<CrashFs>,
    model: &mut BTreeMap<Vec<u8>, Option<Vec<u8>>>,
    inflight: &Option<(Vec<u8>, Option<Vec<u8>>)>,
    ctx: &str,
) {
    let db = DB::open(opts(fs)).unwrap_or_else(|e| panic!("{ctx}: reopen failed: {e}; files {:?}", fs.inner.names()));
    for i in 0..NKEYS {
        let k = key(i);
        let got = match db.get(ReadOptions::default(), &k) {
            Ok(v) => Some(v),
            Err(raindb::RainDBError::KeyNotFound) => None,
            Err(e) => panic!("{ctx}: get key {i} error {e}"),
        };
        let want = model.get(&k).cloned().unwrap_or(None);
        if got == want {
            continue;
        }
        if let Some((ik, iv)) = inflight {
            if ik == &k && &got == iv {
                model.insert(k.clone(), got.clone());
                continue;
            }
        }
        panic!(
            "{ctx}: key {i}: got {:?} want {:?}",
            got.as_ref().map(|v| v.len()),
            want.as_ref().map(|v| v.len())
        );
    }
}

#[test]
fn crash_sweep_long_keys() {
    let mut runs = 0usize;
    for (only, modes) in [(Some("MANIFEST"), vec![0u64, 1, 2]), (Some("/wal/"), vec![0u64, 1, 2]), (None, vec![0u64, 1, 2])] {
        // calibrate
        let mk = || {
            Arc::new(CrashFs {
                inner: Arc::new(MemFs::default()),
                ctl: Arc::new(Ctl {
                    budget: AtomicI64::new(i64::MAX),
                    dead: AtomicBool::new(false),
                    mode: AtomicU64::new(0),
                    writes: AtomicU64::new(0),
                    only: std::sync::Mutex::new(only.map(|s| s.to_string())),
                }),
            })
        };
        let fs = mk();
        let mut m = BTreeMap::new();
        workload(&fs, 42, &mut m, 30);
        let total = fs.ctl.writes.load(Ordering::SeqCst);
        println!("only={only:?}: {total} counted write calls in the base run");
        let step = if only.is_none() { 7 } else { 1 };
        for mode in modes {
            let mut b = 0u64;
            while b < total + 2 {
                let fs = mk();
                fs.ctl.mode.store(mode, Ordering::SeqCst);
                fs.ctl.budget.store(b as i64, Ordering::SeqCst);
                let mut model = BTreeMap::new();
                let inflight = workload(&fs, 42, &mut model, 30);
                // "restart"
                fs.ctl.dead.store(false, Ordering::SeqCst);
                fs.ctl.budget.store(i64::MAX, Ordering::SeqCst);
                let ctx = format!("only {only:?} mode {mode} budget {b}");
                verify(&fs, &mut model, &inflight, &ctx);
                // second session, then clean reopen
                let inflight2 = workload(&fs, 4242 + b, &mut model, 6);
                assert!(inflight2.is_none(), "{ctx}: second session write failed");
                verify(&fs, &mut model, &None, &format!("{ctx} after s2"));
                runs += 1;
                b += step;
            }
        }
    }
    println!("crash_sweep_long_keys: {runs} crash points");
}
