// cargo test --offline --features verif --test audit_search --release -- --nocapture
#![cfg(feature = "verif")]

mod common;
use common::MemFs;
use std::path::Path;
use std::sync::Arc;
use raindb::fs::FileSystem;
use raindb::verif::log::{Reader, Writer};

const BLOCK: usize = 32768;
const HDR: usize = 7;

struct Rng(u64);
impl Rng {
    fn next(&mut self) -> u64 {
        self.0 ^= self.0 << 13;
        self.0 ^= self.0 >> 7;
        self.0 ^= self.0 << 17;
        self.0
    }
    fn below(&mut self, n: u64) -> u64 {
        self.next() % n
    }
}

fn payload(id: usize, len: usize) -> Vec<u8> {
    let mut v = Vec::with_capacity(len);
    let mut x = (id as u64).wrapping_mul(0x9E3779B97F4A7C15) | 1;
    for _ in 0..len {
        x ^= x << 13;
        x ^= x >> 7;
        x ^= x << 17;
        v.push((x >> 24) as u8);
    }
    v
}

/// Independent model of the layout: returns for each record the list of fragment end offsets
/// (file offsets after each fragment) and the start offset of each fragment.
fn model_layout(start: usize, len: usize) -> (Vec<(usize, usize)>, usize) {
    // returns fragments (frag_start_offset (of header), frag_end_offset), final file offset
    let mut off = start;
    let mut left = len;
    let mut frags = vec![];
    loop {
        let avail = BLOCK - off % BLOCK;
        if avail < HDR {
            off += avail;
        }
        let avail = BLOCK - off % BLOCK - HDR;
        let n = std::cmp::min(avail, left);
        frags.push((off, off + HDR + n));
        off += HDR + n;
        left -= n;
        if left == 0 {
            break;
        }
    }
    (frags, off)
}

fn read_all(fs: &Arc<MemFs>, p: &Path) -> Result<Vec<Vec<u8>>, String> {
    let dynfs: Arc<dyn FileSystem> = fs.clone();
    let mut r = Reader::new(dynfs, p).map_err(|e| e.to_string())?;
    let mut out = vec![];
    loop {
        let (rec, eof) = r.read_record().map_err(|e| format!("read error {e}"))?;
        if eof {
            if !rec.is_empty() {
                return Err("eof with data".into());
            }
            // EOF must be sticky
            let (rec2, eof2) = r.read_record().map_err(|e| format!("read error {e}"))?;
            if !eof2 || !rec2.is_empty() {
                return Err(format!("record after EOF len {}", rec2.len()));
            }
            break;
        }
        out.push(rec);
    }
    Ok(out)
}

fn hostile_len(rng: &mut Rng, off: usize) -> usize {
    let rem = BLOCK - off % BLOCK; // bytes left in block
    match rng.below(10) {
        0 => rng.below(4) as usize,
        1 => rng.below(64) as usize,
        2 | 3 | 4 => {
            // land so that rem after record is in 0..=14
            let target_left = rng.below(15) as usize;
            let want = rem as i64 - HDR as i64 - target_left as i64;
            if want >= 0 {
                want as usize
            } else {
                rng.below(16) as usize
            }
        }
        5 => {
            // spanning k blocks and landing near the boundary
            let k = 1 + rng.below(3) as usize;
            let target_left = rng.below(15) as usize;
            let want = rem as i64 - HDR as i64 + (k * (BLOCK - HDR)) as i64 - target_left as i64;
            if want >= 0 {
                want as usize
            } else {
                0
            }
        }
        6 => (BLOCK - HDR) * (1 + rng.below(3) as usize) + rng.below(15) as usize - 7,
        7 => rng.below(70000) as usize,
        8 => BLOCK - 20 + rng.below(40) as usize,
        _ => rng.below(2000) as usize,
    }
}

#[test]
fn roundtrip_random_hostile() {
    let p = Path::new("/d/000001.log");
    let mut cases = 0usize;
    let mut recs_total = 0usize;
    for seed in 1..=3000u64 {
        let mut rng = Rng(seed.wrapping_mul(0x2545F4914F6CDD1D) | 1);
        let fs = Arc::new(MemFs::default());
        let dynfs: Arc<dyn FileSystem> = fs.clone();
        let mut w = Some(Writer::new(dynfs.clone(), p, false).unwrap());
        let reopen_mode = rng.below(3); // 0 never, 1 always, 2 random
        let n = 1 + rng.below(12) as usize;
        let mut off = 0usize;
        let mut expect = vec![];
        for i in 0..n {
            let len = hostile_len(&mut rng, off);
            let data = payload(i + 1, len);
            w.as_mut().unwrap().append(&data).unwrap();
            let (_f, end) = model_layout(off, len);
            off = end;
            assert_eq!(fs.get(p).len(), off, "seed {seed} layout model mismatch at rec {i}");
            expect.push(data);
            if reopen_mode == 1 || (reopen_mode == 2 && rng.below(2) == 0) {
                w = None;
                w = Some(Writer::new(dynfs.clone(), p, true).unwrap());
            }
        }
        drop(w);
        let got = read_all(&fs, p).unwrap_or_else(|e| panic!("seed {seed}: {e}"));
        assert_eq!(got.len(), expect.len(), "seed {seed}: count");
        for (i, (g, e)) in got.iter().zip(expect.iter()).enumerate() {
            assert!(g == e, "seed {seed}: record {i} differs (len {} vs {})", g.len(), e.len());
        }
        cases += 1;
        recs_total += n;
    }
    println!("roundtrip_random_hostile: {cases} files, {recs_total} records");
}

#[test]
fn exhaustive_boundary_grid() {
    // position in block p (bytes left = 0..=16 and 32768-16..) x record length around the arithmetic
    let p = Path::new("/d/000001.log");
    let mut cases = 0usize;
    for left in 0..=16usize {
        // filler leaves `left` bytes in block 0: filler record of length BLOCK - left - HDR
        let filler_len = BLOCK - left - HDR;
        let mut lens: Vec<usize> = (0..=24).collect();
        for k in 1..=2usize {
            let base = k * (BLOCK - HDR);
            for d in 0..=24 {
                lens.push(base + d - 12);
                if left >= HDR {
                    lens.push(base + (left - HDR) + d - 12);
                }
            }
        }
        for &len in &lens {
            for reopen in [false, true] {
                for follow in [0usize, 1, 5] {
                    let fs = Arc::new(MemFs::default());
                    let dynfs: Arc<dyn FileSystem> = fs.clone();
                    let mut w = Writer::new(dynfs.clone(), p, false).unwrap();
                    let a = payload(1, filler_len);
                    let b = payload(2, len);
                    let c = payload(3, follow);
                    w.append(&a).unwrap();
                    if reopen {
                        drop(w);
                        w = Writer::new(dynfs.clone(), p, true).unwrap();
                    }
                    w.append(&b).unwrap();
                    if reopen {
                        drop(w);
                        w = Writer::new(dynfs.clone(), p, true).unwrap();
                    }
                    w.append(&c).unwrap();
                    drop(w);
                    let got = read_all(&fs, p).unwrap_or_else(|e| panic!("left {left} len {len}: {e}"));
                    assert!(
                        got == vec![a, b, c],
                        "left {left} len {len} reopen {reopen} follow {follow}: got {:?}",
                        got.iter().map(|r| r.len()).collect::<Vec<_>>()
                    );
                    cases += 1;
                }
            }
        }
    }
    println!("exhaustive_boundary_grid: {cases} cases");
}

#[test]
fn truncation_sweep() {
    let p = Path::new("/d/000001.log");
    let mut cuts = 0usize;
    let mut files = 0usize;
    for seed in 1..=150u64 {
        let mut rng = Rng(seed.wrapping_mul(0x9E3779B97F4A7C15) | 1);
        let fs = Arc::new(MemFs::default());
        let dynfs: Arc<dyn FileSystem> = fs.clone();
        let mut w = Writer::new(dynfs.clone(), p, false).unwrap();
        let n = 2 + rng.below(6) as usize;
        let mut off = 0usize;
        let mut expect: Vec<(Vec<u8>, usize)> = vec![]; // data, end offset
        let mut interesting: Vec<usize> = vec![0];
        for i in 0..n {
            let len = hostile_len(&mut rng, off);
            let data = payload(i + 1, len);
            w.append(&data).unwrap();
            let (frags, end) = model_layout(off, len);
            for (s, e) in &frags {
                for d in 0..=9 {
                    interesting.push(s + d);
                    interesting.push(s.saturating_sub(d));
                    interesting.push(e + d);
                    interesting.push(e.saturating_sub(d));
                }
            }
            off = end;
            expect.push((data, end));
        }
        drop(w);
        let full = fs.get(p);
        assert_eq!(full.len(), off);
        for _ in 0..60 {
            interesting.push(rng.below(off as u64 + 1) as usize);
        }
        // every byte for small files
        if off < 3000 {
            interesting.extend(0..=off);
        }
        interesting.sort();
        interesting.dedup();
        files += 1;
        for &t in interesting.iter().filter(|&&t| t <= off) {
            fs.put(p, full[..t].to_vec());
            let got = read_all(&fs, p).unwrap_or_else(|e| panic!("seed {seed} cut {t}: {e}"));
            let want: Vec<&Vec<u8>> = expect.iter().filter(|(_, e)| *e <= t).map(|(d, _)| d).collect();
            assert!(
                got.len() == want.len() && got.iter().zip(want.iter()).all(|(g, w)| &g == w),
                "seed {seed} cut {t} of {off}: got lens {:?} want lens {:?}",
                got.iter().map(|r| r.len()).collect::<Vec<_>>(),
                want.iter().map(|r| r.len()).collect::<Vec<_>>()
            );
            cuts += 1;
        }
    }
    println!("truncation_sweep: {files} files, {cuts} cut points");
}

#[test]
fn stop_between_fragments_then_append() {
    let p = Path::new("/d/000001.log");
    let mut cases = 0usize;
    for seed in 1..=400u64 {
        let mut rng = Rng(seed.wrapping_mul(0xD1342543DE82EF95) | 1);
        let fs = Arc::new(MemFs::default());
        let dynfs: Arc<dyn FileSystem> = fs.clone();
        let mut w = Writer::new(dynfs.clone(), p, false).unwrap();
        let n = 1 + rng.below(4) as usize;
        let mut off = 0usize;
        let mut expect: Vec<Vec<u8>> = vec![];
        for i in 0..n {
            let len = hostile_len(&mut rng, off);
            let data = payload(i + 1, len);
            w.append(&data).unwrap();
            off = model_layout(off, len).1;
            expect.push(data);
        }
        // a multi-fragment record
        let rem = BLOCK - off % BLOCK;
        let first_room = if rem < HDR { BLOCK - HDR } else { rem - HDR };
        let len = first_room + 1 + rng.below(3 * BLOCK as u64) as usize;
        let data = payload(99, len);
        w.append(&data).unwrap();
        drop(w);
        let (frags, _end) = model_layout(off, len);
        assert!(frags.len() >= 2);
        let full = fs.get(p);
        for cut_idx in 0..frags.len() - 1 {
            let cut = frags[cut_idx].1;
            assert_eq!(cut % BLOCK, 0);
            for rounds in 1..=2 {
                fs.put(p, full[..cut].to_vec());
                let mut exp2 = expect.clone();
                let mut o2 = cut;
                for r in 0..rounds {
                    let mut w2 = Writer::new(dynfs.clone(), p, true).unwrap();
                    let m = 1 + rng.below(3) as usize;
                    for j in 0..m {
                        let l = hostile_len(&mut rng, o2);
                        let d = payload(1000 + r * 10 + j, l);
                        w2.append(&d).unwrap();
                        o2 = model_layout(o2, l).1;
                        exp2.push(d);
                    }
                    drop(w2);
                    if r + 1 < rounds {
                        // stop between fragments again
                        let rem = BLOCK - o2 % BLOCK;
                        let first_room = if rem < HDR { BLOCK - HDR } else { rem - HDR };
                        let l = first_room + 1 + rng.below(2 * BLOCK as u64) as usize;
                        let mut w3 = Writer::new(dynfs.clone(), p, true).unwrap();
                        w3.append(&payload(77, l)).unwrap();
                        drop(w3);
                        let (fr, _) = model_layout(o2, l);
                        let pick = rng.below(fr.len() as u64 - 1) as usize;
                        let c = fr[pick].1;
                        let cur = fs.get(p);
                        fs.put(p, cur[..c].to_vec());
                        o2 = c;
                    }
                }
                let got = read_all(&fs, p).unwrap_or_else(|e| panic!("seed {seed} cut {cut}: {e}"));
                assert!(
                    got == exp2,
                    "seed {seed} cut_idx {cut_idx} rounds {rounds}: got lens {:?} want lens {:?}",
                    got.iter().map(|r| r.len()).collect::<Vec<_>>(),
                    exp2.iter().map(|r| r.len()).collect::<Vec<_>>()
                );
                cases += 1;
            }
        }
    }
    println!("stop_between_fragments_then_append: {cases} cases");
}

#[test]
fn os_filesystem_roundtrip_reopen_truncate() {
    use raindb::fs::TmpFileSystem;
    let mut cases = 0usize;
    let mut cuts = 0usize;
    for seed in 1..=60u64 {
        let mut rng = Rng(seed.wrapping_mul(0xA0761D6478BD642F) | 1);
        let tmp = Arc::new(TmpFileSystem::new(Some(Path::new("/tmp/a3/C12/target"))));
        let root = tmp.get_root_path();
        let dynfs: Arc<dyn FileSystem> = tmp.clone();
        let p = Path::new("000001.log");
        let mut w = Writer::new(dynfs.clone(), p, false).unwrap();
        let n = 2 + rng.below(8) as usize;
        let mut off = 0usize;
        let mut expect: Vec<(Vec<u8>, usize)> = vec![];
        let mut frag_bounds = vec![];
        for i in 0..n {
            let len = hostile_len(&mut rng, off);
            let data = payload(i + 1, len);
            w.append(&data).unwrap();
            let (fr, end) = model_layout(off, len);
            for (s, e) in fr {
                frag_bounds.push(s);
                frag_bounds.push(e);
            }
            off = end;
            expect.push((data, end));
            if rng.below(2) == 0 {
                drop(w);
                w = Writer::new(dynfs.clone(), p, true).unwrap();
            }
        }
        drop(w);
        assert_eq!(std::fs::metadata(root.join(p)).unwrap().len() as usize, off);
        let read = |fsx: &Arc<dyn FileSystem>| -> Vec<Vec<u8>> {
            let mut r = Reader::new(fsx.clone(), p).unwrap();
            let mut out = vec![];
            loop {
                let (rec, eof) = r.read_record().unwrap();
                if eof {
                    break;
                }
                out.push(rec);
            }
            out
        };
        let got = read(&dynfs);
        assert!(got.len() == expect.len() && got.iter().zip(expect.iter()).all(|(g, (e, _))| g == e), "seed {seed}");
        cases += 1;
        // truncation from the end downwards (set_len only shrinks)
        let mut pts: Vec<usize> = vec![];
        for b in &frag_bounds {
            for d in 0..=8usize {
                pts.push(b + d);
                pts.push(b.saturating_sub(d));
            }
        }
        pts.retain(|t| *t <= off);
        pts.sort();
        pts.dedup();
        for &t in pts.iter().rev() {
            let f = std::fs::OpenOptions::new().write(true).open(root.join(p)).unwrap();
            f.set_len(t as u64).unwrap();
            drop(f);
            let got = read(&dynfs);
            let want: Vec<&Vec<u8>> = expect.iter().filter(|(_, e)| *e <= t).map(|(d, _)| d).collect();
            assert!(
                got.len() == want.len() && got.iter().zip(want.iter()).all(|(g, w)| &g == w),
                "seed {seed} cut {t}"
            );
            cuts += 1;
        }
    }
    println!("os_filesystem_roundtrip_reopen_truncate: {cases} files, {cuts} cuts");
}

#[test]
fn big_and_many() {
    let p = Path::new("/d/000001.log");
    let fs = Arc::new(MemFs::default());
    let dynfs: Arc<dyn FileSystem> = fs.clone();
    let mut w = Writer::new(dynfs.clone(), p, false).unwrap();
    let mut expect = vec![];
    let big = payload(1, 48 * 1024 * 1024 + 13);
    w.append(&big).unwrap();
    expect.push(big);
    let mut rng = Rng(99);
    for i in 0..300_000usize {
        let l = rng.below(4) as usize;
        let d = payload(i + 2, l);
        w.append(&d).unwrap();
        expect.push(d);
        if i % 50_000 == 0 {
            drop(w);
            w = Writer::new(dynfs.clone(), p, true).unwrap();
        }
    }
    drop(w);
    let got = read_all(&fs, p).unwrap();
    assert!(got == expect);
    println!("big_and_many: {} records", got.len());
}

#[test]
fn shipped_in_memory_fs_roundtrip() {
    use raindb::fs::InMemoryFileSystem;
    let p = Path::new("/d/000001.log");
    let mut recs = 0usize;
    for seed in 1..=1500u64 {
        let mut rng = Rng(seed.wrapping_mul(0x2545F4914F6CDD1D) | 1);
        let dynfs: Arc<dyn FileSystem> = Arc::new(InMemoryFileSystem::new());
        let mut w = Writer::new(dynfs.clone(), p, false).unwrap();
        let n = 1 + rng.below(12) as usize;
        let mut off = 0usize;
        let mut expect = vec![];
        for i in 0..n {
            let len = hostile_len(&mut rng, off);
            let data = payload(i + 1, len);
            w.append(&data).unwrap();
            off = model_layout(off, len).1;
            expect.push(data);
            if rng.below(2) == 0 {
                drop(w);
                w = Writer::new(dynfs.clone(), p, true).unwrap();
            }
        }
        drop(w);
        let mut r = Reader::new(dynfs.clone(), p).unwrap();
        let mut got = vec![];
        loop {
            let (rec, eof) = r.read_record().unwrap();
            if eof {
                break;
            }
            got.push(rec);
        }
        assert!(got == expect, "seed {seed}");
        recs += n;
    }
    println!("shipped_in_memory_fs_roundtrip: 1500 files, {recs} records");
}

/// Observation only (not counted): a file whose `Read::read` returns short counts before EOF
/// (allowed by the std::io::Read contract) is taken for a truncated log.
#[test]
fn observation_short_reads() {
    use raindb::fs::{RandomAccessFile, ReadonlyRandomAccessFile};
    use std::io::{Read, Seek, SeekFrom};
    use std::path::PathBuf;
    struct ShortFs(Arc<MemFs>);
    struct ShortFile(Box<dyn ReadonlyRandomAccessFile>);
    impl Read for ShortFile {
        fn read(&mut self, buf: &mut [u8]) -> std::io::Result<usize> {
            let n = std::cmp::min(buf.len(), 4096);
            self.0.read(&mut buf[..n])
        }
    }
    impl Seek for ShortFile {
        fn seek(&mut self, p: SeekFrom) -> std::io::Result<u64> {
            self.0.seek(p)
        }
    }
    impl ReadonlyRandomAccessFile for ShortFile {
        fn read_from(&self, buf: &mut [u8], offset: usize) -> std::io::Result<usize> {
            self.0.read_from(buf, offset)
        }
        fn len(&self) -> std::io::Result<u64> {
            self.0.len()
        }
    }
    impl FileSystem for ShortFs {
        fn get_name(&self) -> String {
            "ShortFs".into()
        }
        fn create_dir(&self, p: &Path) -> std::io::Result<()> {
            self.0.create_dir(p)
        }
        fn create_dir_all(&self, p: &Path) -> std::io::Result<()> {
            self.0.create_dir_all(p)
        }
        fn list_dir(&self, p: &Path) -> std::io::Result<Vec<PathBuf>> {
            self.0.list_dir(p)
        }
        fn open_file(&self, p: &Path) -> std::io::Result<Box<dyn ReadonlyRandomAccessFile>> {
            Ok(Box::new(ShortFile(self.0.open_file(p)?)))
        }
        fn rename(&self, a: &Path, b: &Path) -> std::io::Result<()> {
            self.0.rename(a, b)
        }
        fn create_file(&self, p: &Path, a: bool) -> std::io::Result<Box<dyn RandomAccessFile>> {
            self.0.create_file(p, a)
        }
        fn remove_file(&self, p: &Path) -> std::io::Result<()> {
            self.0.remove_file(p)
        }
        fn remove_dir(&self, p: &Path) -> std::io::Result<()> {
            self.0.remove_dir(p)
        }
        fn remove_dir_all(&self, p: &Path) -> std::io::Result<()> {
            self.0.remove_dir_all(p)
        }
        fn get_file_size(&self, p: &Path) -> std::io::Result<u64> {
            self.0.get_file_size(p)
        }
        fn is_dir(&self, p: &Path) -> std::io::Result<bool> {
            self.0.is_dir(p)
        }
        fn lock_file(&self, p: &Path) -> std::io::Result<raindb::fs::FileLock> {
            self.0.lock_file(p)
        }
    }
    let p = Path::new("/d/000001.log");
    let mem = Arc::new(MemFs::default());
    let dynfs: Arc<dyn FileSystem> = Arc::new(ShortFs(mem.clone()));
    let mut w = Writer::new(dynfs.clone(), p, false).unwrap();
    w.append(&payload(1, 100)).unwrap();
    w.append(&payload(2, 5000)).unwrap();
    w.append(&payload(3, 100)).unwrap();
    drop(w);
    let mut r = Reader::new(dynfs.clone(), p).unwrap();
    let mut got = vec![];
    loop {
        let (rec, eof) = r.read_record().unwrap();
        if eof {
            break;
        }
        got.push(rec.len());
    }
    println!("observation_short_reads: records read with 4 KiB short reads: {got:?} (appended: [100, 5000, 100])");
}
