#![allow(dead_code)]
use std::collections::HashMap;
use std::io::{self, Read, Seek, SeekFrom, Write};
use std::path::{Path, PathBuf};
use std::sync::{Arc, Mutex};

use raindb::fs::{FileLock, FileSystem, RandomAccessFile, ReadonlyRandomAccessFile};
use raindb::verif::UnlockableFile;

type Data = Arc<Mutex<Vec<u8>>>;

#[derive(Default)]
pub struct MemFs {
    pub files: Mutex<HashMap<PathBuf, Data>>,
}

pub struct Handle {
    data: Data,
    cursor: u64,
    append: bool,
}

impl Read for Handle {
    fn read(&mut self, buf: &mut [u8]) -> io::Result<usize> {
        let d = self.data.lock().unwrap();
        let cur = self.cursor as usize;
        if cur >= d.len() {
            return Ok(0);
        }
        let n = std::cmp::min(buf.len(), d.len() - cur);
        buf[..n].copy_from_slice(&d[cur..cur + n]);
        self.cursor += n as u64;
        Ok(n)
    }
}
impl Seek for Handle {
    fn seek(&mut self, pos: SeekFrom) -> io::Result<u64> {
        let len = self.data.lock().unwrap().len() as i64;
        let new = match pos {
            SeekFrom::Start(o) => o as i64,
            SeekFrom::Current(o) => self.cursor as i64 + o,
            SeekFrom::End(o) => len + o,
        };
        if new < 0 {
            return Err(io::Error::new(io::ErrorKind::InvalidInput, "neg"));
        }
        self.cursor = new as u64;
        Ok(self.cursor)
    }
}
impl Write for Handle {
    fn write(&mut self, buf: &[u8]) -> io::Result<usize> {
        let mut d = self.data.lock().unwrap();
        if self.append {
            d.extend_from_slice(buf);
            self.cursor = d.len() as u64;
        } else {
            let cur = self.cursor as usize;
            if d.len() < cur + buf.len() {
                d.resize(cur + buf.len(), 0);
            }
            d[cur..cur + buf.len()].copy_from_slice(buf);
            self.cursor += buf.len() as u64;
        }
        Ok(buf.len())
    }
    fn flush(&mut self) -> io::Result<()> {
        Ok(())
    }
}
impl ReadonlyRandomAccessFile for Handle {
    fn read_from(&self, buf: &mut [u8], offset: usize) -> io::Result<usize> {
        let d = self.data.lock().unwrap();
        if offset >= d.len() {
            return Ok(0);
        }
        let n = std::cmp::min(buf.len(), d.len() - offset);
        buf[..n].copy_from_slice(&d[offset..offset + n]);
        Ok(n)
    }
    fn len(&self) -> io::Result<u64> {
        Ok(self.data.lock().unwrap().len() as u64)
    }
}
impl RandomAccessFile for Handle {
    fn append(&mut self, buf: &[u8]) -> io::Result<usize> {
        let mut d = self.data.lock().unwrap();
        d.extend_from_slice(buf);
        Ok(buf.len())
    }
}
struct L;
impl UnlockableFile for L {
    fn unlock(&self) -> io::Result<()> {
        Ok(())
    }
}

impl MemFs {
    pub fn snapshot(&self) -> HashMap<PathBuf, Vec<u8>> {
        self.files
            .lock()
            .unwrap()
            .iter()
            .map(|(k, v)| (k.clone(), v.lock().unwrap().clone()))
            .collect()
    }
    pub fn restore(&self, snap: &HashMap<PathBuf, Vec<u8>>) {
        let mut f = self.files.lock().unwrap();
        f.clear();
        for (k, v) in snap {
            f.insert(k.clone(), Arc::new(Mutex::new(v.clone())));
        }
    }
    pub fn names(&self) -> Vec<PathBuf> {
        let mut v: Vec<PathBuf> = self.files.lock().unwrap().keys().cloned().collect();
        v.sort();
        v
    }
    pub fn get(&self, p: &Path) -> Vec<u8> {
        self.files.lock().unwrap().get(p).unwrap().lock().unwrap().clone()
    }
    pub fn put(&self, p: &Path, bytes: Vec<u8>) {
        self.files
            .lock()
            .unwrap()
            .insert(p.to_path_buf(), Arc::new(Mutex::new(bytes)));
    }
}

impl FileSystem for MemFs {
    fn get_name(&self) -> String {
        "MemFs".into()
    }
    fn create_dir(&self, _: &Path) -> io::Result<()> {
        Ok(())
    }
    fn create_dir_all(&self, _: &Path) -> io::Result<()> {
        Ok(())
    }
    fn list_dir(&self, path: &Path) -> io::Result<Vec<PathBuf>> {
        let mut v: Vec<PathBuf> = self
            .files
            .lock()
            .unwrap()
            .keys()
            .filter(|k| k.parent() == Some(path))
            .cloned()
            .collect();
        v.sort();
        Ok(v)
    }
    fn open_file(&self, path: &Path) -> io::Result<Box<dyn ReadonlyRandomAccessFile>> {
        match self.files.lock().unwrap().get(path) {
            Some(d) => Ok(Box::new(Handle {
                data: d.clone(),
                cursor: 0,
                append: false,
            })),
            None => Err(io::Error::new(io::ErrorKind::NotFound, "nf")),
        }
    }
    fn rename(&self, from: &Path, to: &Path) -> io::Result<()> {
        let mut f = self.files.lock().unwrap();
        match f.remove(from) {
            Some(d) => {
                f.insert(to.to_path_buf(), d);
                Ok(())
            }
            None => Err(io::Error::new(io::ErrorKind::NotFound, "nf")),
        }
    }
    fn create_file(&self, path: &Path, append: bool) -> io::Result<Box<dyn RandomAccessFile>> {
        let mut f = self.files.lock().unwrap();
        if append {
            let d = f
                .entry(path.to_path_buf())
                .or_insert_with(|| Arc::new(Mutex::new(vec![])))
                .clone();
            let len = d.lock().unwrap().len() as u64;
            return Ok(Box::new(Handle {
                data: d,
                cursor: len,
                append: true,
            }));
        }
        let d: Data = Arc::new(Mutex::new(vec![]));
        f.insert(path.to_path_buf(), d.clone());
        Ok(Box::new(Handle {
            data: d,
            cursor: 0,
            append: false,
        }))
    }
    fn remove_file(&self, path: &Path) -> io::Result<()> {
        match self.files.lock().unwrap().remove(path) {
            Some(_) => Ok(()),
            None => Err(io::Error::new(io::ErrorKind::NotFound, "nf")),
        }
    }
    fn remove_dir(&self, _: &Path) -> io::Result<()> {
        Ok(())
    }
    fn remove_dir_all(&self, path: &Path) -> io::Result<()> {
        self.files.lock().unwrap().retain(|k, _| !k.starts_with(path));
        Ok(())
    }
    fn get_file_size(&self, path: &Path) -> io::Result<u64> {
        match self.files.lock().unwrap().get(path) {
            Some(d) => Ok(d.lock().unwrap().len() as u64),
            None => Err(io::Error::new(io::ErrorKind::NotFound, "nf")),
        }
    }
    fn is_dir(&self, path: &Path) -> io::Result<bool> {
        Ok(self
            .files
            .lock()
            .unwrap()
            .keys()
            .any(|k| k.starts_with(path) && k != path))
    }
    fn lock_file(&self, _: &Path) -> io::Result<FileLock> {
        Ok(FileLock::new(Box::new(L)))
    }
}

