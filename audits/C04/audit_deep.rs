//! Exploration harness of the C04 audit: push enough data through the store that levels 3+ get
//! populated, then compare iterators with a sorted-map model.
#![cfg(feature = "verif")]

use std::collections::BTreeMap;
use std::time::Duration;

use rand::rngs::StdRng;
use rand::{Rng, RngCore, SeedableRng};

use raindb::{DbOptions, RainDbIterator, ReadOptions, WriteOptions, DB};

fn settle(db: &DB) {
    for _ in 0..600_000 {
        let probe = db.verif_probe();
        if !probe.has_immutable_memtable && !probe.background_compaction_scheduled {
            assert!(probe.bad_state.is_none(), "bad state {:?}", probe.bad_state);
            return;
        }
        std::thread::sleep(Duration::from_micros(500));
    }
    panic!("database did not settle");
}

fn level_counts(db: &DB) -> [usize; 7] {
    let mut counts = [0usize; 7];
    for f in db.verif_files() {
        counts[f.level] += 1;
    }
    counts
}

fn value_for(seed: u64, len: usize) -> Vec<u8> {
    let mut v = vec![0u8; len];
    StdRng::seed_from_u64(seed).fill_bytes(&mut v);
    v
}

#[test]
#[ignore]
fn deep_levels() {
    let mut rng = StdRng::seed_from_u64(42);
    let mut options = DbOptions::with_memory_env();
    options.db_path = "audit_deep".to_string();
    options.create_if_missing = true;
    options.max_memtable_size = 1024 * 1024;
    options.max_file_size = 512 * 1024;
    let db = DB::open(options).unwrap();

    // model: key -> (value seed, len)
    let mut model: BTreeMap<Vec<u8>, (u64, usize)> = BTreeMap::new();
    let nkeys = 6000usize;
    let key = |i: usize| format!("key{:06}", i).into_bytes();
    let mut version = 0u64;

    // bulk load in random order, ~ 6000 * 24 KiB = 144 MiB
    let mut order: Vec<usize> = (0..nkeys).collect();
    for i in (1..order.len()).rev() {
        let j = rng.gen_range(0..=i);
        order.swap(i, j);
    }
    for (n, i) in order.iter().enumerate() {
        version += 1;
        let len = 24 * 1024;
        db.put(WriteOptions::default(), key(*i), value_for(version, len))
            .unwrap();
        model.insert(key(*i), (version, len));
        if n % 500 == 0 {
            eprintln!("loaded {n}: levels {:?}", level_counts(&db));
        }
    }
    settle(&db);
    eprintln!("after load: levels {:?}", level_counts(&db));

    for phase in 0..6 {
        // overwrite / delete a scattered subset with small values so that newer versions and
        // tombstones sit in shallow levels above old versions in deep levels
        for _ in 0..1500 {
            let i = rng.gen_range(0..nkeys);
            version += 1;
            if rng.gen_bool(0.5) {
                db.delete(WriteOptions::default(), key(i)).unwrap();
                model.remove(&key(i));
            } else {
                let len = rng.gen_range(0..3000);
                db.put(WriteOptions::default(), key(i), value_for(version, len))
                    .unwrap();
                model.insert(key(i), (version, len));
            }
        }
        if phase % 2 == 1 {
            settle(&db);
        }
        eprintln!("phase {phase}: levels {:?}", level_counts(&db));

        let entries: Vec<(&Vec<u8>, &(u64, usize))> = model.iter().collect();
        let mut iter = db.new_iterator(ReadOptions::default()).unwrap();
        // full forward scan
        iter.seek_to_first().unwrap();
        for (k, (seed, len)) in entries.iter() {
            assert!(iter.is_valid(), "phase {phase}: forward scan ended before {:?}", k);
            let (ik, iv) = iter.current().unwrap();
            assert_eq!(ik, *k, "phase {phase}: forward scan key");
            assert!(iv == &value_for(*seed, *len), "phase {phase}: forward scan value of {:?}", k);
            iter.next();
        }
        assert!(!iter.is_valid(), "phase {phase}: forward scan yields extra keys");
        // full backward scan
        iter.seek_to_last().unwrap();
        for (k, (seed, len)) in entries.iter().rev() {
            assert!(iter.is_valid(), "phase {phase}: backward scan ended before {:?}", k);
            let (ik, iv) = iter.current().unwrap();
            assert_eq!(ik, *k, "phase {phase}: backward scan key");
            assert!(iv == &value_for(*seed, *len), "phase {phase}: backward scan value of {:?}", k);
            iter.prev();
        }
        assert!(!iter.is_valid(), "phase {phase}: backward scan yields extra keys");
        // random walk
        let mut pos: Option<usize> = None;
        for _ in 0..3000 {
            let choice = rng.gen_range(0..100);
            if pos.is_none() || choice < 10 {
                let i = rng.gen_range(0..nkeys + 1);
                let target = key(i);
                iter.seek(&target).unwrap();
                let idx = entries.partition_point(|(k, _)| **k < target);
                pos = if idx < entries.len() { Some(idx) } else { None };
            } else if choice < 55 {
                iter.next();
                let p = pos.unwrap();
                pos = if p + 1 < entries.len() { Some(p + 1) } else { None };
            } else {
                iter.prev();
                let p = pos.unwrap();
                pos = p.checked_sub(1);
            }
            assert_eq!(iter.is_valid(), pos.is_some(), "phase {phase}: validity");
            if let Some(p) = pos {
                let (ik, iv) = iter.current().unwrap();
                assert_eq!(ik, entries[p].0, "phase {phase}: random walk key");
                let (seed, len) = entries[p].1;
                assert!(iv == &value_for(*seed, *len), "phase {phase}: random walk value");
            }
        }
        assert!(iter.status().is_none());
    }
}
