//! C04 audit demonstration: "Iterators yield exactly the visible keys, in order, under any cursor
//! movement".
//!
//! Defect shown here: a read error that hits a database iterator while it steps is reported by
//! `status()` only until the next change of direction. `MergingIterator::next`/`prev` re-seek the
//! children when the direction changes (and `DatabaseIterator::next` calls `seek_to_first` on the
//! merging iterator when that one ran off the front); re-seeking a child wipes the error it had
//! recorded (`positioned_by` in `FilesEntryIterator`/`TwoLevelIterator` resets `maybe_error`,
//! `MergingIterator::seek_to_first` resets `errors`). The database iterator neither became invalid
//! when the read failed nor remembers the error, so it goes on - valid, `status() == None` - from a
//! position that has nothing to do with the sorted map of visible entries: keys are skipped or
//! yielded a second time, and a caller that checks `status()` at the end of the iteration, as the
//! documentation of `RainDbIterator::status` tells him to, is told that everything was read.
//!
//! What the tests require: after every cursor operation the iterator is positioned where the sorted
//! map of the visible entries is positioned, or - because a read failed - it is somewhere else (or
//! invalid) *and says so* through `status()`, until the caller re-positions it with `seek*`.
//! A single transient read fault is injected; nothing else is wrong with the store.
//!
//! Run with `cargo test --offline --test audit_demo`.

use std::collections::BTreeMap;
use std::io::{self, Read, Seek, SeekFrom};
use std::path::{Path, PathBuf};
use std::sync::atomic::{AtomicBool, AtomicU64, Ordering};
use std::sync::Arc;

use raindb::fs::{
    FileLock, FileSystem, InMemoryFileSystem, RandomAccessFile, ReadonlyRandomAccessFile,
};
use raindb::{DbOptions, RainDBError, RainDbIterator, ReadOptions, WriteOptions, DB};

// ---------------------------------------------------------------------------------------------
// A file system whose table files fail exactly one positional read when armed
// ---------------------------------------------------------------------------------------------

#[derive(Default)]
struct FaultSwitch {
    /// The next positional read of a table file fails (one shot).
    armed: AtomicBool,
    /// Number of faults injected so far.
    injected: AtomicU64,
}

struct FaultyTableFile {
    inner: Box<dyn ReadonlyRandomAccessFile>,
    switch: Arc<FaultSwitch>,
}

impl Read for FaultyTableFile {
    fn read(&mut self, buf: &mut [u8]) -> io::Result<usize> {
        self.inner.read(buf)
    }
}

impl Seek for FaultyTableFile {
    fn seek(&mut self, pos: SeekFrom) -> io::Result<u64> {
        self.inner.seek(pos)
    }
}

impl ReadonlyRandomAccessFile for FaultyTableFile {
    fn read_from(&self, buf: &mut [u8], offset: usize) -> io::Result<usize> {
        if self.switch.armed.swap(false, Ordering::SeqCst) {
            self.switch.injected.fetch_add(1, Ordering::SeqCst);
            return Err(io::Error::new(
                io::ErrorKind::Other,
                "injected transient read fault",
            ));
        }

        self.inner.read_from(buf, offset)
    }

    fn len(&self) -> io::Result<u64> {
        self.inner.len()
    }
}

struct FaultyFs {
    inner: InMemoryFileSystem,
    switch: Arc<FaultSwitch>,
}

impl FileSystem for FaultyFs {
    fn get_name(&self) -> String {
        "FaultyFs".to_string()
    }

    fn create_dir(&self, path: &Path) -> io::Result<()> {
        self.inner.create_dir(path)
    }

    fn create_dir_all(&self, path: &Path) -> io::Result<()> {
        self.inner.create_dir_all(path)
    }

    fn list_dir(&self, path: &Path) -> io::Result<Vec<PathBuf>> {
        self.inner.list_dir(path)
    }

    fn open_file(&self, path: &Path) -> io::Result<Box<dyn ReadonlyRandomAccessFile>> {
        let inner = self.inner.open_file(path)?;
        if path.extension().map_or(false, |extension| extension == "rdb") {
            return Ok(Box::new(FaultyTableFile {
                inner,
                switch: Arc::clone(&self.switch),
            }));
        }

        Ok(inner)
    }

    fn rename(&self, from: &Path, to: &Path) -> io::Result<()> {
        self.inner.rename(from, to)
    }

    fn create_file(&self, path: &Path, append: bool) -> io::Result<Box<dyn RandomAccessFile>> {
        self.inner.create_file(path, append)
    }

    fn remove_file(&self, path: &Path) -> io::Result<()> {
        self.inner.remove_file(path)
    }

    fn remove_dir(&self, path: &Path) -> io::Result<()> {
        self.inner.remove_dir(path)
    }

    fn remove_dir_all(&self, path: &Path) -> io::Result<()> {
        self.inner.remove_dir_all(path)
    }

    fn get_file_size(&self, path: &Path) -> io::Result<u64> {
        self.inner.get_file_size(path)
    }

    fn is_dir(&self, path: &Path) -> io::Result<bool> {
        self.inner.is_dir(path)
    }

    fn lock_file(&self, path: &Path) -> io::Result<FileLock> {
        self.inner.lock_file(path)
    }
}

// ---------------------------------------------------------------------------------------------
// The sorted-map oracle
// ---------------------------------------------------------------------------------------------

type DbIter = Box<dyn RainDbIterator<Key = Vec<u8>, Error = RainDBError>>;

fn show(key: &[u8]) -> String {
    String::from_utf8_lossy(key).to_string()
}

/// Drives an iterator and the cursor of a sorted map side by side.
struct Walk {
    iter: DbIter,
    entries: Vec<(Vec<u8>, Vec<u8>)>,
    /// The position of the cursor over the sorted map.
    pos: Option<usize>,
    /// What was done and seen so far.
    trace: Vec<String>,
    /// The iterator left the position of the sorted map at least once since the last `seek*`.
    diverged: bool,
}

impl Walk {
    fn new(iter: DbIter, model: &BTreeMap<Vec<u8>, Vec<u8>>) -> Self {
        Walk {
            iter,
            entries: model.iter().map(|(k, v)| (k.clone(), v.clone())).collect(),
            pos: None,
            trace: vec![],
            diverged: false,
        }
    }

    fn seek(&mut self, target: &[u8]) {
        self.iter.seek(&target.to_vec()).unwrap();
        let idx = self.entries.partition_point(|(k, _)| k.as_slice() < target);
        self.pos = if idx < self.entries.len() { Some(idx) } else { None };
        self.diverged = false;
        self.check(&format!("seek({})", show(target)));
    }

    fn next(&mut self) {
        self.iter.next();
        self.pos = self.pos.and_then(|p| {
            if p + 1 < self.entries.len() {
                Some(p + 1)
            } else {
                None
            }
        });
        self.check("next");
    }

    fn prev(&mut self) {
        self.iter.prev();
        self.pos = self.pos.and_then(|p| p.checked_sub(1));
        self.check("prev");
    }

    /// The property, with the only allowance that can be made for a failed read: a position that
    /// is not the position of the sorted map must be accompanied by an error in `status()`.
    fn check(&mut self, operation: &str) {
        let actual: Option<(Vec<u8>, Vec<u8>)> = if self.iter.is_valid() {
            self.iter.current().map(|(k, v)| (k.clone(), v.clone()))
        } else {
            None
        };
        let expected: Option<(Vec<u8>, Vec<u8>)> = self.pos.map(|p| self.entries[p].clone());
        let status = self.iter.status();
        self.trace.push(format!(
            "{operation} -> iterator at {:?}, sorted map at {:?}, status() = {:?}",
            actual.as_ref().map(|(k, _)| show(k)),
            expected.as_ref().map(|(k, _)| show(k)),
            status.as_ref().map(|error| error.to_string())
        ));

        if actual != expected {
            self.diverged = true;
            assert!(
                status.is_some(),
                "after `{operation}` the iterator is {} where the sorted map of the visible \
                 entries is {}, and status() reports no error. The property requires the iterator \
                 to be exactly where the sorted map is; a read failure may excuse a different \
                 position only while status() reports it.\nTrace:\n  {}",
                match &actual {
                    Some((k, _)) => format!("valid at {:?}", show(k)),
                    None => "invalid".to_string(),
                },
                match &expected {
                    Some((k, _)) => format!("at {:?}", show(k)),
                    None => "past the end".to_string(),
                },
                self.trace.join("\n  ")
            );
        }
    }

    /// Walk forward until the iterator is exhausted (checking every step) and then do what the
    /// documentation of `RainDbIterator::status` asks callers to do at the end of an iteration.
    fn finish_forward_scan(&mut self) {
        let mut steps = 0;
        while self.iter.is_valid() {
            self.next();
            steps += 1;
            assert!(steps < 10_000, "the iterator does not terminate");
        }

        if self.diverged {
            assert!(
                self.iter.status().is_some(),
                "the iteration skipped or repeated keys after a failed read, it has now reached \
                 its end and status() reports no error: the caller cannot tell that he did not \
                 see the sorted map of the visible entries.\nTrace:\n  {}",
                self.trace.join("\n  ")
            );
        }
    }
}

fn open_db(name: &str, switch: &Arc<FaultSwitch>) -> DB {
    let mut options = DbOptions::with_memory_env();
    options.filesystem_provider = Arc::new(FaultyFs {
        inner: InMemoryFileSystem::new(),
        switch: Arc::clone(switch),
    });
    options.db_path = name.to_string();
    options.create_if_missing = true;
    // Two or three entries per block, so that a few steps cross a block boundary
    options.max_block_size = 64;

    DB::open(options).unwrap()
}

fn key(index: usize) -> Vec<u8> {
    format!("k{:03}", index).into_bytes()
}

/// Flush the memtable to a table file without compacting table files: the range is past all keys.
fn flush_memtable(db: &DB) {
    db.compact_range(Some(b"zzz".as_slice())..Some(b"zzzz".as_slice()));
}

/// An iterator whose block reads all go to the table file.
fn uncached_iterator(db: &DB) -> DbIter {
    Box::new(
        db.new_iterator(ReadOptions {
            fill_cache: false,
            snapshot: None,
        })
        .unwrap(),
    )
}

/// Step backwards with the fault armed until the fault has been injected.
fn prev_until_fault(walk: &mut Walk, switch: &FaultSwitch) {
    switch.armed.store(true, Ordering::SeqCst);
    for _ in 0..8 {
        if switch.injected.load(Ordering::SeqCst) > 0 || !walk.iter.is_valid() {
            break;
        }
        walk.prev();
    }
    assert_eq!(
        switch.injected.load(Ordering::SeqCst),
        1,
        "harness: stepping back over a block boundary should have read the table file"
    );
}

/// Step forwards with the fault armed until the fault has been injected.
fn next_until_fault(walk: &mut Walk, switch: &FaultSwitch) {
    switch.armed.store(true, Ordering::SeqCst);
    for _ in 0..8 {
        if switch.injected.load(Ordering::SeqCst) > 0 || !walk.iter.is_valid() {
            break;
        }
        walk.next();
    }
    assert_eq!(
        switch.injected.load(Ordering::SeqCst),
        1,
        "harness: stepping forward over a block boundary should have read the table file"
    );
}

// ---------------------------------------------------------------------------------------------
// Demonstrations
// ---------------------------------------------------------------------------------------------

/**
One table file with the keys k000..k059 and a memtable with the key "a".

The iterator is put on k030 and steps backwards; one read of the table file fails. The table child
drops out of the merge, so `prev` lands on "a" (k000..k02x are skipped; `status()` reports the read
error at this point). The following `next` finds the merging iterator before its first entry, calls
`seek_to_first` on it, which wipes the error, and yields k000 with `status() == None` - the sorted
map is at k03x. Walking on to the end, `status()` never reports anything again.
*/
#[test]
fn read_error_is_forgotten_when_the_iterator_turns_around_at_the_front() {
    let switch = Arc::new(FaultSwitch::default());
    let db = open_db("audit_demo_front", &switch);
    let mut model: BTreeMap<Vec<u8>, Vec<u8>> = BTreeMap::new();

    for index in 0..60 {
        let value = format!("value{index}").into_bytes();
        db.put(WriteOptions::default(), key(index), value.clone())
            .unwrap();
        model.insert(key(index), value);
    }
    flush_memtable(&db);
    db.put(WriteOptions::default(), b"a".to_vec(), b"in memtable".to_vec())
        .unwrap();
    model.insert(b"a".to_vec(), b"in memtable".to_vec());

    let mut walk = Walk::new(uncached_iterator(&db), &model);
    walk.seek(&key(30));
    prev_until_fault(&mut walk, &switch);

    if walk.iter.is_valid() {
        // The iterator claims to be usable, so use it
        for _ in 0..3 {
            if walk.iter.is_valid() {
                walk.next();
            }
        }
        walk.finish_forward_scan();
    } else {
        assert!(
            walk.iter.status().is_some(),
            "an iterator that became invalid because of a read error must report the error"
        );
    }
}

/**
One table file with k000..k059, where k020 is a tombstone, and a memtable with a newer k010.

The iterator is put on k036 and steps backwards; one read of the table file fails while
`DatabaseIterator::find_prev_client_entry` looks for the end of the run of the key it is about to
yield. The table child drops out, the merging iterator falls back to the memtable's k010, and
`prev` still reports the right key (`status()` has the error). The following `next` re-seeks the
table child to k010 (wiping its error) and scans forward *from k010*; the tombstone of k020 replaces
the key to skip, and `next` yields k021: the cursor moved backwards on `next`, keys k021.. are
yielded a second time, `status() == None`.
*/
#[test]
fn read_error_is_forgotten_on_a_change_of_direction_and_next_moves_backwards() {
    let switch = Arc::new(FaultSwitch::default());
    let db = open_db("audit_demo_turn", &switch);
    let mut model: BTreeMap<Vec<u8>, Vec<u8>> = BTreeMap::new();

    for index in 0..60 {
        let value = format!("value{index}").into_bytes();
        db.put(WriteOptions::default(), key(index), value.clone())
            .unwrap();
        model.insert(key(index), value);
    }
    db.delete(WriteOptions::default(), key(20)).unwrap();
    model.remove(&key(20));
    flush_memtable(&db);
    db.put(WriteOptions::default(), key(10), b"newer".to_vec())
        .unwrap();
    model.insert(key(10), b"newer".to_vec());

    let mut walk = Walk::new(uncached_iterator(&db), &model);
    walk.seek(&key(36));
    prev_until_fault(&mut walk, &switch);

    if walk.iter.is_valid() {
        let before = walk.iter.current().unwrap().0.clone();
        walk.next();
        if walk.iter.is_valid() && walk.iter.status().is_none() {
            let after = walk.iter.current().unwrap().0.clone();
            assert!(
                after > before,
                "next() moved the cursor from {:?} back to {:?}",
                show(&before),
                show(&after)
            );
        }
        walk.finish_forward_scan();
    } else {
        assert!(
            walk.iter.status().is_some(),
            "an iterator that became invalid because of a read error must report the error"
        );
    }
}

/**
The mirror image: one table file with k000..k059 and a memtable with the key "z".

The iterator is put on k030 and steps forwards; one read of the table file fails, the table child
drops out and `next` lands on "z" (k03x..k059 are skipped; `status()` reports the error). The
following `prev` re-seeks the table child (to "z", then `seek_to_last`), which wipes the error, and
yields k059 with `status() == None` while the sorted map is at k03x. Walking back to the front,
`status()` never reports anything again.
*/
#[test]
fn read_error_is_forgotten_when_a_forward_scan_turns_around() {
    let switch = Arc::new(FaultSwitch::default());
    let db = open_db("audit_demo_forward", &switch);
    let mut model: BTreeMap<Vec<u8>, Vec<u8>> = BTreeMap::new();

    for index in 0..60 {
        let value = format!("value{index}").into_bytes();
        db.put(WriteOptions::default(), key(index), value.clone())
            .unwrap();
        model.insert(key(index), value);
    }
    flush_memtable(&db);
    db.put(WriteOptions::default(), b"z".to_vec(), b"in memtable".to_vec())
        .unwrap();
    model.insert(b"z".to_vec(), b"in memtable".to_vec());

    let mut walk = Walk::new(uncached_iterator(&db), &model);
    walk.seek(&key(30));
    next_until_fault(&mut walk, &switch);

    if walk.iter.is_valid() {
        let mut steps = 0;
        while walk.iter.is_valid() {
            walk.prev();
            steps += 1;
            assert!(steps < 10_000, "the iterator does not terminate");
        }
        if walk.diverged {
            assert!(
                walk.iter.status().is_some(),
                "the iteration skipped keys after a failed read, it has now reached the front and \
                 status() reports no error.\nTrace:\n  {}",
                walk.trace.join("\n  ")
            );
        }
    } else {
        assert!(
            walk.iter.status().is_some(),
            "an iterator that became invalid because of a read error must report the error"
        );
    }
}

/// Control: the same walks without a fault are exactly the walks of the sorted map (this passes).
#[test]
fn control_without_a_fault_the_same_walks_follow_the_sorted_map() {
    let switch = Arc::new(FaultSwitch::default());
    let db = open_db("audit_demo_control", &switch);
    let mut model: BTreeMap<Vec<u8>, Vec<u8>> = BTreeMap::new();

    for index in 0..60 {
        let value = format!("value{index}").into_bytes();
        db.put(WriteOptions::default(), key(index), value.clone())
            .unwrap();
        model.insert(key(index), value);
    }
    db.delete(WriteOptions::default(), key(20)).unwrap();
    model.remove(&key(20));
    flush_memtable(&db);
    db.put(WriteOptions::default(), key(10), b"newer".to_vec())
        .unwrap();
    model.insert(key(10), b"newer".to_vec());
    db.put(WriteOptions::default(), b"a".to_vec(), b"in memtable".to_vec())
        .unwrap();
    model.insert(b"a".to_vec(), b"in memtable".to_vec());

    let mut walk = Walk::new(uncached_iterator(&db), &model);
    walk.seek(&key(36));
    for _ in 0..8 {
        walk.prev();
    }
    for _ in 0..3 {
        walk.next();
    }
    for _ in 0..40 {
        if walk.iter.is_valid() {
            walk.prev();
        }
    }
    assert!(!walk.iter.is_valid());
    walk.seek(&key(0));
    walk.finish_forward_scan();
    assert!(!walk.diverged);
    assert_eq!(switch.injected.load(Ordering::SeqCst), 0);
}
