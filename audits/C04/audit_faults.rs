//! Exploration harness of the C04 audit: read faults while iterating.
//!
//! An iterator that cannot read a block may become invalid or continue with the data it can still
//! read (as in LevelDB), but it then has to say so through `status()`. The check here is therefore:
//! whenever the iterator's position differs from the sorted-map model, `status()` must be `Some`;
//! and after a fresh `seek*` without a fault, the position must be right again and `status()` must
//! be `None`.
#![cfg(feature = "verif")]

use std::collections::BTreeMap;
use std::io::{self, Read, Seek, SeekFrom};
use std::path::{Path, PathBuf};
use std::sync::atomic::{AtomicI64, AtomicU64, Ordering};
use std::sync::Arc;
use std::time::Duration;

use rand::rngs::StdRng;
use rand::{Rng, SeedableRng};

use raindb::fs::{
    FileLock, FileSystem, InMemoryFileSystem, RandomAccessFile, ReadonlyRandomAccessFile,
};
use raindb::{DbOptions, RainDbIterator, ReadOptions, WriteOptions, DB};

/// Fails the read that makes the countdown hit zero (a negative countdown never fails).
struct FaultyFile {
    inner: Box<dyn ReadonlyRandomAccessFile>,
    countdown: Arc<AtomicI64>,
    injected: Arc<AtomicU64>,
}

impl Read for FaultyFile {
    fn read(&mut self, buf: &mut [u8]) -> io::Result<usize> {
        self.inner.read(buf)
    }
}

impl Seek for FaultyFile {
    fn seek(&mut self, pos: SeekFrom) -> io::Result<u64> {
        self.inner.seek(pos)
    }
}

impl ReadonlyRandomAccessFile for FaultyFile {
    fn read_from(&self, buf: &mut [u8], offset: usize) -> io::Result<usize> {
        if self.countdown.load(Ordering::SeqCst) >= 0
            && self.countdown.fetch_sub(1, Ordering::SeqCst) == 0
        {
            self.injected.fetch_add(1, Ordering::SeqCst);
            return Err(io::Error::new(io::ErrorKind::Other, "injected read fault"));
        }
        self.inner.read_from(buf, offset)
    }

    fn len(&self) -> io::Result<u64> {
        self.inner.len()
    }
}

struct FaultyFs {
    inner: InMemoryFileSystem,
    countdown: Arc<AtomicI64>,
    injected: Arc<AtomicU64>,
}

impl FileSystem for FaultyFs {
    fn get_name(&self) -> String {
        "FaultyFs".into()
    }
    fn create_dir(&self, path: &Path) -> io::Result<()> {
        self.inner.create_dir(path)
    }
    fn create_dir_all(&self, path: &Path) -> io::Result<()> {
        self.inner.create_dir_all(path)
    }
    fn list_dir(&self, path: &Path) -> io::Result<Vec<PathBuf>> {
        self.inner.list_dir(path)
    }
    fn open_file(&self, path: &Path) -> io::Result<Box<dyn ReadonlyRandomAccessFile>> {
        let inner = self.inner.open_file(path)?;
        if path.extension().map_or(false, |ext| ext == "rdb") {
            return Ok(Box::new(FaultyFile {
                inner,
                countdown: Arc::clone(&self.countdown),
                injected: Arc::clone(&self.injected),
            }));
        }
        Ok(inner)
    }
    fn rename(&self, from: &Path, to: &Path) -> io::Result<()> {
        self.inner.rename(from, to)
    }
    fn create_file(&self, path: &Path, append: bool) -> io::Result<Box<dyn RandomAccessFile>> {
        self.inner.create_file(path, append)
    }
    fn remove_file(&self, path: &Path) -> io::Result<()> {
        self.inner.remove_file(path)
    }
    fn remove_dir(&self, path: &Path) -> io::Result<()> {
        self.inner.remove_dir(path)
    }
    fn remove_dir_all(&self, path: &Path) -> io::Result<()> {
        self.inner.remove_dir_all(path)
    }
    fn get_file_size(&self, path: &Path) -> io::Result<u64> {
        self.inner.get_file_size(path)
    }
    fn is_dir(&self, path: &Path) -> io::Result<bool> {
        self.inner.is_dir(path)
    }
    fn lock_file(&self, path: &Path) -> io::Result<FileLock> {
        self.inner.lock_file(path)
    }
}

fn settle(db: &DB) {
    for _ in 0..100_000 {
        let probe = db.verif_probe();
        if !probe.has_immutable_memtable && !probe.background_compaction_scheduled {
            assert!(probe.bad_state.is_none(), "bad state {:?}", probe.bad_state);
            return;
        }
        std::thread::sleep(Duration::from_micros(200));
    }
    panic!("database did not settle");
}

#[test]
fn read_faults_are_reported_by_status() {
    let seeds: u64 = std::env::var("AUDIT_SEED_COUNT")
        .ok()
        .and_then(|s| s.parse().ok())
        .unwrap_or(5);
    let mut total_injected = 0;
    let mut divergences_with_status = 0;
    let mut known_k1 = 0;
    for seed in 0..seeds {
        let mut rng = StdRng::seed_from_u64(seed);
        let countdown = Arc::new(AtomicI64::new(-1));
        let injected = Arc::new(AtomicU64::new(0));
        let mut options = DbOptions::with_memory_env();
        options.filesystem_provider = Arc::new(FaultyFs {
            inner: InMemoryFileSystem::new(),
            countdown: Arc::clone(&countdown),
            injected: Arc::clone(&injected),
        });
        options.db_path = format!("audit_faults_{seed}");
        options.create_if_missing = true;
        options.max_memtable_size = 800;
        options.max_file_size = 500;
        options.max_block_size = 100;
        let db = DB::open(options).unwrap();

        let keys: Vec<Vec<u8>> = (0..120).map(|i| format!("k{:03}", i).into_bytes()).collect();
        let mut model: BTreeMap<Vec<u8>, Vec<u8>> = BTreeMap::new();
        for n in 0..1500 {
            let k = keys[rng.gen_range(0..keys.len())].clone();
            if rng.gen_range(0..100) < 30 {
                db.delete(WriteOptions::default(), k.clone()).unwrap();
                model.remove(&k);
            } else {
                let v = format!("v{n}{}", "z".repeat(n % 37)).into_bytes();
                db.put(WriteOptions::default(), k.clone(), v.clone()).unwrap();
                model.insert(k, v);
            }
            settle(&db);
        }
        let entries: Vec<(&Vec<u8>, &Vec<u8>)> = model.iter().collect();
        assert!(db.verif_files().len() > 3, "{:?}", db.verif_files().len());

        for round in 0..150 {
            // no block caching: every block access goes to the file
            let mut iter = db
                .new_iterator(ReadOptions {
                    fill_cache: false,
                    snapshot: None,
                })
                .unwrap();
            let mut pos: Option<usize> = None;
            // arm a single fault some reads from now
            countdown.store(rng.gen_range(0..60), Ordering::SeqCst);
            let before = injected.load(Ordering::SeqCst);
            let mut tainted = false; // a fault happened since the last full re-position
            let mut trace: Vec<String> = vec![];
            if std::env::var("AUDIT_DBG_ROUND").ok().and_then(|r| r.parse::<usize>().ok()) == Some(round) && seed == 0 {
                std::env::set_var("AUDIT_DBG", "1");
            }
            for step in 0..80 {
                let choice = rng.gen_range(0..100);
                let mut repositioned = false;
                let injected_before_op = injected.load(Ordering::SeqCst);
                // while the iterator and the model disagree only re-position
                let in_sync = iter.is_valid() == pos.is_some();
                if pos.is_none() || !in_sync || choice < 12 {
                    repositioned = true;
                    match rng.gen_range(0..3) {
                        0 => {
                            trace.push("seek_to_first".into());
                            let _ = iter.seek_to_first();
                            pos = if entries.is_empty() { None } else { Some(0) };
                        }
                        1 => {
                            trace.push("seek_to_last".into());
                            let _ = iter.seek_to_last();
                            pos = entries.len().checked_sub(1);
                        }
                        _ => {
                            let target = keys[rng.gen_range(0..keys.len())].clone();
                            trace.push(format!("seek({})", String::from_utf8_lossy(&target)));
                            let _ = iter.seek(&target);
                            let idx = entries.partition_point(|(k, _)| **k < target);
                            pos = if idx < entries.len() { Some(idx) } else { None };
                        }
                    }
                } else if choice < 56 {
                    trace.push("next".into());
                    iter.next();
                    let p = pos.unwrap();
                    pos = if p + 1 < entries.len() { Some(p + 1) } else { None };
                } else {
                    trace.push("prev".into());
                    iter.prev();
                    let p = pos.unwrap();
                    pos = p.checked_sub(1);
                }
                let fault_in_op = injected.load(Ordering::SeqCst) != injected_before_op;
                if std::env::var_os("AUDIT_DBG").is_some() { eprintln!("OP {}", trace.last().unwrap()); }
                {
                    let last = trace.last_mut().unwrap();
                    last.push_str(&format!(
                        " -> {:?}{}{}",
                        if iter.is_valid() {
                            Some(String::from_utf8_lossy(iter.current().unwrap().0).to_string())
                        } else {
                            None
                        },
                        if fault_in_op { " FAULT" } else { "" },
                        if iter.status().is_some() { " status" } else { "" }
                    ));
                }
                if repositioned {
                    tainted = fault_in_op;
                } else if fault_in_op {
                    tainted = true;
                }

                let matches = iter.is_valid() == pos.is_some()
                    && (pos.is_none() || {
                        let (k, v) = iter.current().unwrap();
                        (k, v) == (entries[pos.unwrap()].0, entries[pos.unwrap()].1)
                    });
                if !matches {
                    if tainted && iter.status().is_none() && std::env::var_os("AUDIT_TOLERATE_K1").is_some() {
                        known_k1 += 1;
                        pos = None;
                        continue;
                    }
                    assert!(
                        iter.status().is_some(),
                        "seed {seed} round {round} step {step}: the iterator is at {:?} where the \
                         sorted map is at {:?} and status() reports no error (fault injected: {}); trace {:#?}",
                        if iter.is_valid() { Some(iter.current().unwrap().0.clone()) } else { None },
                        pos.map(|p| entries[p].0),
                        tainted,
                        trace
                    );
                    divergences_with_status += 1;
                    // the walk cannot be continued from an unknown position
                    pos = None;
                    if iter.is_valid() {
                        // force a re-position at the next step
                        pos = None;
                    }
                } else if !tainted {
                    assert!(
                        iter.status().is_none(),
                        "seed {seed} round {round} step {step}: status() reports {:?} although no \
                         read failed since the last re-positioning",
                        iter.status()
                    );
                }
                if !matches {
                    // re-synchronise: next loop iteration re-positions because pos is None
                    continue;
                }
            }
            countdown.store(-1, Ordering::SeqCst);
            total_injected += injected.load(Ordering::SeqCst) - before;
        }
    }
    eprintln!(
        "injected {total_injected} faults; {divergences_with_status} divergent positions with status(); {known_k1} divergent positions without status() after a fault"
    );
    assert!(total_injected > 0);
}
