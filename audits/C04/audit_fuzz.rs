//! Randomised differential test of `DatabaseIterator` against a sorted-map model.
//! (exploration harness of the C04 audit)

use std::collections::BTreeMap;
use std::time::Duration;

use rand::rngs::StdRng;
use rand::{Rng, SeedableRng};

use raindb::{DbOptions, RainDbIterator, ReadOptions, Snapshot, WriteOptions, DB};

type Model = BTreeMap<Vec<u8>, Vec<u8>>;

#[cfg(feature = "verif")]
fn settle(db: &DB) {
    for _ in 0..20_000 {
        let probe = db.verif_probe();
        if !probe.has_immutable_memtable && !probe.background_compaction_scheduled {
            assert!(probe.bad_state.is_none(), "bad state {:?}", probe.bad_state);
            return;
        }
        std::thread::sleep(Duration::from_micros(200));
    }
    panic!("database did not settle");
}

#[cfg(not(feature = "verif"))]
fn settle(_db: &DB) {
    std::thread::sleep(Duration::from_millis(2));
}

fn key_space(rng: &mut StdRng, n: usize) -> Vec<Vec<u8>> {
    let mut keys: Vec<Vec<u8>> = vec![];
    keys.push(vec![]);
    keys.push(vec![0xff]);
    keys.push(vec![0xff, 0xff]);
    keys.push(vec![0xff, 0xff, 0xff]);
    keys.push(vec![0x00]);
    while keys.len() < n {
        let len = rng.gen_range(1..6);
        let k: Vec<u8> = (0..len)
            .map(|_| match rng.gen_range(0..10) {
                0 => 0xff,
                1 => 0x00,
                _ => b'a' + rng.gen_range(0..4) as u8,
            })
            .collect();
        if !keys.contains(&k) {
            keys.push(k);
        }
    }
    keys
}

fn check_iter(
    db: &DB,
    model: &Model,
    snapshot: Option<Snapshot>,
    keys: &[Vec<u8>],
    rng: &mut StdRng,
    steps: usize,
    ctx: &str,
) {
    let entries: Vec<(&Vec<u8>, &Vec<u8>)> = model.iter().collect();
    let mut iter = db
        .new_iterator(ReadOptions {
            fill_cache: rng.gen_bool(0.5),
            snapshot,
        })
        .unwrap();
    let mut pos: Option<usize> = None;
    let mut trace: Vec<String> = vec![];
    for _ in 0..steps {
        let choice = rng.gen_range(0..100);
        let op: String;
        if pos.is_none() || choice < 15 {
            match rng.gen_range(0..4) {
                0 => {
                    iter.seek_to_first().unwrap();
                    pos = if entries.is_empty() { None } else { Some(0) };
                    op = "seek_to_first".into();
                }
                1 => {
                    iter.seek_to_last().unwrap();
                    pos = if entries.is_empty() {
                        None
                    } else {
                        Some(entries.len() - 1)
                    };
                    op = "seek_to_last".into();
                }
                _ => {
                    let target = if rng.gen_bool(0.8) {
                        keys[rng.gen_range(0..keys.len())].clone()
                    } else {
                        let mut k = keys[rng.gen_range(0..keys.len())].clone();
                        k.push(rng.gen_range(0..=255u8));
                        k
                    };
                    iter.seek(&target).unwrap();
                    let idx = entries.partition_point(|(k, _)| **k < target);
                    pos = if idx < entries.len() { Some(idx) } else { None };
                    op = format!("seek({:?})", target);
                }
            }
        } else if choice < 60 {
            let returned = iter.next().map(|(k, v)| (k.clone(), v.clone()));
            let p = pos.unwrap();
            pos = if p + 1 < entries.len() { Some(p + 1) } else { None };
            op = "next".into();
            let expected = pos.map(|p| (entries[p].0.clone(), entries[p].1.clone()));
            trace.push(op.clone());
            assert_eq!(
                returned, expected,
                "{ctx}: next() returned wrong entry; trace {:?}",
                trace
            );
            trace.pop();
        } else {
            let returned = iter.prev().map(|(k, v)| (k.clone(), v.clone()));
            let p = pos.unwrap();
            pos = if p > 0 { Some(p - 1) } else { None };
            op = "prev".into();
            let expected = pos.map(|p| (entries[p].0.clone(), entries[p].1.clone()));
            trace.push(op.clone());
            assert_eq!(
                returned, expected,
                "{ctx}: prev() returned wrong entry; trace {:?}",
                trace
            );
            trace.pop();
        }
        trace.push(op);
        if trace.len() > 40 {
            trace.remove(0);
        }
        assert_eq!(
            iter.is_valid(),
            pos.is_some(),
            "{ctx}: validity mismatch (model position {:?} = {:?}); trace {:?}",
            pos,
            pos.map(|p| entries[p].0),
            trace
        );
        if let Some(p) = pos {
            let (k, v) = iter.current().unwrap();
            assert_eq!(
                (k, v),
                (entries[p].0, entries[p].1),
                "{ctx}: wrong current entry; trace {:?}",
                trace
            );
        }
        assert!(iter.status().is_none(), "{ctx}: iterator error {:?}", iter.status());
    }
}

struct Cfg {
    memtable: usize,
    file: u64,
    block: usize,
    nkeys: usize,
    rounds: usize,
    max_val: usize,
    reopen: bool,
    gets: usize,
}

fn run(seed: u64, cfg: &Cfg) {
    let mut rng = StdRng::seed_from_u64(seed);
    let mut options = DbOptions::with_memory_env();
    options.db_path = format!("audit_fuzz_{seed}");
    if std::env::var("AUDIT_DISK").is_ok() {
        let root = std::path::PathBuf::from(env!("CARGO_MANIFEST_DIR")).join("target/audit_tmp");
        std::fs::create_dir_all(&root).unwrap();
        let tmp_fs = raindb::fs::TmpFileSystem::new(Some(&root));
        options.db_path = tmp_fs
            .get_root_path()
            .join(format!("db{seed}"))
            .to_str()
            .unwrap()
            .to_owned();
        options.filesystem_provider = std::sync::Arc::new(tmp_fs);
    }
    options.create_if_missing = true;
    options.max_memtable_size = cfg.memtable;
    options.max_file_size = cfg.file;
    options.max_block_size = cfg.block;
    let mut db = DB::open(options.clone()).unwrap();
    let keys = key_space(&mut rng, cfg.nkeys);

    let mut model: Model = BTreeMap::new();
    let mut snapshots: Vec<(Snapshot, Model)> = vec![];

    for round in 0..cfg.rounds {
        // a burst of writes
        let burst = rng.gen_range(1..40);
        if rng.gen_range(0..10) == 0 {
            // one multi-operation batch (may touch a key several times)
            let mut batch = raindb::Batch::new();
            for i in 0..rng.gen_range(1..12) {
                let k = keys[rng.gen_range(0..keys.len())].clone();
                if rng.gen_bool(0.4) {
                    batch.add_delete(k.clone());
                    model.remove(&k);
                } else {
                    let v = format!("b{round}.{i}").into_bytes();
                    batch.add_put(k.clone(), v.clone());
                    model.insert(k, v);
                }
            }
            db.apply(WriteOptions::default(), batch).unwrap();
            settle(&db);
        }
        if cfg.reopen && rng.gen_range(0..25) == 0 && snapshots.is_empty() {
            drop(db);
            let mut o = options.clone();
            o.reuse_log_files = rng.gen_bool(0.5);
            db = DB::open(o).unwrap();
            settle(&db);
            let ctx = format!("seed {seed} round {round} after reopen");
            check_iter(&db, &model, None, &keys, &mut rng, 60, &ctx);
        }
        for _ in 0..burst {
            let k = keys[rng.gen_range(0..keys.len())].clone();
            if rng.gen_range(0..100) < 35 {
                db.delete(WriteOptions::default(), k.clone()).unwrap();
                model.remove(&k);
            } else {
                let vlen = match rng.gen_range(0..10) {
                    0 => 0,
                    1 => rng.gen_range(0..cfg.max_val),
                    _ => rng.gen_range(0..12),
                };
                let fill = rng.gen_range(b'A'..=b'Z');
                let mut v = vec![fill; vlen];
                if rng.gen_range(0..6) != 0 {
                    v.extend_from_slice(format!("{round}").as_bytes());
                }
                db.put(WriteOptions::default(), k.clone(), v.clone()).unwrap();
                model.insert(k, v);
            }
            settle(&db);
        }
        match rng.gen_range(0..20) {
            0 => {
                db.compact_range(None..None);
                settle(&db);
            }
            1 => {
                let a = &keys[rng.gen_range(0..keys.len())];
                let b = &keys[rng.gen_range(0..keys.len())];
                let (a, b) = if a <= b { (a, b) } else { (b, a) };
                db.compact_range(Some(a.as_slice())..Some(b.as_slice()));
                settle(&db);
            }
            2 | 3 => {
                snapshots.push((db.get_snapshot(), model.clone()));
            }
            4 => {
                if !snapshots.is_empty() {
                    let idx = rng.gen_range(0..snapshots.len());
                    let (snap, _) = snapshots.remove(idx);
                    db.release_snapshot(snap);
                }
            }
            _ => {}
        }

        // point reads: check them and charge seeks so that seek compactions push files deeper
        for _ in 0..cfg.gets {
            let k = &keys[rng.gen_range(0..keys.len())];
            let got = db.get(ReadOptions::default(), k).ok();
            assert_eq!(got.as_ref(), model.get(k), "seed {seed} round {round}: get({:?})", k);
        }
        settle(&db);

        let ctx = format!("seed {seed} round {round}");
        check_iter(&db, &model, None, &keys, &mut rng, 60, &ctx);
        if !snapshots.is_empty() && rng.gen_bool(0.5) {
            let idx = rng.gen_range(0..snapshots.len());
            let (snap, snap_model) = &snapshots[idx];
            let ctx = format!("seed {seed} round {round} snapshot {idx}");
            check_iter(&db, snap_model, Some(snap.clone()), &keys, &mut rng, 60, &ctx);
        }
    }
    #[cfg(feature = "verif")]
    {
        let mut counts = [0usize; 7];
        for f in db.verif_files() {
            counts[f.level] += 1;
        }
        eprintln!("  final level file counts {:?}", counts);
    }
}

fn seeds() -> std::ops::Range<u64> {
    let start: u64 = std::env::var("AUDIT_SEED_START")
        .ok()
        .and_then(|s| s.parse().ok())
        .unwrap_or(0);
    let count: u64 = std::env::var("AUDIT_SEED_COUNT")
        .ok()
        .and_then(|s| s.parse().ok())
        .unwrap_or(3);
    start..start + count
}

#[test]
fn fuzz_tiny() {
    for seed in seeds() {
        eprintln!("seed {seed}");
        run(
            seed,
            &Cfg {
                memtable: 600,
                file: 400,
                block: 80,
                nkeys: 40,
                rounds: 150,
                max_val: 300,
                reopen: false,
                gets: 0,
            },
        );
    }
}

#[test]
fn fuzz_medium() {
    for seed in seeds() {
        eprintln!("seed {seed}");
        run(
            seed + 1000,
            &Cfg {
                memtable: 3000,
                file: 1500,
                block: 200,
                nkeys: 120,
                rounds: 150,
                max_val: 600,
                reopen: false,
                gets: 0,
            },
        );
    }
}

#[test]
fn fuzz_reopen() {
    for seed in seeds() {
        eprintln!("seed {seed}");
        run(
            seed + 2000,
            &Cfg {
                memtable: 900,
                file: 500,
                block: 100,
                nkeys: 50,
                rounds: 200,
                max_val: 300,
                reopen: true,
                gets: 0,
            },
        );
    }
}

#[test]
fn fuzz_deep() {
    for seed in seeds() {
        eprintln!("seed {seed}");
        run(
            seed + 3000,
            &Cfg {
                memtable: 700,
                file: 400,
                block: 100,
                nkeys: 60,
                rounds: 300,
                max_val: 200,
                reopen: false,
                gets: 150,
            },
        );
    }
}

#[test]
fn fuzz_one_entry_files() {
    for seed in seeds() {
        eprintln!("seed {seed}");
        run(
            seed + 4000,
            &Cfg {
                memtable: 2000,
                file: 1,
                block: 1,
                nkeys: 12,
                rounds: 120,
                max_val: 50,
                reopen: true,
                gets: 30,
            },
        );
    }
}

#[test]
fn fuzz_big_memtable() {
    for seed in seeds() {
        eprintln!("seed {seed}");
        run(
            seed + 5000,
            &Cfg {
                memtable: 60_000,
                file: 3000,
                block: 120,
                nkeys: 8,
                rounds: 400,
                max_val: 100,
                reopen: true,
                gets: 10,
            },
        );
    }
}

/// A long-lived iterator with the model it must keep showing.
struct Live {
    iter: Box<dyn RainDbIterator<Key = Vec<u8>, Error = raindb::RainDBError>>,
    entries: Vec<(Vec<u8>, Vec<u8>)>,
    pos: Option<usize>,
    born: usize,
}

fn step_live(live: &mut Live, keys: &[Vec<u8>], rng: &mut StdRng, steps: usize, ctx: &str) {
    let entries = &live.entries;
    for _ in 0..steps {
        let choice = rng.gen_range(0..100);
        let op: String;
        if live.pos.is_none() || choice < 10 {
            match rng.gen_range(0..4) {
                0 => {
                    live.iter.seek_to_first().unwrap();
                    live.pos = if entries.is_empty() { None } else { Some(0) };
                    op = "seek_to_first".into();
                }
                1 => {
                    live.iter.seek_to_last().unwrap();
                    live.pos = entries.len().checked_sub(1);
                    op = "seek_to_last".into();
                }
                _ => {
                    let target = keys[rng.gen_range(0..keys.len())].clone();
                    live.iter.seek(&target).unwrap();
                    let idx = entries.partition_point(|(k, _)| *k < target);
                    live.pos = if idx < entries.len() { Some(idx) } else { None };
                    op = format!("seek({:?})", target);
                }
            }
        } else if choice < 55 {
            live.iter.next();
            let p = live.pos.unwrap();
            live.pos = if p + 1 < entries.len() { Some(p + 1) } else { None };
            op = "next".into();
        } else {
            live.iter.prev();
            let p = live.pos.unwrap();
            live.pos = if p > 0 { Some(p - 1) } else { None };
            op = "prev".into();
        }
        assert_eq!(
            live.iter.is_valid(),
            live.pos.is_some(),
            "{ctx}: iterator born in round {}: validity mismatch after {op}; model position {:?}; status {:?}",
            live.born,
            live.pos.map(|p| &entries[p].0),
            live.iter.status()
        );
        if let Some(p) = live.pos {
            let (k, v) = live.iter.current().unwrap();
            assert_eq!(
                (k, v),
                (&entries[p].0, &entries[p].1),
                "{ctx}: iterator born in round {}: wrong entry after {op}",
                live.born
            );
        }
    }
}

fn run_live(seed: u64, memtable: usize, file: u64, block: usize, nkeys: usize, rounds: usize) {
    let mut rng = StdRng::seed_from_u64(seed);
    let mut options = DbOptions::with_memory_env();
    options.db_path = format!("audit_live_{seed}");
    options.create_if_missing = true;
    options.max_memtable_size = memtable;
    options.max_file_size = file;
    options.max_block_size = block;
    let db = DB::open(options).unwrap();
    let keys = key_space(&mut rng, nkeys);
    let mut model: Model = BTreeMap::new();
    let mut lives: Vec<Live> = vec![];

    for round in 0..rounds {
        for _ in 0..rng.gen_range(1..60) {
            let k = keys[rng.gen_range(0..keys.len())].clone();
            if rng.gen_range(0..100) < 35 {
                db.delete(WriteOptions::default(), k.clone()).unwrap();
                model.remove(&k);
            } else {
                let v = format!("{round}-{}", "x".repeat(rng.gen_range(0..40))).into_bytes();
                db.put(WriteOptions::default(), k.clone(), v.clone()).unwrap();
                model.insert(k, v);
            }
        }
        if rng.gen_range(0..15) == 0 {
            db.compact_range(None..None);
        }
        if lives.len() < 4 && rng.gen_bool(0.5) {
            lives.push(Live {
                iter: Box::new(db.new_iterator(ReadOptions::default()).unwrap()),
                entries: model.iter().map(|(k, v)| (k.clone(), v.clone())).collect(),
                pos: None,
                born: round,
            });
        }
        let ctx = format!("seed {seed} round {round}");
        for live in lives.iter_mut() {
            step_live(live, &keys, &mut rng, 25, &ctx);
        }
        if !lives.is_empty() && rng.gen_range(0..6) == 0 {
            let idx = rng.gen_range(0..lives.len());
            lives.remove(idx);
        }
    }
}

#[test]
fn fuzz_live_iterators() {
    for seed in seeds() {
        eprintln!("seed {seed}");
        run_live(seed + 6000, 700, 400, 100, 50, 300);
        run_live(seed + 7000, 3000, 1000, 200, 200, 300);
    }
}

#[cfg(feature = "verif")]
mod jitter {
    use std::sync::atomic::{AtomicU64, Ordering};
    use std::time::Duration;

    /// Sleeps for a pseudo-random short time at every scheduling point.
    pub struct Jitter(pub AtomicU64);

    impl raindb::verif::Handler for Jitter {
        fn pause(&self, _point: &'static str, _args: &[u64]) {
            let x = self
                .0
                .fetch_add(0x9E37_79B9_7F4A_7C15, Ordering::Relaxed)
                .wrapping_mul(0xBF58_476D_1CE4_E5B9);
            match (x >> 60) & 7 {
                0 => std::thread::sleep(Duration::from_micros(((x >> 40) & 1023) + 1)),
                1 | 2 => std::thread::yield_now(),
                _ => {}
            }
        }

        fn note(&self, _point: &'static str, _args: &[u64]) {}
    }
}

#[cfg(feature = "verif")]
#[test]
fn fuzz_live_iterators_jitter() {
    raindb::verif::set_handler(Some(std::sync::Arc::new(jitter::Jitter(
        std::sync::atomic::AtomicU64::new(12345),
    ))));
    for seed in seeds() {
        eprintln!("seed {seed}");
        run_live(seed + 8000, 500, 300, 80, 40, 400);
    }
    raindb::verif::set_handler(None);
}

/// Iterators must be self-consistent while other threads write and compactions run: the list of
/// entries of a full forward scan is the model for everything the same iterator does afterwards.
#[test]
fn fuzz_concurrent_writers_self_consistency() {
    use std::sync::atomic::{AtomicBool, Ordering};
    use std::sync::Arc;

    for seed in seeds() {
        eprintln!("seed {seed}");
        let mut rng = StdRng::seed_from_u64(seed + 9000);
        let mut options = DbOptions::with_memory_env();
        options.db_path = format!("audit_conc_{seed}");
        options.create_if_missing = true;
        options.max_memtable_size = 2000;
        options.max_file_size = 800;
        options.max_block_size = 100;
        let db = Arc::new(DB::open(options).unwrap());
        let keys = Arc::new(key_space(&mut rng, 80));
        let stop = Arc::new(AtomicBool::new(false));

        let mut writers = vec![];
        for t in 0..2u64 {
            let db = Arc::clone(&db);
            let keys = Arc::clone(&keys);
            let stop = Arc::clone(&stop);
            writers.push(std::thread::spawn(move || {
                let mut rng = StdRng::seed_from_u64(seed * 10 + t);
                let mut n = 0u64;
                while !stop.load(Ordering::Relaxed) {
                    let k = keys[rng.gen_range(0..keys.len())].clone();
                    if rng.gen_range(0..100) < 35 {
                        db.delete(WriteOptions::default(), k).unwrap();
                    } else {
                        let v = format!("{t}-{n}-{}", "y".repeat(rng.gen_range(0..30)));
                        db.put(WriteOptions::default(), k, v.into_bytes()).unwrap();
                    }
                    n += 1;
                    if n % 64 == 0 {
                        std::thread::sleep(Duration::from_micros(300));
                    }
                }
            }));
        }

        for round in 0..150 {
            let mut iter = db.new_iterator(ReadOptions::default()).unwrap();
            let mut entries: Vec<(Vec<u8>, Vec<u8>)> = vec![];
            iter.seek_to_first().unwrap();
            while iter.is_valid() {
                let (k, v) = iter.current().unwrap();
                if let Some(last) = entries.last() {
                    assert!(
                        last.0 < *k,
                        "seed {seed} round {round}: forward scan not strictly increasing: {:?} then {:?}",
                        last.0,
                        k
                    );
                }
                entries.push((k.clone(), v.clone()));
                iter.next();
            }
            assert!(iter.status().is_none());
            // full backward scan must give the same list
            let mut backward: Vec<(Vec<u8>, Vec<u8>)> = vec![];
            iter.seek_to_last().unwrap();
            while iter.is_valid() {
                let (k, v) = iter.current().unwrap();
                backward.push((k.clone(), v.clone()));
                iter.prev();
            }
            backward.reverse();
            assert_eq!(
                entries, backward,
                "seed {seed} round {round}: forward and backward scans of one iterator differ"
            );
            let mut live = Live {
                iter: Box::new(iter),
                entries,
                pos: None,
                born: round,
            };
            let ctx = format!("seed {seed} round {round} (concurrent writers)");
            step_live(&mut live, &keys, &mut rng, 150, &ctx);
        }
        stop.store(true, Ordering::Relaxed);
        for w in writers {
            w.join().unwrap();
        }
    }
}
