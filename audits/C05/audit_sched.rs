//! Audit demonstration for property C05: forced schedules.
//!
//! A client thread (or the compaction thread) is parked at a named scheduling point of the `verif`
//! feature while other work runs to completion, then released. Every test fails iff the observed
//! results cannot be explained by a real-time respecting total order.
#![cfg(feature = "verif")]

use std::sync::{Arc, Condvar, Mutex, MutexGuard};
use std::thread;
use std::time::{Duration, Instant};

use raindb::verif::{self, Handler};
use raindb::{Batch, DbOptions, RainDBError, ReadOptions, WriteOptions, DB};

static SERIAL: Mutex<()> = Mutex::new(());

fn serial() -> MutexGuard<'static, ()> {
    SERIAL.lock().unwrap_or_else(|poison| poison.into_inner())
}

#[derive(Clone, Copy, PartialEq, Eq, Debug)]
enum GateState {
    Armed,
    Arrived,
    Released,
}

struct Gate {
    point: &'static str,
    thread_name: String,
    state: Mutex<GateState>,
    signal: Condvar,
}

impl Gate {
    fn wait_arrived(&self, what: &str) {
        let deadline = Instant::now() + Duration::from_secs(60);
        let mut state = self.state.lock().unwrap();
        while *state == GateState::Armed {
            let (guard, _) = self
                .signal
                .wait_timeout(state, Duration::from_millis(100))
                .unwrap();
            state = guard;
            assert!(
                Instant::now() < deadline,
                "harness: {what}: thread {} never reached {}",
                self.thread_name,
                self.point
            );
        }
    }

    fn arrived(&self) -> bool {
        *self.state.lock().unwrap() != GateState::Armed
    }

    fn release(&self) {
        *self.state.lock().unwrap_or_else(|poison| poison.into_inner()) = GateState::Released;
        self.signal.notify_all();
    }
}

#[derive(Default)]
struct Gates {
    gates: Mutex<Vec<Arc<Gate>>>,
    notes: Mutex<Vec<(&'static str, Vec<u64>)>>,
}

impl Gates {
    fn arm(&self, thread_name: &str, point: &'static str) -> Arc<Gate> {
        let gate = Arc::new(Gate {
            point,
            thread_name: thread_name.to_string(),
            state: Mutex::new(GateState::Armed),
            signal: Condvar::new(),
        });
        self.gates.lock().unwrap().push(Arc::clone(&gate));
        gate
    }

    fn count_notes(&self, point: &str) -> usize {
        self.notes.lock().unwrap().iter().filter(|(p, _)| *p == point).count()
    }
}

impl Handler for Gates {
    fn pause(&self, point: &'static str, _args: &[u64]) {
        let current = thread::current();
        let name = current.name().unwrap_or("");
        let gate = {
            let gates = self.gates.lock().unwrap();
            gates
                .iter()
                .find(|gate| {
                    gate.point == point
                        && gate.thread_name == name
                        && *gate.state.lock().unwrap() == GateState::Armed
                })
                .cloned()
        };
        if let Some(gate) = gate {
            let mut state = gate.state.lock().unwrap();
            *state = GateState::Arrived;
            gate.signal.notify_all();
            while *state != GateState::Released {
                state = gate.signal.wait(state).unwrap();
            }
        }
    }

    fn note(&self, point: &'static str, args: &[u64]) {
        self.notes.lock().unwrap().push((point, args.to_vec()));
    }
}

const BG_THREAD: &str = "raindb-tumtum";

struct Fixture {
    gates: Arc<Gates>,
    db: Arc<DB>,
}

impl Drop for Fixture {
    fn drop(&mut self) {
        // Never leave a thread parked.
        for gate in self.gates.gates.lock().unwrap_or_else(|poison| poison.into_inner()).iter() {
            gate.release();
        }
        verif::set_handler(None);
    }
}

fn fixture(name: &str, memtable: usize, file: u64, block: usize) -> Fixture {
    let gates = Arc::new(Gates::default());
    verif::set_handler(Some(gates.clone() as Arc<dyn Handler>));
    let mut options = DbOptions::with_memory_env();
    options.db_path = format!("/sched-{name}");
    options.create_if_missing = true;
    options.max_memtable_size = memtable;
    options.max_file_size = file;
    options.max_block_size = block;
    let db = Arc::new(DB::open(options).expect("open"));
    Fixture { gates, db }
}

fn put(db: &DB, key: &[u8], value: &[u8]) {
    db.put(WriteOptions::default(), key.to_vec(), value.to_vec())
        .expect("put");
}

fn get(db: &DB, key: &[u8]) -> Result<Option<Vec<u8>>, String> {
    match db.get(ReadOptions::default(), key) {
        Ok(value) => Ok(Some(value)),
        Err(RainDBError::KeyNotFound) => Ok(None),
        Err(err) => Err(err.to_string()),
    }
}

fn filler(db: &DB, round: usize, count: usize, size: usize) {
    for idx in 0..count {
        put(
            db,
            format!("fill-{:02}-{:04}", round, idx).as_bytes(),
            &vec![b'a' + (round % 26) as u8; size],
        );
    }
}

fn wait_quiescent(db: &DB) {
    let deadline = Instant::now() + Duration::from_secs(60);
    loop {
        let probe = db.verif_probe();
        if !probe.has_immutable_memtable
            && !probe.background_compaction_scheduled
            && !probe.needs_compaction
        {
            return;
        }
        assert!(Instant::now() < deadline, "harness: background work did not settle: {probe:?}");
        thread::sleep(Duration::from_millis(5));
    }
}

fn show(value: &Result<Option<Vec<u8>>, String>) -> String {
    match value {
        Ok(Some(value)) => format!("Some({:?})", String::from_utf8_lossy(value)),
        Ok(None) => "NotFound".to_string(),
        Err(err) => format!("Err({err})"),
    }
}

/// A get is parked at `point` after it captured its view (memtable, immutable memtable, version).
/// Meanwhile the key is overwritten, the memtable is rotated and flushed several times, everything
/// is compacted and obsolete files are deleted. The get may return the old or the new value (it
/// overlaps the overwrite); NotFound, an error or any other value is a violation. A second get by
/// the same thread must return the new value.
fn parked_get_survives_full_turnover(point: &'static str, key_in_table_first: bool) {
    let _serial = serial();
    let fx = fixture(&format!("get-{point}-{key_in_table_first}"), 2048, 1024, 128);
    let db = &fx.db;

    put(db, b"key", b"v1");
    if key_in_table_first {
        filler(db, 0, 30, 100);
        db.compact_range(None..None);
        wait_quiescent(db);
        assert!(!db.verif_files().is_empty(), "harness: expected table files");
    }

    let reader_name = format!("reader-{point}");
    let gate = fx.gates.arm(&reader_name, point);
    let reader_db = Arc::clone(db);
    let reader = thread::Builder::new()
        .name(reader_name)
        .spawn(move || {
            let first = get(&reader_db, b"key");
            let second = get(&reader_db, b"key");
            (first, second)
        })
        .unwrap();
    gate.wait_arrived("parking the reader");

    let files_before: Vec<u64> = db
        .verif_files()
        .iter()
        .filter(|file| {
            file.smallest.user_key.as_slice() <= b"key".as_slice()
                && b"key".as_slice() <= file.largest.user_key.as_slice()
        })
        .map(|file| file.number)
        .collect();
    put(db, b"key", b"v2");
    for round in 1..6 {
        filler(db, round, 40, 100);
        db.compact_range(None..None);
    }
    wait_quiescent(db);
    let files_after: Vec<u64> = db.verif_files().iter().map(|file| file.number).collect();
    if key_in_table_first {
        assert!(!files_before.is_empty(), "harness: no file holds the key");
        assert!(
            files_before.iter().all(|number| !files_after.contains(number)),
            "harness: the files of the reader's version were expected to be compacted away"
        );
    }
    assert!(fx.gates.count_notes("gc.plan") > 0, "harness: no file deletion pass ran");

    gate.release();
    let (first, second) = reader.join().unwrap();
    assert!(
        first == Ok(Some(b"v1".to_vec())) || first == Ok(Some(b"v2".to_vec())),
        "get parked at {point} returned {}; the property requires v1 (current when the get started) \
        or v2 (written while it ran)",
        show(&first)
    );
    assert_eq!(
        second,
        Ok(Some(b"v2".to_vec())),
        "a get that started after put(key, v2) was acknowledged returned {}",
        show(&second)
    );
}

#[test]
fn get_parked_before_memtable_key_in_memtable() {
    parked_get_survives_full_turnover("get.unlocked", false);
}

#[test]
fn get_parked_before_memtable_key_in_table() {
    parked_get_survives_full_turnover("get.unlocked", true);
}

#[test]
fn get_parked_before_imm_key_in_table() {
    parked_get_survives_full_turnover("get.before_imm", true);
}

#[test]
fn get_parked_before_tables_key_in_table() {
    parked_get_survives_full_turnover("get.before_tables", true);
}

/// The key is only in the immutable memtable when the get captures its view; the flush, the drop of
/// the immutable memtable and later compactions complete while the get is parked.
#[test]
fn get_parked_with_key_only_in_immutable_memtable() {
    let _serial = serial();
    let fx = fixture("get-imm", 2048, 1024, 128);
    let db = &fx.db;

    // Hold the flush so that the immutable memtable stays around.
    let flush_gate = fx.gates.arm(BG_THREAD, "flush.before_build");
    put(db, b"key", b"v1");
    let mut round = 0;
    while !db.verif_probe().has_immutable_memtable {
        filler(db, round, 1, 100);
        round += 1;
        assert!(round < 1000, "harness: no memtable rotation happened");
    }
    flush_gate.wait_arrived("parking the flush");
    assert!(db.verif_probe().has_immutable_memtable);

    let gate = fx.gates.arm("reader-imm", "get.before_imm");
    let reader_db = Arc::clone(db);
    let reader = thread::Builder::new()
        .name("reader-imm".to_string())
        .spawn(move || (get(&reader_db, b"key"), get(&reader_db, b"key")))
        .unwrap();
    gate.wait_arrived("parking the reader");

    flush_gate.release();
    wait_quiescent(db);
    assert!(!db.verif_probe().has_immutable_memtable);
    put(db, b"key", b"v2");
    for extra in 0..4 {
        filler(db, 50 + extra, 40, 100);
        db.compact_range(None..None);
    }
    wait_quiescent(db);

    gate.release();
    let (first, second) = reader.join().unwrap();
    assert!(
        first == Ok(Some(b"v1".to_vec())) || first == Ok(Some(b"v2".to_vec())),
        "get whose view holds the key only in the immutable memtable returned {}; v1 or v2 required",
        show(&first)
    );
    assert_eq!(second, Ok(Some(b"v2".to_vec())), "second get returned {}", show(&second));
}

/// While the flush of the immutable memtable has written its table but has not installed the
/// version yet (parked in the manifest write, database mutex released), gets must still see every
/// acknowledged write, and writes keep working.
#[test]
fn gets_during_manifest_write_of_a_flush() {
    let _serial = serial();
    let fx = fixture("manifest-window", 2048, 1024, 128);
    let db = &fx.db;

    put(db, b"key", b"v1");
    put(db, b"gone", b"x");
    db.delete(WriteOptions::default(), b"gone".to_vec()).unwrap();
    let manifest_gate = fx.gates.arm(BG_THREAD, "manifest.before_append");
    let mut round = 0;
    while !db.verif_probe().has_immutable_memtable {
        filler(db, round, 1, 100);
        round += 1;
        assert!(round < 1000, "harness: no memtable rotation happened");
    }
    manifest_gate.wait_arrived("parking the flush in the manifest write");
    assert_eq!(get(db, b"key"), Ok(Some(b"v1".to_vec())));
    assert_eq!(get(db, b"gone"), Ok(None));
    put(db, b"key", b"v2");
    assert_eq!(get(db, b"key"), Ok(Some(b"v2".to_vec())));
    manifest_gate.release();
    wait_quiescent(db);
    assert_eq!(get(db, b"key"), Ok(Some(b"v2".to_vec())));
    assert_eq!(get(db, b"gone"), Ok(None));
}

/// A group-commit leader is parked between the WAL append and the memtable insertion while other
/// writers queue behind it and readers run. Nobody may observe the leader's or the followers'
/// values before they are published, every writer gets Ok, and afterwards all values are there.
#[test]
fn leader_parked_after_wal_with_queued_followers() {
    let _serial = serial();
    let fx = fixture("leader-parked", 1 << 20, 1 << 20, 4096);
    let db = &fx.db;
    put(db, b"a", b"a0");
    put(db, b"b", b"b0");
    put(db, b"c", b"c0");

    let gate = fx.gates.arm("leader", "write.after_wal");
    let leader_db = Arc::clone(db);
    let leader = thread::Builder::new()
        .name("leader".to_string())
        .spawn(move || leader_db.put(WriteOptions::default(), b"a".to_vec(), b"a1".to_vec()))
        .unwrap();
    gate.wait_arrived("parking the leader");

    let mut followers = vec![];
    for (key, value) in [(b"b", b"b1"), (b"c", b"c1")] {
        let follower_db = Arc::clone(db);
        followers.push(thread::spawn(move || {
            let mut batch = Batch::new();
            batch.add_put(key.to_vec(), value.to_vec());
            batch.add_delete(b"a".to_vec());
            batch.add_put(b"a".to_vec(), [b"a-".as_slice(), value.as_slice()].concat());
            follower_db.apply(WriteOptions::default(), batch)
        }));
    }
    thread::sleep(Duration::from_millis(200));
    assert_eq!(get(db, b"a"), Ok(Some(b"a0".to_vec())), "unpublished write visible");
    assert_eq!(get(db, b"b"), Ok(Some(b"b0".to_vec())), "unpublished write visible");
    gate.release();
    assert!(leader.join().unwrap().is_ok());
    for follower in followers {
        assert!(follower.join().unwrap().is_ok());
    }
    assert_eq!(get(db, b"b"), Ok(Some(b"b1".to_vec())));
    assert_eq!(get(db, b"c"), Ok(Some(b"c1".to_vec())));
    let a = get(db, b"a");
    assert!(
        a == Ok(Some(b"a-b1".to_vec())) || a == Ok(Some(b"a-c1".to_vec())),
        "the followers' batches were ordered after the leader's put, yet a = {}",
        show(&a)
    );
}
