//! Audit demonstration for property C05 (linearizability of concurrent operations).
//!
//! `stress_*`: single-writer-per-key register histories checked exactly against real time.

use std::collections::HashMap;
use std::sync::atomic::{AtomicBool, AtomicU64, Ordering};
use std::sync::{Arc, Mutex};
use std::thread;
use std::time::{Duration, Instant};

use raindb::{Batch, DbOptions, RainDBError, ReadOptions, WriteOptions, DB};

/// Version `v` of a key is a deletion iff this returns true. Version 0 is "never written".
fn is_delete(key_id: usize, version: u64) -> bool {
    version == 0 || (version.wrapping_mul(2654435761).wrapping_add(key_id as u64 * 97) >> 3) % 5 == 0
}

fn key_bytes(writer: usize, idx: usize) -> Vec<u8> {
    // A few boundary keys: empty, all 0xff, a single zero byte.
    match (writer, idx) {
        (0, 0) => return vec![],
        (0, 1) => return vec![0xff, 0xff, 0xff],
        (1, 0) => return vec![0xff],
        (1, 1) => return vec![0x00],
        (2, 0) => return vec![0xff, 0xff],
        _ => {}
    }
    // Interleave the keys of different writers in the sorted order and vary lengths.
    let mut key = format!("{:03}-w{}", idx, writer).into_bytes();
    if idx % 7 == 0 {
        key.extend(std::iter::repeat(b'x').take(idx % 40));
    }
    if idx % 11 == 0 {
        key.push(0xff);
        key.push(0xff);
    }
    key
}

fn value_bytes(version: u64, pad: usize) -> Vec<u8> {
    let mut value = format!("{:012}:", version).into_bytes();
    // Incompressible padding so that file sizes on disk follow the configured limits.
    let mut rng = Xorshift(version.wrapping_mul(0x9e3779b97f4a7c15) | 1);
    value.extend((0..pad).map(|_| (rng.next() >> 24) as u8));
    value
}

fn parse_version(value: &[u8]) -> u64 {
    std::str::from_utf8(&value[..12]).unwrap().parse().unwrap()
}

struct KeyState {
    key: Vec<u8>,
    id: usize,
    /// Highest version whose write has been started.
    started: AtomicU64,
    /// Highest version whose write has been acknowledged.
    acked: AtomicU64,
}

struct Xorshift(u64);
impl Xorshift {
    fn next(&mut self) -> u64 {
        let mut x = self.0;
        x ^= x << 13;
        x ^= x >> 7;
        x ^= x << 17;
        self.0 = x;
        x
    }
    fn below(&mut self, n: u64) -> u64 {
        self.next() % n
    }
}

struct StressConfig {
    name: &'static str,
    writers: usize,
    readers: usize,
    keys_per_writer: usize,
    max_memtable_size: usize,
    max_file_size: u64,
    max_block_size: usize,
    value_pad: usize,
    compactor: bool,
    duration: Duration,
    seed: u64,
    /// Use a temporary directory on the operating system's file system instead of memory.
    on_disk: bool,
    /// Every n-th write of a writer is synchronous (0: never).
    sync_every: u64,
    /// Every n-th put carries a value of this many bytes (0: never).
    huge_value: usize,
    /// Number of threads reading through snapshots.
    snapshot_readers: usize,
    /// Fault plan for the write-ahead log files (None: no faults). With faults, failed writes are
    /// treated as "outcome unknown" instead of ending the run.
    faults: Option<Arc<FaultPlan>>,
}

/// Faults injected into files whose name starts with `wal-`.
#[derive(Default)]
struct FaultPlan {
    /// Fail every n-th creation of a WAL file once armed (0: never).
    fail_wal_create_every: AtomicU64,
    wal_creates: AtomicU64,
    /// Fail every WAL append once this many appends have been made (0: never).
    fail_wal_appends_after: AtomicU64,
    wal_appends: AtomicU64,
    armed: AtomicBool,
}

struct FaultyFs {
    inner: Arc<dyn raindb::fs::FileSystem>,
    plan: Arc<FaultPlan>,
}

fn is_wal(path: &std::path::Path) -> bool {
    path.file_name()
        .map(|name| name.to_string_lossy().starts_with("wal-"))
        .unwrap_or(false)
}

struct FaultyFile {
    inner: Box<dyn raindb::fs::RandomAccessFile>,
    plan: Arc<FaultPlan>,
}

impl FaultyFile {
    fn check(&self) -> std::io::Result<()> {
        let limit = self.plan.fail_wal_appends_after.load(Ordering::SeqCst);
        let count = self.plan.wal_appends.fetch_add(1, Ordering::SeqCst) + 1;
        if self.plan.armed.load(Ordering::SeqCst) && limit > 0 && count > limit {
            return Err(std::io::Error::new(std::io::ErrorKind::Other, "injected WAL append fault"));
        }
        Ok(())
    }
}

impl std::io::Read for FaultyFile {
    fn read(&mut self, buf: &mut [u8]) -> std::io::Result<usize> {
        self.inner.read(buf)
    }
}
impl std::io::Seek for FaultyFile {
    fn seek(&mut self, pos: std::io::SeekFrom) -> std::io::Result<u64> {
        self.inner.seek(pos)
    }
}
impl std::io::Write for FaultyFile {
    fn write(&mut self, buf: &[u8]) -> std::io::Result<usize> {
        self.check()?;
        self.inner.write(buf)
    }
    fn flush(&mut self) -> std::io::Result<()> {
        self.inner.flush()
    }
}
impl raindb::fs::ReadonlyRandomAccessFile for FaultyFile {
    fn read_from(&self, buf: &mut [u8], offset: usize) -> std::io::Result<usize> {
        self.inner.read_from(buf, offset)
    }
    fn len(&self) -> std::io::Result<u64> {
        self.inner.len()
    }
}
impl raindb::fs::RandomAccessFile for FaultyFile {
    fn append(&mut self, buf: &[u8]) -> std::io::Result<usize> {
        self.check()?;
        self.inner.append(buf)
    }
}

impl raindb::fs::FileSystem for FaultyFs {
    fn get_name(&self) -> String {
        "FaultyFs".to_string()
    }
    fn create_dir(&self, path: &std::path::Path) -> std::io::Result<()> {
        self.inner.create_dir(path)
    }
    fn create_dir_all(&self, path: &std::path::Path) -> std::io::Result<()> {
        self.inner.create_dir_all(path)
    }
    fn list_dir(&self, path: &std::path::Path) -> std::io::Result<Vec<std::path::PathBuf>> {
        self.inner.list_dir(path)
    }
    fn open_file(
        &self,
        path: &std::path::Path,
    ) -> std::io::Result<Box<dyn raindb::fs::ReadonlyRandomAccessFile>> {
        self.inner.open_file(path)
    }
    fn rename(&self, from: &std::path::Path, to: &std::path::Path) -> std::io::Result<()> {
        self.inner.rename(from, to)
    }
    fn create_file(
        &self,
        path: &std::path::Path,
        append: bool,
    ) -> std::io::Result<Box<dyn raindb::fs::RandomAccessFile>> {
        if is_wal(path) {
            let every = self.plan.fail_wal_create_every.load(Ordering::SeqCst);
            let count = self.plan.wal_creates.fetch_add(1, Ordering::SeqCst) + 1;
            if self.plan.armed.load(Ordering::SeqCst) && every > 0 && count % every == 0 {
                return Err(std::io::Error::new(std::io::ErrorKind::Other, "injected WAL creation fault"));
            }
            let inner = self.inner.create_file(path, append)?;
            return Ok(Box::new(FaultyFile { inner, plan: Arc::clone(&self.plan) }));
        }
        self.inner.create_file(path, append)
    }
    fn remove_file(&self, path: &std::path::Path) -> std::io::Result<()> {
        self.inner.remove_file(path)
    }
    fn remove_dir(&self, path: &std::path::Path) -> std::io::Result<()> {
        self.inner.remove_dir(path)
    }
    fn remove_dir_all(&self, path: &std::path::Path) -> std::io::Result<()> {
        self.inner.remove_dir_all(path)
    }
    fn get_file_size(&self, path: &std::path::Path) -> std::io::Result<u64> {
        self.inner.get_file_size(path)
    }
    fn is_dir(&self, path: &std::path::Path) -> std::io::Result<bool> {
        self.inner.is_dir(path)
    }
    fn lock_file(&self, path: &std::path::Path) -> std::io::Result<raindb::fs::FileLock> {
        self.inner.lock_file(path)
    }
}

/// Random delays at the scheduling points of the `verif` feature to diversify the interleavings.
#[cfg(feature = "verif")]
struct Jitter;

#[cfg(feature = "verif")]
impl raindb::verif::Handler for Jitter {
    fn pause(&self, point: &'static str, _args: &[u64]) {
        thread_local! {
            static RNG: std::cell::RefCell<Xorshift> = std::cell::RefCell::new(Xorshift(
                0x9e3779b97f4a7c15 ^ (&() as *const () as u64) ^ std::time::SystemTime::now()
                    .duration_since(std::time::UNIX_EPOCH).unwrap().subsec_nanos() as u64 | 1,
            ));
        }
        // The per-entry points are hit very often; keep them cheap.
        let hot = matches!(point, "compact.step" | "write.mem_insert");
        let roll = RNG.with(|rng| rng.borrow_mut().below(1000));
        let (yield_below, short_below, long_below) = if hot { (20, 23, 24) } else { (200, 300, 330) };
        if roll < yield_below {
            thread::yield_now();
        } else if roll < short_below {
            thread::sleep(Duration::from_micros(50 + roll * 3));
        } else if roll < long_below {
            thread::sleep(Duration::from_millis(1 + roll % 4));
        }
    }

    fn note(&self, _point: &'static str, _args: &[u64]) {}
}

fn install_jitter() {
    #[cfg(feature = "verif")]
    {
        static ONCE: std::sync::Once = std::sync::Once::new();
        ONCE.call_once(|| raindb::verif::set_handler(Some(Arc::new(Jitter))));
    }
}

fn run_stress(config: StressConfig) {
    install_jitter();
    let mut options = if config.on_disk {
        let mut options = DbOptions::default();
        options.filesystem_provider = Arc::new(raindb::fs::TmpFileSystem::new(None));
        options
    } else {
        DbOptions::with_memory_env()
    };
    if let Some(plan) = config.faults.as_ref() {
        options.filesystem_provider = Arc::new(FaultyFs {
            inner: options.filesystem_provider(),
            plan: Arc::clone(plan),
        });
    }
    options.db_path = format!("audit-{}", config.name);
    options.create_if_missing = true;
    options.max_memtable_size = config.max_memtable_size;
    options.max_file_size = config.max_file_size;
    options.max_block_size = config.max_block_size;
    let db = Arc::new(DB::open(options).expect("open"));
    if let Some(plan) = config.faults.as_ref() {
        plan.armed.store(true, Ordering::SeqCst);
    }
    let tolerate_write_errors = config.faults.is_some();
    let num_failed_writes = Arc::new(AtomicU64::new(0));

    let mut keys: Vec<Arc<KeyState>> = vec![];
    for writer in 0..config.writers {
        for idx in 0..config.keys_per_writer {
            keys.push(Arc::new(KeyState {
                key: key_bytes(writer, idx),
                id: keys.len(),
                started: AtomicU64::new(0),
                acked: AtomicU64::new(0),
            }));
        }
    }
    let keys = Arc::new(keys);
    let stop = Arc::new(AtomicBool::new(false));
    let violations: Arc<Mutex<Vec<String>>> = Arc::new(Mutex::new(vec![]));
    let num_reads = Arc::new(AtomicU64::new(0));
    let num_writes = Arc::new(AtomicU64::new(0));

    let mut handles = vec![];
    for writer in 0..config.writers {
        let db = Arc::clone(&db);
        let keys = Arc::clone(&keys);
        let stop = Arc::clone(&stop);
        let violations = Arc::clone(&violations);
        let num_writes = Arc::clone(&num_writes);
        let num_failed_writes = Arc::clone(&num_failed_writes);
        let keys_per_writer = config.keys_per_writer;
        let pad = config.value_pad;
        let sync_every = config.sync_every;
        let huge_value = config.huge_value;
        let mut rng = Xorshift(config.seed ^ (0x9e3779b97f4a7c15u64.wrapping_mul(writer as u64 + 1)));
        handles.push(thread::spawn(move || {
            let base = writer * keys_per_writer;
            let mut op_counter: u64 = 0;
            while !stop.load(Ordering::SeqCst) {
                op_counter += 1;
                let batch_size = if rng.below(4) == 0 { 1 + rng.below(5) as usize } else { 1 };
                let mut chosen: Vec<usize> = vec![];
                while chosen.len() < batch_size {
                    let idx = base + rng.below(keys_per_writer as u64) as usize;
                    if !chosen.contains(&idx) {
                        chosen.push(idx);
                    }
                }
                let mut batch = Batch::new();
                let mut versions = vec![];
                for &idx in &chosen {
                    let state = &keys[idx];
                    let version = state.started.load(Ordering::SeqCst) + 1;
                    versions.push(version);
                    if is_delete(state.id, version) {
                        batch.add_delete(state.key.clone());
                    } else {
                        let pad_len = if huge_value > 0 && rng.below(97) == 0 {
                            huge_value
                        } else {
                            rng.below(pad as u64 + 1) as usize
                        };
                        batch.add_put(state.key.clone(), value_bytes(version, pad_len));
                    }
                }
                for (pos, &idx) in chosen.iter().enumerate() {
                    keys[idx].started.store(versions[pos], Ordering::SeqCst);
                }
                let write_options = WriteOptions {
                    synchronous: sync_every > 0 && op_counter % sync_every == 0,
                };
                match db.apply(write_options, batch) {
                    Ok(()) => {
                        for (pos, &idx) in chosen.iter().enumerate() {
                            keys[idx].acked.store(versions[pos], Ordering::SeqCst);
                        }
                        num_writes.fetch_add(1, Ordering::Relaxed);
                    }
                    Err(_) if tolerate_write_errors => {
                        // Outcome unknown: the version stays "started" and is never "acknowledged".
                        num_failed_writes.fetch_add(1, Ordering::Relaxed);
                        thread::sleep(Duration::from_micros(200));
                    }
                    Err(err) => {
                        violations.lock().unwrap().push(format!("writer {writer}: write failed: {err}"));
                        stop.store(true, Ordering::SeqCst);
                    }
                }
            }
        }));
    }

    for reader in 0..config.readers {
        let db = Arc::clone(&db);
        let keys = Arc::clone(&keys);
        let stop = Arc::clone(&stop);
        let violations = Arc::clone(&violations);
        let num_reads = Arc::clone(&num_reads);
        let mut rng = Xorshift(config.seed ^ (0xc2b2ae3d27d4eb4fu64.wrapping_mul(reader as u64 + 17)));
        handles.push(thread::spawn(move || {
            // Per key: a lower bound on the version this thread has already observed.
            let mut seen: HashMap<usize, u64> = HashMap::new();
            while !stop.load(Ordering::SeqCst) {
                let idx = rng.below(keys.len() as u64) as usize;
                let state = &keys[idx];
                let acked_before = state.acked.load(Ordering::SeqCst);
                let result = db.get(ReadOptions::default(), &state.key);
                let started_after = state.started.load(Ordering::SeqCst);
                num_reads.fetch_add(1, Ordering::Relaxed);
                let floor = acked_before.max(*seen.get(&idx).unwrap_or(&0));
                match result {
                    Ok(value) => {
                        let version = parse_version(&value);
                        if version < floor || version > started_after || is_delete(state.id, version) {
                            violations.lock().unwrap().push(format!(
                                "reader {reader}: get({:?}) returned version {version}; the property requires a version in \
                                [{floor}, {started_after}] (acknowledged before the get started: {acked_before}, \
                                already seen by this thread: {:?}, started when the get returned: {started_after})",
                                String::from_utf8_lossy(&state.key), seen.get(&idx)
                            ));
                            stop.store(true, Ordering::SeqCst);
                        }
                        seen.insert(idx, version.max(floor));
                    }
                    Err(RainDBError::KeyNotFound) => {
                        let candidate = (floor..=started_after).find(|v| is_delete(state.id, *v));
                        match candidate {
                            Some(version) => {
                                seen.insert(idx, version);
                            }
                            None => {
                                violations.lock().unwrap().push(format!(
                                    "reader {reader}: get({:?}) returned NotFound but no version in [{floor}, {started_after}] \
                                    is a deletion (acknowledged before the get started: {acked_before}, already seen by \
                                    this thread: {:?})",
                                    String::from_utf8_lossy(&state.key), seen.get(&idx)
                                ));
                                stop.store(true, Ordering::SeqCst);
                            }
                        }
                    }
                    Err(err) => {
                        violations.lock().unwrap().push(format!(
                            "reader {reader}: get({:?}) failed: {err}", String::from_utf8_lossy(&state.key)
                        ));
                        stop.store(true, Ordering::SeqCst);
                    }
                }
            }
        }));
    }

    for reader in 0..config.snapshot_readers {
        let db = Arc::clone(&db);
        let keys = Arc::clone(&keys);
        let stop = Arc::clone(&stop);
        let violations = Arc::clone(&violations);
        let mut rng = Xorshift(config.seed ^ (0x165667b19e3779f9u64.wrapping_mul(reader as u64 + 5)));
        handles.push(thread::spawn(move || {
            while !stop.load(Ordering::SeqCst) {
                // Bounds taken around the creation of the snapshot bound the version it holds.
                let chosen: Vec<usize> = (0..8).map(|_| rng.below(keys.len() as u64) as usize).collect();
                let acked_before: Vec<u64> = chosen.iter().map(|&idx| keys[idx].acked.load(Ordering::SeqCst)).collect();
                let snapshot = db.get_snapshot();
                let started_after: Vec<u64> = chosen.iter().map(|&idx| keys[idx].started.load(Ordering::SeqCst)).collect();
                let mut first_results: Vec<Option<Option<u64>>> = vec![None; chosen.len()];
                for round in 0..6 {
                    for (pos, &idx) in chosen.iter().enumerate() {
                        let state = &keys[idx];
                        let read_options = ReadOptions { fill_cache: true, snapshot: Some(snapshot.clone()) };
                        let observed: Option<u64> = match db.get(read_options, &state.key) {
                            Ok(value) => Some(parse_version(&value)),
                            Err(RainDBError::KeyNotFound) => None,
                            Err(err) => {
                                violations.lock().unwrap().push(format!("snapshot reader {reader}: get failed: {err}"));
                                stop.store(true, Ordering::SeqCst);
                                continue;
                            }
                        };
                        let (lo, hi) = (acked_before[pos], started_after[pos]);
                        let in_bounds = match observed {
                            Some(version) => version >= lo && version <= hi && !is_delete(state.id, version),
                            None => (lo..=hi).any(|v| is_delete(state.id, v)),
                        };
                        let stable = match first_results[pos] {
                            None => true,
                            Some(first) => first == observed,
                        };
                        if !in_bounds || !stable {
                            violations.lock().unwrap().push(format!(
                                "snapshot reader {reader}: round {round}: get({:?}) through a snapshot returned {observed:?}; \
                                the snapshot holds a version in [{lo}, {hi}]; the first read through it returned {:?}",
                                String::from_utf8_lossy(&state.key), first_results[pos]
                            ));
                            stop.store(true, Ordering::SeqCst);
                        }
                        first_results[pos] = Some(observed);
                    }
                    thread::sleep(Duration::from_millis(15));
                }
                db.release_snapshot(snapshot);
            }
        }));
    }

    if config.compactor {
        let db = Arc::clone(&db);
        let stop = Arc::clone(&stop);
        handles.push(thread::spawn(move || {
            while !stop.load(Ordering::SeqCst) {
                db.compact_range(None..None);
                thread::sleep(Duration::from_millis(30));
            }
        }));
    }

    let start = Instant::now();
    while start.elapsed() < config.duration && !stop.load(Ordering::SeqCst) {
        thread::sleep(Duration::from_millis(50));
    }
    stop.store(true, Ordering::SeqCst);
    for handle in handles {
        handle.join().expect("a worker thread panicked");
    }

    // Quiescent check: every key reads back its last acknowledged version.
    let mut final_violations = vec![];
    for state in keys.iter() {
        let acked = state.acked.load(Ordering::SeqCst);
        let started = state.started.load(Ordering::SeqCst);
        match db.get(ReadOptions::default(), &state.key) {
            Ok(value) => {
                let version = parse_version(&value);
                if version < acked || version > started {
                    final_violations.push(format!(
                        "final get({:?}) = version {version}, last acknowledged {acked}",
                        String::from_utf8_lossy(&state.key)
                    ));
                }
            }
            Err(RainDBError::KeyNotFound) => {
                if !(acked..=started).any(|v| is_delete(state.id, v)) {
                    final_violations.push(format!(
                        "final get({:?}) = NotFound, last acknowledged {acked} is a put",
                        String::from_utf8_lossy(&state.key)
                    ));
                }
            }
            Err(err) => final_violations.push(format!("final get failed: {err}")),
        }
    }

    eprintln!(
        "[{}] writes={} failed_writes={} reads={} levels={:?}",
        config.name,
        num_writes.load(Ordering::Relaxed),
        num_failed_writes.load(Ordering::Relaxed),
        num_reads.load(Ordering::Relaxed),
        (0..7)
            .map(|level| db
                .get_descriptor(raindb::db::DatabaseDescriptor::NumFilesAtLevel(level))
                .unwrap())
            .collect::<Vec<_>>()
    );

    let mut all = violations.lock().unwrap().clone();
    all.extend(final_violations);
    assert!(
        all.is_empty(),
        "[{}] linearizability violated ({} reports), first: {}",
        config.name,
        all.len(),
        all[0]
    );
}

fn stress_seconds() -> u64 {
    std::env::var("AUDIT_SECONDS").ok().and_then(|s| s.parse().ok()).unwrap_or(8)
}

#[test]
fn stress_tiny_everything() {
    run_stress(StressConfig {
        name: "tiny",
        writers: 3,
        readers: 3,
        keys_per_writer: 60,
        max_memtable_size: 1500,
        max_file_size: 900,
        max_block_size: 120,
        value_pad: 40,
        compactor: false,
        duration: Duration::from_secs(stress_seconds()),
        seed: 0x1234_5678_9abc_def1,
        on_disk: false,
        sync_every: 0,
        huge_value: 0,
        snapshot_readers: 0,
        faults: None,
    });
}

#[test]
fn stress_tiny_with_manual_compactions() {
    run_stress(StressConfig {
        name: "tiny-manual",
        writers: 3,
        readers: 3,
        keys_per_writer: 40,
        max_memtable_size: 1200,
        max_file_size: 700,
        max_block_size: 100,
        value_pad: 30,
        compactor: true,
        duration: Duration::from_secs(stress_seconds()),
        seed: 0x0fed_cba9_8765_4321,
        on_disk: false,
        sync_every: 3,
        huge_value: 3000,
        snapshot_readers: 2,
        faults: None,
    });
}

#[test]
fn stress_medium() {
    run_stress(StressConfig {
        name: "medium",
        writers: 4,
        readers: 4,
        keys_per_writer: 300,
        max_memtable_size: 16 * 1024,
        max_file_size: 8 * 1024,
        max_block_size: 512,
        value_pad: 200,
        compactor: false,
        duration: Duration::from_secs(stress_seconds()),
        seed: 0x5151_7777_0101_9999,
        on_disk: false,
        sync_every: 0,
        huge_value: 0,
        snapshot_readers: 2,
        faults: None,
    });
}

#[test]
fn stress_on_disk() {
    run_stress(StressConfig {
        name: "disk",
        writers: 3,
        readers: 4,
        keys_per_writer: 80,
        max_memtable_size: 3000,
        max_file_size: 1500,
        max_block_size: 200,
        value_pad: 60,
        compactor: true,
        duration: Duration::from_secs(stress_seconds()),
        seed: 0x7777_1234_4321_0007,
        on_disk: true,
        sync_every: 5,
        huge_value: 5000,
        snapshot_readers: 1,
        faults: None,
    });
}

/// Enough live data to fill level 1 (10 MiB) so that size compactions of deeper levels, expanded
/// inputs, grandparent limits and trivial moves all happen under concurrent reads.
#[test]
fn stress_deep_levels() {
    run_stress(StressConfig {
        name: "deep",
        writers: 4,
        readers: 4,
        keys_per_writer: 2500,
        max_memtable_size: 64 * 1024,
        max_file_size: 32 * 1024,
        max_block_size: 1024,
        value_pad: 3000,
        compactor: false,
        duration: Duration::from_secs(stress_seconds() * 5),
        seed: 0x0bad_cafe_dead_beef,
        on_disk: false,
        sync_every: 0,
        huge_value: 0,
        snapshot_readers: 1,
        faults: None,
    });
}

/// Every second creation of a new WAL file (memtable rotation) fails. The failed writer gets an
/// error, the others carry on; the error is not sticky.
#[test]
fn stress_with_failing_wal_creation() {
    let plan = Arc::new(FaultPlan::default());
    plan.fail_wal_create_every.store(2, Ordering::SeqCst);
    run_stress(StressConfig {
        name: "wal-create-faults",
        writers: 4,
        readers: 3,
        keys_per_writer: 50,
        max_memtable_size: 1500,
        max_file_size: 900,
        max_block_size: 120,
        value_pad: 40,
        compactor: true,
        duration: Duration::from_secs(stress_seconds()),
        seed: 0x3141_5926_5358_9793,
        on_disk: false,
        sync_every: 0,
        huge_value: 0,
        snapshot_readers: 1,
        faults: Some(plan),
    });
}

/// After 3000 WAL appends every further append fails (sticky background error). Writers that were
/// grouped with a failing leader must get the error too; nothing acknowledged may be lost and
/// nothing unacknowledged older than the acknowledged state may show up.
#[test]
fn stress_with_failing_wal_appends() {
    let plan = Arc::new(FaultPlan::default());
    plan.fail_wal_appends_after.store(3000, Ordering::SeqCst);
    run_stress(StressConfig {
        name: "wal-append-faults",
        writers: 6,
        readers: 2,
        keys_per_writer: 30,
        max_memtable_size: 4000,
        max_file_size: 2000,
        max_block_size: 200,
        value_pad: 40,
        compactor: false,
        duration: Duration::from_secs(stress_seconds()),
        seed: 0x2718_2818_2845_9045,
        on_disk: false,
        sync_every: 0,
        huge_value: 0,
        snapshot_readers: 0,
        faults: Some(plan),
    });
}

// ---------------------------------------------------------------------------------------------
// Several writers per key: interval-based (sound) checks.
// ---------------------------------------------------------------------------------------------

#[derive(Clone, Debug)]
struct WriteOp {
    key: usize,
    /// 0 for a deletion, otherwise the unique id stored in the value.
    id: u64,
    start: u64,
    end: u64,
    ok: bool,
}

#[derive(Clone, Debug)]
struct ReadOp {
    key: usize,
    /// None: NotFound. Some(id): the id stored in the value.
    observed: Option<u64>,
    start: u64,
    end: u64,
    thread: usize,
}

#[test]
fn multi_writer_same_keys() {
    install_jitter();
    const KEYS: usize = 6;
    const WRITERS: usize = 6;
    const READERS: usize = 3;
    let mut options = DbOptions::with_memory_env();
    options.db_path = "audit-multi-writer".to_string();
    options.create_if_missing = true;
    options.max_memtable_size = 1200;
    options.max_file_size = 800;
    options.max_block_size = 100;
    let db = Arc::new(DB::open(options).expect("open"));
    let clock = Arc::new(AtomicU64::new(1));
    let next_id = Arc::new(AtomicU64::new(1));
    let stop = Arc::new(AtomicBool::new(false));
    let key_name = |key: usize| format!("shared-{key}").into_bytes();

    let mut writer_handles = vec![];
    for writer in 0..WRITERS {
        let (db, clock, next_id, stop) = (Arc::clone(&db), Arc::clone(&clock), Arc::clone(&next_id), Arc::clone(&stop));
        writer_handles.push(thread::spawn(move || {
            let mut rng = Xorshift(0xabcdef12345 ^ ((writer as u64 + 1) << 20));
            let mut ops: Vec<WriteOp> = vec![];
            while !stop.load(Ordering::SeqCst) {
                let mut batch = Batch::new();
                let mut pending: Vec<(usize, u64)> = vec![];
                let count = if rng.below(5) == 0 { 2 + rng.below(3) as usize } else { 1 };
                for _ in 0..count {
                    let key = rng.below(KEYS as u64) as usize;
                    if pending.iter().any(|(k, _)| *k == key) {
                        continue;
                    }
                    if rng.below(8) == 0 {
                        batch.add_delete(format!("shared-{key}").into_bytes());
                        pending.push((key, 0));
                    } else {
                        let id = next_id.fetch_add(1, Ordering::SeqCst);
                        batch.add_put(format!("shared-{key}").into_bytes(), value_bytes(id, rng.below(60) as usize));
                        pending.push((key, id));
                    }
                }
                let write_options = WriteOptions { synchronous: writer % 3 == 0 && rng.below(2) == 0 };
                let start = clock.fetch_add(1, Ordering::SeqCst);
                let result = db.apply(write_options, batch);
                let end = clock.fetch_add(1, Ordering::SeqCst);
                for (key, id) in pending {
                    ops.push(WriteOp { key, id, start, end, ok: result.is_ok() });
                }
            }
            ops
        }));
    }
    let mut reader_handles = vec![];
    for reader in 0..READERS {
        let (db, clock, stop) = (Arc::clone(&db), Arc::clone(&clock), Arc::clone(&stop));
        reader_handles.push(thread::spawn(move || {
            let mut rng = Xorshift(0x5555aaaa1234 ^ ((reader as u64 + 1) << 24));
            let mut ops: Vec<ReadOp> = vec![];
            while !stop.load(Ordering::SeqCst) {
                let key = rng.below(KEYS as u64) as usize;
                let start = clock.fetch_add(1, Ordering::SeqCst);
                let result = db.get(ReadOptions::default(), format!("shared-{key}").as_bytes());
                let end = clock.fetch_add(1, Ordering::SeqCst);
                let observed = match result {
                    Ok(value) => Some(parse_version(&value)),
                    Err(RainDBError::KeyNotFound) => None,
                    Err(err) => panic!("get failed: {err}"),
                };
                ops.push(ReadOp { key, observed, start, end, thread: reader });
            }
            ops
        }));
    }
    thread::sleep(Duration::from_secs(stress_seconds()));
    stop.store(true, Ordering::SeqCst);
    let mut writes: Vec<WriteOp> = vec![];
    for handle in writer_handles {
        writes.extend(handle.join().unwrap());
    }
    let mut reads: Vec<ReadOp> = vec![];
    for handle in reader_handles {
        reads.extend(handle.join().unwrap());
    }
    // Final quiescent reads.
    for key in 0..KEYS {
        let start = clock.fetch_add(1, Ordering::SeqCst);
        let observed = match db.get(ReadOptions::default(), &key_name(key)) {
            Ok(value) => Some(parse_version(&value)),
            Err(RainDBError::KeyNotFound) => None,
            Err(err) => panic!("get failed: {err}"),
        };
        let end = clock.fetch_add(1, Ordering::SeqCst);
        reads.push(ReadOp { key, observed, start, end, thread: usize::MAX });
    }
    assert!(writes.iter().all(|op| op.ok), "a write failed without injected faults");

    let mut violations: Vec<String> = vec![];
    for key in 0..KEYS {
        let mut key_writes: Vec<&WriteOp> = writes.iter().filter(|op| op.key == key).collect();
        key_writes.sort_by_key(|op| op.end);
        // prefix_max_start[i] = max start among the i writes that ended first.
        let mut prefix_max_start: Vec<u64> = vec![0];
        for op in &key_writes {
            let last = *prefix_max_start.last().unwrap();
            prefix_max_start.push(last.max(op.start));
        }
        // Largest start of a write that completed before `time`.
        let max_start_completed_before = |time: u64| -> u64 {
            let count = key_writes.partition_point(|op| op.end < time);
            prefix_max_start[count]
        };
        let by_id: HashMap<u64, &WriteOp> =
            key_writes.iter().filter(|op| op.id != 0).map(|op| (op.id, *op)).collect();
        let deletes: Vec<&WriteOp> = key_writes.iter().filter(|op| op.id == 0).copied().collect();

        let mut last_by_thread: HashMap<usize, ReadOp> = HashMap::new();
        let mut key_reads: Vec<&ReadOp> = reads.iter().filter(|op| op.key == key).collect();
        key_reads.sort_by_key(|op| op.start);
        for read in key_reads {
            let superseding = max_start_completed_before(read.start);
            match read.observed {
                Some(id) => match by_id.get(&id) {
                    None => violations.push(format!("key {key}: get returned id {id} that nobody wrote to this key")),
                    Some(write) => {
                        if write.start > read.end {
                            violations.push(format!(
                                "key {key}: get [{}, {}] returned id {id} whose write began at {} (after the get returned)",
                                read.start, read.end, write.start
                            ));
                        }
                        if superseding > write.end {
                            violations.push(format!(
                                "key {key}: get [{}, {}] returned id {id} (write [{}, {}]) although a write that \
                                started at {superseding}, after that one was acknowledged, was itself acknowledged \
                                before the get started (stale read)",
                                read.start, read.end, write.start, write.end
                            ));
                        }
                    }
                },
                None => {
                    let initial_ok = superseding == 0;
                    let delete_ok = deletes.iter().any(|d| d.start < read.end && d.end >= superseding);
                    if !initial_ok && !delete_ok {
                        violations.push(format!(
                            "key {key}: get [{}, {}] returned NotFound although a put was acknowledged before it started \
                            and no deletion can be ordered after that put and before the get",
                            read.start, read.end
                        ));
                    }
                }
            }
            if read.thread != usize::MAX {
                if let (Some(previous), Some(now_id)) = (last_by_thread.get(&read.thread), read.observed) {
                    if let Some(previous_id) = previous.observed {
                        if previous_id != now_id {
                            if let (Some(prev_write), Some(now_write)) = (by_id.get(&previous_id), by_id.get(&now_id)) {
                                if now_write.end < prev_write.start {
                                    violations.push(format!(
                                        "key {key}: reader {} read id {previous_id} and then the definitely older id {now_id}",
                                        read.thread
                                    ));
                                }
                            }
                        }
                    }
                }
                last_by_thread.insert(read.thread, read.clone());
            }
        }
    }
    eprintln!("[multi-writer] writes={} reads={}", writes.len(), reads.len());
    assert!(
        violations.is_empty(),
        "linearizability violated ({} reports), first: {}",
        violations.len(),
        violations[0]
    );
}
