//! Second audit of property C17:
//!
//!   "One owner at a time: a database cannot be opened or destroyed while open"
//!
//! Every test fails if and only if it observes a violation of that statement (two live handles on
//! one path, an open/destroy that returns `Ok` while a handle is live, a running instance that is
//! disturbed by such an attempt, or - after a close - a set of racing opens with a number of
//! winners other than one).
//!
//! Run: `cargo test --offline --features verif --test audit_demo -- --test-threads=1`
//! (the tests serialise themselves with a global mutex as well; without `--features verif` the
//! schedule-forcing tests are not compiled).
//!
//! Scratch databases live under `target/audit2_c17/`.

use std::collections::BTreeMap;
use std::io;
use std::path::{Path, PathBuf};
use std::sync::atomic::{AtomicBool, AtomicU64, AtomicUsize, Ordering};
use std::sync::{mpsc, Arc, Barrier, Mutex, MutexGuard};
use std::thread;
use std::time::{Duration, Instant};

use raindb::fs::{
    FileLock, FileSystem, OsFileSystem, RandomAccessFile, ReadonlyRandomAccessFile, TmpFileSystem,
};
use raindb::{DbOptions, RainDBError, RainDbIterator, ReadOptions, WriteOptions, DB};

// ------------------------------------------------------------------------------------------------
// helpers
// ------------------------------------------------------------------------------------------------

static SERIAL: Mutex<()> = Mutex::new(());
static SCRATCH_COUNTER: AtomicUsize = AtomicUsize::new(0);

fn serial() -> MutexGuard<'static, ()> {
    SERIAL.lock().unwrap_or_else(|poisoned| poisoned.into_inner())
}

fn scratch_root() -> PathBuf {
    let root = PathBuf::from(env!("CARGO_MANIFEST_DIR"))
        .join("target")
        .join("audit2_c17");
    std::fs::create_dir_all(&root).unwrap();
    root
}

/// A fresh, not yet existing path for a database.
fn scratch(name: &str) -> PathBuf {
    let path = scratch_root().join(format!(
        "{name}-{pid}-{n}",
        pid = std::process::id(),
        n = SCRATCH_COUNTER.fetch_add(1, Ordering::SeqCst)
    ));
    let _ = std::fs::remove_dir_all(&path);
    path
}

fn os_fs() -> Arc<dyn FileSystem> {
    Arc::new(OsFileSystem::new())
}

fn small_opts(path: &Path, fs: Arc<dyn FileSystem>) -> DbOptions {
    DbOptions {
        db_path: path.to_str().unwrap().to_string(),
        create_if_missing: true,
        max_memtable_size: 8 * 1024,
        max_file_size: 16 * 1024,
        max_block_size: 512,
        filesystem_provider: fs,
        ..DbOptions::default()
    }
}

fn big_opts(path: &Path, fs: Arc<dyn FileSystem>) -> DbOptions {
    DbOptions {
        db_path: path.to_str().unwrap().to_string(),
        create_if_missing: true,
        filesystem_provider: fs,
        ..DbOptions::default()
    }
}

fn err_text<T>(result: &Result<T, RainDBError>) -> String {
    match result {
        Ok(_) => "Ok".to_string(),
        Err(err) => format!("Err({err})"),
    }
}

fn key(i: usize) -> Vec<u8> {
    format!("key-{i:06}").into_bytes()
}

fn value(tag: &str, i: usize) -> Vec<u8> {
    format!("{tag}-{i:06}-{pad}", pad = "v".repeat(90)).into_bytes()
}

/// Recursive listing (relative path -> length) of a database directory. The length of the lock
/// file is not recorded (it is always 0) but its presence is.
fn dir_image(root: &Path) -> BTreeMap<String, u64> {
    fn walk(root: &Path, dir: &Path, out: &mut BTreeMap<String, u64>) {
        let entries = match std::fs::read_dir(dir) {
            Ok(entries) => entries,
            Err(_) => return,
        };
        for entry in entries.flatten() {
            let path = entry.path();
            let rel = path.strip_prefix(root).unwrap().to_str().unwrap().to_string();
            match entry.metadata() {
                Ok(meta) if meta.is_dir() => {
                    out.insert(format!("{rel}/"), 0);
                    walk(root, &path, out);
                }
                Ok(meta) => {
                    out.insert(rel, meta.len());
                }
                Err(_) => {}
            }
        }
    }

    let mut out = BTreeMap::new();
    walk(root, root, &mut out);
    out
}

/// The listing of the directory once the owner's own background work has settled (two equal
/// listings 150 ms apart).
fn quiet_dir_image(root: &Path) -> BTreeMap<String, u64> {
    let mut image = dir_image(root);
    for _ in 0..100 {
        thread::sleep(Duration::from_millis(150));
        let next = dir_image(root);
        if next == image {
            break;
        }
        image = next;
    }
    image
}

/// Open and destroy attempts against a path that is owned by somebody else. Returns a description
/// of every attempt that did NOT fail.
fn intruders_must_fail(path: &Path, fs: &Arc<dyn FileSystem>, context: &str) -> Vec<String> {
    let mut violations = vec![];
    let before = quiet_dir_image(path);

    for (label, options) in [
        ("DB::open(small options)", small_opts(path, Arc::clone(fs))),
        ("DB::open(default options)", big_opts(path, Arc::clone(fs))),
        (
            "DB::open(reuse_log_files=false)",
            DbOptions {
                reuse_log_files: false,
                ..small_opts(path, Arc::clone(fs))
            },
        ),
    ] {
        let from_thread = thread::spawn(move || DB::open(options).map(|db| drop(db)));
        let result = from_thread.join().expect("intruding open panicked");
        if result.is_ok() {
            violations.push(format!(
                "{context}: {label} from another thread returned Ok; required: an error"
            ));
        }
    }

    let result = DB::destroy_database(small_opts(path, Arc::clone(fs)));
    if result.is_ok() {
        violations.push(format!(
            "{context}: destroy_database returned Ok; required: it refuses to act"
        ));
    }

    let after = dir_image(path);
    if before != after {
        violations.push(format!(
            "{context}: the files of the running instance changed during the failed attempts \
             (nobody else was allowed to run): before {before:?}, after {after:?}"
        ));
    }

    violations
}

/// `n` threads start `DB::open` on the same path at the same time and keep what they get.
fn racing_opens(
    path: &Path,
    fs: &Arc<dyn FileSystem>,
    n: usize,
) -> (Vec<DB>, Vec<String>) {
    let barrier = Arc::new(Barrier::new(n));
    let handles: Vec<_> = (0..n)
        .map(|_| {
            let barrier = Arc::clone(&barrier);
            let options = small_opts(path, Arc::clone(fs));
            thread::spawn(move || {
                barrier.wait();
                DB::open(options)
            })
        })
        .collect();

    let mut winners = vec![];
    let mut errors = vec![];
    for handle in handles {
        match handle.join().expect("racing open panicked") {
            Ok(db) => winners.push(db),
            Err(err) => errors.push(err.to_string()),
        }
    }

    (winners, errors)
}

fn run_with_timeout<T: Send + 'static>(
    what: &str,
    timeout: Duration,
    f: impl FnOnce() -> T + Send + 'static,
) -> Result<thread::Result<T>, String> {
    let (sender, receiver) = mpsc::channel();
    thread::Builder::new()
        .name(format!("audit-{what}"))
        .spawn(move || {
            let result = std::panic::catch_unwind(std::panic::AssertUnwindSafe(f));
            let _ = sender.send(result);
        })
        .unwrap();
    receiver
        .recv_timeout(timeout)
        .map_err(|_| format!("`{what}` did not return within {timeout:?}"))
}

// ------------------------------------------------------------------------------------------------
// a file system wrapper: counts calls, injects errors, delays selected calls
// ------------------------------------------------------------------------------------------------

#[derive(Clone, Copy, PartialEq, Eq, Debug)]
enum FaultMode {
    None,
    /// Only the call with this index fails.
    Once(usize),
    /// Every call from this index on fails.
    From(usize),
}

struct FaultCore {
    calls: AtomicUsize,
    mode: Mutex<FaultMode>,
    trace: Mutex<Vec<String>>,
}

impl FaultCore {
    fn gate(&self, what: &str, name: &str) -> io::Result<()> {
        let index = self.calls.fetch_add(1, Ordering::SeqCst);
        let mode = *self.mode.lock().unwrap();
        let fails = match mode {
            FaultMode::None => false,
            FaultMode::Once(at) => index == at,
            FaultMode::From(at) => index >= at,
        };
        {
            let mut trace = self.trace.lock().unwrap();
            if fails || trace.len() < 400 {
                trace.push(format!(
                    "#{index} {what}({name}){fault}",
                    fault = if fails { " -> injected EIO" } else { "" }
                ));
            }
        }
        if fails {
            return Err(io::Error::new(
                io::ErrorKind::Other,
                format!("injected fault in call #{index}: {what}({name})"),
            ));
        }
        Ok(())
    }
}

/// `OsFileSystem` with error injection. With `file_faults` the reads and writes of the files it
/// hands out are fault points too.
struct FaultFs {
    inner: OsFileSystem,
    core: Arc<FaultCore>,
    file_faults: bool,
}

impl FaultFs {
    fn new(file_faults: bool) -> Self {
        FaultFs {
            inner: OsFileSystem::new(),
            core: Arc::new(FaultCore {
                calls: AtomicUsize::new(0),
                mode: Mutex::new(FaultMode::None),
                trace: Mutex::new(vec![]),
            }),
            file_faults,
        }
    }

    fn arm(&self, mode: FaultMode) {
        self.core.calls.store(0, Ordering::SeqCst);
        self.core.trace.lock().unwrap().clear();
        *self.core.mode.lock().unwrap() = mode;
    }

    fn set_mode(&self, mode: FaultMode) {
        *self.core.mode.lock().unwrap() = mode;
    }

    fn calls(&self) -> usize {
        self.core.calls.load(Ordering::SeqCst)
    }

    fn trace(&self) -> String {
        let trace = self.core.trace.lock().unwrap();
        let from = trace.len().saturating_sub(12);
        trace[from..].join(", ")
    }

    fn gate(&self, what: &str, path: &Path) -> io::Result<()> {
        let name = path
            .file_name()
            .map(|name| name.to_string_lossy().to_string())
            .unwrap_or_default();
        self.core.gate(what, &name)
    }
}

struct FaultFile {
    name: String,
    inner: Box<dyn RandomAccessFile>,
    core: Arc<FaultCore>,
}

impl io::Read for FaultFile {
    fn read(&mut self, buf: &mut [u8]) -> io::Result<usize> {
        self.core.gate("file.read", &self.name)?;
        self.inner.read(buf)
    }
}

impl io::Seek for FaultFile {
    fn seek(&mut self, pos: io::SeekFrom) -> io::Result<u64> {
        self.inner.seek(pos)
    }
}

impl io::Write for FaultFile {
    fn write(&mut self, buf: &[u8]) -> io::Result<usize> {
        self.core.gate("file.write", &self.name)?;
        self.inner.write(buf)
    }
    fn flush(&mut self) -> io::Result<()> {
        self.core.gate("file.flush", &self.name)?;
        self.inner.flush()
    }
}

impl ReadonlyRandomAccessFile for FaultFile {
    fn read_from(&self, buf: &mut [u8], offset: usize) -> io::Result<usize> {
        self.core.gate("file.read_from", &self.name)?;
        self.inner.read_from(buf, offset)
    }
    fn len(&self) -> io::Result<u64> {
        self.inner.len()
    }
}

impl RandomAccessFile for FaultFile {
    fn append(&mut self, buf: &[u8]) -> io::Result<usize> {
        self.core.gate("file.append", &self.name)?;
        self.inner.append(buf)
    }
}

struct FaultReadFile {
    name: String,
    inner: Box<dyn ReadonlyRandomAccessFile>,
    core: Arc<FaultCore>,
}

impl io::Read for FaultReadFile {
    fn read(&mut self, buf: &mut [u8]) -> io::Result<usize> {
        self.core.gate("file.read", &self.name)?;
        self.inner.read(buf)
    }
}

impl io::Seek for FaultReadFile {
    fn seek(&mut self, pos: io::SeekFrom) -> io::Result<u64> {
        self.inner.seek(pos)
    }
}

impl ReadonlyRandomAccessFile for FaultReadFile {
    fn read_from(&self, buf: &mut [u8], offset: usize) -> io::Result<usize> {
        self.core.gate("file.read_from", &self.name)?;
        self.inner.read_from(buf, offset)
    }
    fn len(&self) -> io::Result<u64> {
        self.inner.len()
    }
}

fn file_name_of(path: &Path) -> String {
    path.file_name()
        .map(|name| name.to_string_lossy().to_string())
        .unwrap_or_default()
}

impl FileSystem for FaultFs {
    fn get_name(&self) -> String {
        "FaultFs(OsFileSystem)".to_string()
    }
    fn create_dir(&self, path: &Path) -> io::Result<()> {
        self.gate("create_dir", path)?;
        self.inner.create_dir(path)
    }
    fn create_dir_all(&self, path: &Path) -> io::Result<()> {
        self.gate("create_dir_all", path)?;
        self.inner.create_dir_all(path)
    }
    fn list_dir(&self, path: &Path) -> io::Result<Vec<PathBuf>> {
        self.gate("list_dir", path)?;
        self.inner.list_dir(path)
    }
    fn open_file(&self, path: &Path) -> io::Result<Box<dyn ReadonlyRandomAccessFile>> {
        self.gate("open_file", path)?;
        let file = self.inner.open_file(path)?;
        if !self.file_faults {
            return Ok(file);
        }
        Ok(Box::new(FaultReadFile {
            name: file_name_of(path),
            inner: file,
            core: Arc::clone(&self.core),
        }))
    }
    fn rename(&self, from: &Path, to: &Path) -> io::Result<()> {
        self.gate("rename", from)?;
        self.inner.rename(from, to)
    }
    fn create_file(&self, path: &Path, append: bool) -> io::Result<Box<dyn RandomAccessFile>> {
        self.gate("create_file", path)?;
        let file = self.inner.create_file(path, append)?;
        if !self.file_faults {
            return Ok(file);
        }
        Ok(Box::new(FaultFile {
            name: file_name_of(path),
            inner: file,
            core: Arc::clone(&self.core),
        }))
    }
    fn remove_file(&self, path: &Path) -> io::Result<()> {
        self.gate("remove_file", path)?;
        self.inner.remove_file(path)
    }
    fn remove_dir(&self, path: &Path) -> io::Result<()> {
        self.gate("remove_dir", path)?;
        self.inner.remove_dir(path)
    }
    fn remove_dir_all(&self, path: &Path) -> io::Result<()> {
        self.gate("remove_dir_all", path)?;
        self.inner.remove_dir_all(path)
    }
    fn get_file_size(&self, path: &Path) -> io::Result<u64> {
        self.gate("get_file_size", path)?;
        self.inner.get_file_size(path)
    }
    fn is_dir(&self, path: &Path) -> io::Result<bool> {
        self.gate("is_dir", path)?;
        self.inner.is_dir(path)
    }
    fn lock_file(&self, path: &Path) -> io::Result<FileLock> {
        self.gate("lock_file", path)?;
        self.inner.lock_file(path)
    }
}

/// Is the database lock of `path` free right now? Uses the unmodified `OsFileSystem::lock_file`.
/// `None` when the directory does not exist (nothing to lock).
fn lock_is_free(path: &Path) -> Option<Result<(), String>> {
    if !path.is_dir() {
        return None;
    }
    Some(
        OsFileSystem::new()
            .lock_file(&path.join("LOCK"))
            .map(|lock| drop(lock))
            .map_err(|err| err.to_string()),
    )
}

fn copy_dir(from: &Path, to: &Path) {
    std::fs::create_dir_all(to).unwrap();
    for entry in std::fs::read_dir(from).unwrap() {
        let entry = entry.unwrap();
        let target = to.join(entry.file_name());
        if entry.metadata().unwrap().is_dir() {
            copy_dir(&entry.path(), &target);
        } else {
            std::fs::copy(entry.path(), target).unwrap();
        }
    }
}

/// A closed database with table files on several levels and unflushed records in its WAL.
fn build_template(path: &Path, tag: &str, keys: usize) {
    let db = DB::open(small_opts(path, os_fs())).expect("template: open");
    for round in 0..3 {
        for i in 0..keys {
            db.put(
                WriteOptions::default(),
                key(i),
                value(&format!("{tag}{round}"), i),
            )
            .expect("template: put");
        }
    }
    drop(db);
}

fn check_template(db: &DB, tag: &str, keys: usize) -> Result<(), String> {
    for i in 0..keys {
        match db.get(ReadOptions::default(), &key(i)) {
            Ok(found) if found == value(&format!("{tag}2"), i) => {}
            other => {
                return Err(format!(
                    "key {i}: expected the value of the last round, got {}",
                    match other {
                        Ok(found) => String::from_utf8_lossy(&found[..12.min(found.len())])
                            .to_string(),
                        Err(err) => format!("Err({err})"),
                    }
                ))
            }
        }
    }
    Ok(())
}

// ------------------------------------------------------------------------------------------------
// s1: long random interleavings of open / work / close / destroy on one path
// ------------------------------------------------------------------------------------------------

/// Threads open (and then use) / probe / destroy one path at random. Oracle:
///  * two handles are never live at the same time (live = from the return of `open` to the call
///    of `drop`),
///  * `destroy_database` never returns `Ok` if one and the same handle was live before the call
///    and is still live after it,
///  * a live handle is never disturbed: every put/get of its session works and returns the
///    session's own values, its `wal/` and `data/` directories exist at the end of the session.
#[test]
fn s1_random_interleavings_of_open_work_close_destroy() {
    let _serial = serial();
    let seconds: u64 = std::env::var("AUDIT_C17_SECONDS")
        .ok()
        .and_then(|s| s.parse().ok())
        .unwrap_or(25);
    let path = scratch("stress");
    let fs = os_fs();

    let holder = Arc::new(AtomicU64::new(0)); // id of the live handle, 0 = none
    let next_id = Arc::new(AtomicU64::new(1));
    let stop = Arc::new(AtomicBool::new(false));
    let violations: Arc<Mutex<Vec<String>>> = Arc::new(Mutex::new(vec![]));
    let stats = Arc::new([
        AtomicUsize::new(0), // sessions
        AtomicUsize::new(0), // failed opens
        AtomicUsize::new(0), // destroy ok
        AtomicUsize::new(0), // destroy err
    ]);

    let mut threads = vec![];
    for worker in 0..4usize {
        let (path, fs) = (path.clone(), Arc::clone(&fs));
        let (holder, next_id, stop) = (Arc::clone(&holder), Arc::clone(&next_id), Arc::clone(&stop));
        let (violations, stats) = (Arc::clone(&violations), Arc::clone(&stats));
        threads.push(thread::spawn(move || {
            let mut round = 0usize;
            while !stop.load(Ordering::SeqCst) {
                round += 1;
                let options = DbOptions {
                    reuse_log_files: (round + worker) % 2 == 0,
                    ..small_opts(&path, Arc::clone(&fs))
                };
                let db = match DB::open(options) {
                    Ok(db) => db,
                    Err(_) => {
                        stats[1].fetch_add(1, Ordering::Relaxed);
                        continue;
                    }
                };
                let id = next_id.fetch_add(1, Ordering::SeqCst);
                let previous = holder.swap(id, Ordering::SeqCst);
                if previous != 0 {
                    violations.lock().unwrap().push(format!(
                        "DB::open returned Ok (session {id}) while the handle of session \
                         {previous} on the same path was live; required: an error"
                    ));
                }
                stats[0].fetch_add(1, Ordering::Relaxed);

                // The third worker only probes (open + close), the others work.
                let keys = if worker == 3 { 0 } else { 60 + (round % 5) * 40 };
                let tag = format!("s{id}");
                let mut disturbed: Option<String> = None;
                'session: for pass in 0..2 {
                    for i in 0..keys {
                        if let Err(err) =
                            db.put(WriteOptions::default(), key(i), value(&tag, i + pass))
                        {
                            disturbed = Some(format!("put of key {i} failed: {err}"));
                            break 'session;
                        }
                    }
                }
                if disturbed.is_none() {
                    for i in 0..keys {
                        match db.get(ReadOptions::default(), &key(i)) {
                            Ok(found) if found == value(&tag, i + 1) => {}
                            Ok(found) => {
                                disturbed = Some(format!(
                                    "get of key {i} returned {:?}, not the value this session \
                                     wrote",
                                    String::from_utf8_lossy(&found[..14.min(found.len())])
                                ));
                                break;
                            }
                            Err(err) => {
                                disturbed = Some(format!("get of key {i} failed: {err}"));
                                break;
                            }
                        }
                    }
                }
                if disturbed.is_none() && !(path.join("wal").is_dir() && path.join("data").is_dir())
                {
                    disturbed = Some("the wal/ or data/ directory vanished".to_string());
                }
                if let Some(what) = disturbed {
                    violations.lock().unwrap().push(format!(
                        "the running instance of session {id} was disturbed: {what}"
                    ));
                }

                let seen = holder.swap(0, Ordering::SeqCst);
                if seen != id {
                    violations.lock().unwrap().push(format!(
                        "session {id} found the live-handle slot taken over by session {seen}"
                    ));
                }
                drop(db);
            }
        }));
    }
    for _ in 0..2 {
        let (path, fs) = (path.clone(), Arc::clone(&fs));
        let (holder, stop) = (Arc::clone(&holder), Arc::clone(&stop));
        let (violations, stats) = (Arc::clone(&violations), Arc::clone(&stats));
        threads.push(thread::spawn(move || {
            while !stop.load(Ordering::SeqCst) {
                let before = holder.load(Ordering::SeqCst);
                let result = DB::destroy_database(small_opts(&path, Arc::clone(&fs)));
                let after = holder.load(Ordering::SeqCst);
                if result.is_ok() {
                    stats[2].fetch_add(1, Ordering::Relaxed);
                    if before != 0 && before == after {
                        violations.lock().unwrap().push(format!(
                            "destroy_database returned Ok although the handle of session \
                             {before} was live during the whole call; required: it refuses"
                        ));
                    }
                } else {
                    stats[3].fetch_add(1, Ordering::Relaxed);
                }
                thread::sleep(Duration::from_micros(300));
            }
        }));
    }

    let deadline = Instant::now() + Duration::from_secs(seconds);
    while Instant::now() < deadline && violations.lock().unwrap().is_empty() {
        thread::sleep(Duration::from_millis(50));
    }
    stop.store(true, Ordering::SeqCst);
    for thread in threads {
        thread.join().expect("stress thread panicked");
    }

    eprintln!(
        "s1: {} sessions, {} failed opens, destroy ok/err {}/{}",
        stats[0].load(Ordering::Relaxed),
        stats[1].load(Ordering::Relaxed),
        stats[2].load(Ordering::Relaxed),
        stats[3].load(Ordering::Relaxed)
    );
    let violations = violations.lock().unwrap();
    assert!(
        violations.is_empty(),
        "PROPERTY VIOLATED ({} observations), first ones: {:#?}",
        violations.len(),
        &violations[..violations.len().min(5)]
    );
    assert!(
        stats[0].load(Ordering::Relaxed) > 10 && stats[2].load(Ordering::Relaxed) > 10,
        "harness problem: the stress test did not exercise sessions and destroys"
    );
}

// ------------------------------------------------------------------------------------------------
// s2: destroy || open || open aligned on the unlink of the lock file
// ------------------------------------------------------------------------------------------------

/// Delays the start of selected calls so that the destroyer's `remove_file(LOCK)` and the
/// `lock_file(LOCK)` calls of the openers start together. Every call is executed by the unmodified
/// disk file system underneath (`OsFileSystem` or `TmpFileSystem`).
struct AlignFs {
    inner: Arc<dyn FileSystem>,
    rendezvous: Barrier,
    enabled: AtomicBool,
    spin: [AtomicUsize; 2],
}

impl AlignFs {
    fn meet(&self, role: usize) {
        if self.enabled.load(Ordering::SeqCst) {
            self.rendezvous.wait();
            for _ in 0..self.spin[role].load(Ordering::Relaxed) {
                std::hint::spin_loop();
            }
        }
    }
}

impl FileSystem for AlignFs {
    fn get_name(&self) -> String {
        "AlignFs(OsFileSystem)".to_string()
    }
    fn create_dir(&self, path: &Path) -> io::Result<()> {
        self.inner.create_dir(path)
    }
    fn create_dir_all(&self, path: &Path) -> io::Result<()> {
        self.inner.create_dir_all(path)
    }
    fn list_dir(&self, path: &Path) -> io::Result<Vec<PathBuf>> {
        self.inner.list_dir(path)
    }
    fn open_file(&self, path: &Path) -> io::Result<Box<dyn ReadonlyRandomAccessFile>> {
        self.inner.open_file(path)
    }
    fn rename(&self, from: &Path, to: &Path) -> io::Result<()> {
        self.inner.rename(from, to)
    }
    fn create_file(&self, path: &Path, append: bool) -> io::Result<Box<dyn RandomAccessFile>> {
        self.inner.create_file(path, append)
    }
    fn remove_file(&self, path: &Path) -> io::Result<()> {
        if path.file_name().map_or(false, |name| name == "LOCK") {
            self.meet(0);
        }
        self.inner.remove_file(path)
    }
    fn remove_dir(&self, path: &Path) -> io::Result<()> {
        self.inner.remove_dir(path)
    }
    fn remove_dir_all(&self, path: &Path) -> io::Result<()> {
        self.inner.remove_dir_all(path)
    }
    fn get_file_size(&self, path: &Path) -> io::Result<u64> {
        self.inner.get_file_size(path)
    }
    fn is_dir(&self, path: &Path) -> io::Result<bool> {
        self.inner.is_dir(path)
    }
    fn lock_file(&self, path: &Path) -> io::Result<FileLock> {
        // The destroyer locks first (not aligned); only the openers meet the unlink.
        if thread::current().name().map_or(false, |name| name.starts_with("opener")) {
            self.meet(1);
        }
        self.inner.lock_file(path)
    }
}

/// One destroyer and two openers; the openers' `lock_file` calls and the destroyer's unlink of the
/// lock file start at the same instant (swept with small offsets). Whatever the outcome of the
/// three calls: at most one handle may exist afterwards, and if one exists, a further open and a
/// further destroy must fail and leave it working.
#[test]
fn s2_destroy_and_two_opens_aligned_on_the_unlink_of_the_lock_file() {
    let _serial = serial();
    let trials: usize = std::env::var("AUDIT_C17_TRIALS")
        .ok()
        .and_then(|s| s.parse().ok())
        .unwrap_or(400);
    let mut outcomes: BTreeMap<String, usize> = BTreeMap::new();
    // `TmpFileSystem` has its own copy of `lock_file`; paths below its root are accepted.
    let tmp_fs = Arc::new(TmpFileSystem::new(Some(&scratch_root())));
    let tmp_dyn: Arc<dyn FileSystem> = tmp_fs.clone();

    for trial in 0..trials {
        let (path, inner) = if trial % 2 == 0 {
            (scratch("aligned"), os_fs())
        } else {
            (
                tmp_fs.get_root_path().join(format!("aligned-{trial}")),
                Arc::clone(&tmp_dyn),
            )
        };
        // A closed database at the path.
        drop(DB::open(small_opts(&path, Arc::clone(&inner))).expect("create"));

        let fs = Arc::new(AlignFs {
            inner,
            rendezvous: Barrier::new(3),
            enabled: AtomicBool::new(true),
            spin: [
                AtomicUsize::new((trial % 7) * 400),
                AtomicUsize::new((trial % 11) * 400),
            ],
        });
        let dyn_fs: Arc<dyn FileSystem> = fs.clone();

        let destroyer = {
            let options = small_opts(&path, Arc::clone(&dyn_fs));
            thread::Builder::new()
                .name("destroyer".to_string())
                .spawn(move || DB::destroy_database(options))
                .unwrap()
        };
        let openers: Vec<_> = (0..2)
            .map(|n| {
                let options = small_opts(&path, Arc::clone(&dyn_fs));
                thread::Builder::new()
                    .name(format!("opener-{n}"))
                    .spawn(move || DB::open(options))
                    .unwrap()
            })
            .collect();

        let destroyed = destroyer.join().expect("destroyer panicked");
        let mut handles = vec![];
        let mut open_errors = 0;
        for opener in openers {
            match opener.join().expect("opener panicked") {
                Ok(db) => handles.push(db),
                Err(_) => open_errors += 1,
            }
        }
        fs.enabled.store(false, Ordering::SeqCst);
        *outcomes
            .entry(format!(
                "destroy {} / {} handles / {} open errors",
                if destroyed.is_ok() { "Ok" } else { "Err" },
                handles.len(),
                open_errors
            ))
            .or_default() += 1;

        assert!(
            handles.len() <= 1,
            "PROPERTY VIOLATED in trial {trial}: observed {} live handles on {path:?} after a \
             destroy and two opens raced; required: at most one owner",
            handles.len()
        );
        if let Some(db) = handles.first() {
            db.put(WriteOptions::default(), key(1), value("own", 1))
                .unwrap_or_else(|err| {
                    panic!(
                        "PROPERTY VIOLATED in trial {trial}: the only owner cannot write: {err}"
                    )
                });
            let violations = intruders_must_fail(&path, &dyn_fs, &format!("trial {trial}"));
            assert!(
                violations.is_empty(),
                "PROPERTY VIOLATED: {violations:#?} (descriptors on LOCK: {:?})",
                lock_descriptors()
            );
            assert_eq!(
                db.get(ReadOptions::default(), &key(1)).ok(),
                Some(value("own", 1)),
                "PROPERTY VIOLATED in trial {trial}: the owner lost its data after the failed \
                 attempts"
            );
        }
        drop(handles);
        let _ = std::fs::remove_dir_all(&path);
    }

    eprintln!("s2 outcomes over {trials} trials: {outcomes:#?}");
}

/// Names of the descriptors of this process that point at a LOCK file (diagnostics only).
fn lock_descriptors() -> Vec<String> {
    let mut found = vec![];
    if let Ok(entries) = std::fs::read_dir("/proc/self/fd") {
        for entry in entries.flatten() {
            if let Ok(target) = std::fs::read_link(entry.path()) {
                let target = target.to_string_lossy().to_string();
                if target.contains("/LOCK") {
                    found.push(target);
                }
            }
        }
    }
    found
}

// ------------------------------------------------------------------------------------------------
// s3: I/O faults during open / destroy must not leak the lock or create a second owner
// ------------------------------------------------------------------------------------------------

/// Every file system call of `DB::open` fails in turn (once / from there on). A failed open must
/// have released the lock (otherwise nobody could ever win the open race again); a successful one
/// must be the only owner.
#[test]
fn s3_faults_during_open_neither_leak_the_lock_nor_admit_a_second_owner() {
    let _serial = serial();
    open_fault_sweep(false);
}

/// The same with the reads and writes of the individual files (WAL replay, manifest, tables
/// written during the recovery, `CURRENT`) as additional fault points.
#[test]
fn s3b_file_level_faults_during_open() {
    let _serial = serial();
    open_fault_sweep(true);
}

fn open_fault_sweep(file_faults: bool) {
    let template = scratch("fault-template");
    build_template(&template, "t", 150);

    let fs = Arc::new(FaultFs::new(file_faults));
    let dyn_fs: Arc<dyn FileSystem> = fs.clone();

    // Length of a clean open.
    let clean = scratch("fault-clean");
    copy_dir(&template, &clean);
    fs.arm(FaultMode::None);
    let db = DB::open(small_opts(&clean, Arc::clone(&dyn_fs))).expect("clean open");
    let calls_of_open = fs.calls();
    check_template(&db, "t", 150).expect("clean open lost data");
    drop(db);
    assert!(calls_of_open > 10, "harness problem: {calls_of_open} calls");

    let mut problems = vec![];
    let mut summary: BTreeMap<String, usize> = BTreeMap::new();
    // Dense at the beginning (directories, lock, CURRENT, manifest), sampled afterwards.
    let points: Vec<usize> = (0..calls_of_open + 2)
        .filter(|at| *at < 120 || at % 7 == 0 || *at + 40 > calls_of_open)
        .collect();
    for at in points {
        for mode in [FaultMode::Once(at), FaultMode::From(at)] {
            let path = scratch("fault-open");
            copy_dir(&template, &path);
            fs.arm(mode);
            let options = small_opts(&path, Arc::clone(&dyn_fs));
            let outcome = run_with_timeout("open", Duration::from_secs(120), move || {
                DB::open(options)
            });
            let trace = || fs.trace();
            match outcome {
                Err(hang) => {
                    problems.push(format!("{mode:?}: {hang}; calls: {}", trace()));
                    continue; // the lock is leaked by the hanging thread; nothing more to check
                }
                Ok(Err(_panic)) => {
                    *summary.entry("open panicked".to_string()).or_default() += 1;
                    fs.set_mode(FaultMode::None);
                    if let Some(Err(err)) = lock_is_free(&path) {
                        problems.push(format!(
                            "{mode:?}: DB::open panicked and the lock is still held afterwards \
                             ({err}); calls: {}",
                            trace()
                        ));
                    }
                }
                Ok(Ok(Err(_open_error))) => {
                    *summary.entry("open failed".to_string()).or_default() += 1;
                    fs.set_mode(FaultMode::None);
                    if let Some(Err(err)) = lock_is_free(&path) {
                        problems.push(format!(
                            "{mode:?}: DB::open returned an error but the lock is still held \
                             afterwards ({err}), so no later open can succeed; calls: {}",
                            trace()
                        ));
                    }
                }
                Ok(Ok(Ok(db))) => {
                    *summary.entry("open succeeded".to_string()).or_default() += 1;
                    fs.set_mode(FaultMode::None);
                    let second = DB::open(small_opts(&path, Arc::clone(&dyn_fs)));
                    if second.is_ok() {
                        problems.push(format!(
                            "{mode:?}: DB::open returned Ok and a second DB::open on the same \
                             path returned Ok too; calls: {}",
                            trace()
                        ));
                    }
                    if DB::destroy_database(small_opts(&path, Arc::clone(&dyn_fs))).is_ok() {
                        problems.push(format!(
                            "{mode:?}: destroy_database returned Ok while the handle was live"
                        ));
                    }
                    drop(second);
                    let closed = run_with_timeout("close", Duration::from_secs(120), move || {
                        drop(db)
                    });
                    match closed {
                        Ok(_) => {
                            if let Some(Err(err)) = lock_is_free(&path) {
                                problems.push(format!(
                                    "{mode:?}: the lock is still held after the close ({err})"
                                ));
                            }
                        }
                        Err(hang) => problems.push(format!("{mode:?}: {hang}")),
                    }
                }
            }
            let _ = std::fs::remove_dir_all(&path);
        }
    }

    eprintln!(
        "s3 (file_faults={file_faults}): {calls_of_open} calls in a clean open; outcomes \
         {summary:?}"
    );
    assert!(
        problems.is_empty(),
        "PROPERTY VIOLATED ({} cases): {:#?}",
        problems.len(),
        &problems[..problems.len().min(6)]
    );
}

/// The same sweep for `destroy_database` on a closed database, and for `destroy_database` and
/// `DB::open` issued (with faults) against a database that is OPEN: they must fail and the owner
/// must keep all of its data.
#[test]
fn s4_faults_during_destroy_and_faulty_intruders_against_a_live_owner() {
    let _serial = serial();
    let template = scratch("fault-template2");
    build_template(&template, "t", 120);
    let fs = Arc::new(FaultFs::new(false));
    let dyn_fs: Arc<dyn FileSystem> = fs.clone();
    let mut problems = vec![];

    // (a) destroy of a closed database with faults: the lock must be free afterwards.
    let clean = scratch("fault-destroy-clean");
    copy_dir(&template, &clean);
    fs.arm(FaultMode::None);
    DB::destroy_database(small_opts(&clean, Arc::clone(&dyn_fs))).expect("clean destroy");
    let calls_of_destroy = fs.calls();
    for at in 0..calls_of_destroy + 1 {
        for mode in [FaultMode::Once(at), FaultMode::From(at)] {
            let path = scratch("fault-destroy");
            copy_dir(&template, &path);
            fs.arm(mode);
            let options = small_opts(&path, Arc::clone(&dyn_fs));
            let outcome = run_with_timeout("destroy", Duration::from_secs(60), move || {
                DB::destroy_database(options)
            });
            fs.set_mode(FaultMode::None);
            match outcome {
                Err(hang) => problems.push(format!("{mode:?}: {hang}")),
                Ok(_) => {
                    if let Some(Err(err)) = lock_is_free(&path) {
                        problems.push(format!(
                            "{mode:?}: destroy_database returned but the lock is still held \
                             ({err})"
                        ));
                    }
                    // Whatever is left: racing opens have at most one winner.
                    if path.is_dir() {
                        let (winners, _) = racing_opens(&path, &dyn_fs, 3);
                        if winners.len() > 1 {
                            problems.push(format!(
                                "{mode:?}: {} racing opens succeeded after the faulty destroy",
                                winners.len()
                            ));
                        }
                    }
                }
            }
            let _ = std::fs::remove_dir_all(&path);
        }
    }

    // (b) faulty intruders against a live owner.
    let path = scratch("fault-intruder");
    copy_dir(&template, &path);
    let owner = DB::open(small_opts(&path, os_fs())).expect("owner open");
    for at in 0..8 {
        for mode in [FaultMode::Once(at), FaultMode::From(at)] {
            fs.arm(mode);
            let opened = DB::open(small_opts(&path, Arc::clone(&dyn_fs)));
            if opened.is_ok() {
                problems.push(format!(
                    "{mode:?}: DB::open through the faulty file system returned Ok while the \
                     owner was live"
                ));
            }
            drop(opened);
            fs.arm(mode);
            if DB::destroy_database(small_opts(&path, Arc::clone(&dyn_fs))).is_ok() {
                problems.push(format!(
                    "{mode:?}: destroy_database through the faulty file system returned Ok \
                     while the owner was live"
                ));
            }
        }
    }
    if let Err(what) = check_template(&owner, "t", 120) {
        problems.push(format!(
            "the owner was disturbed by the failed attempts: {what}"
        ));
    }
    for i in 0..200 {
        if let Err(err) = owner.put(WriteOptions::default(), key(i), value("after", i)) {
            problems.push(format!("the owner cannot write any more: {err}"));
            break;
        }
    }
    drop(owner);
    let reopened = DB::open(small_opts(&path, os_fs())).expect("reopen after the owner closed");
    for i in 0..200 {
        if reopened.get(ReadOptions::default(), &key(i)).ok() != Some(value("after", i)) {
            problems.push(format!("key {i} of the owner is wrong after a reopen"));
            break;
        }
    }

    eprintln!("s4: {calls_of_destroy} calls in a clean destroy");
    assert!(
        problems.is_empty(),
        "PROPERTY VIOLATED ({} cases): {:#?}",
        problems.len(),
        &problems[..problems.len().min(6)]
    );
}

// ------------------------------------------------------------------------------------------------
// s5: aliases of the path: symlinks, relative spellings, the other disk-backed file system
// ------------------------------------------------------------------------------------------------

#[test]
fn s5_aliases_of_the_path_and_the_other_disk_file_system_see_the_same_owner() {
    let _serial = serial();
    let mut problems = vec![];

    // The owner goes through TmpFileSystem (paths relative to its root), the intruders through
    // OsFileSystem with the absolute path, a symlink to the directory, a symlink to its parent, a
    // `..` spelling and a path relative to the current directory - and the other way round.
    let tmp_fs = Arc::new(TmpFileSystem::new(Some(&scratch_root())));
    let tmp_root = tmp_fs.get_root_path();
    let tmp_dyn: Arc<dyn FileSystem> = tmp_fs.clone();
    let real = tmp_root.join("db");

    let link_to_db = scratch("link-to-db");
    let link_to_parent = scratch("link-to-parent");
    let cwd = std::env::current_dir().unwrap();

    let spellings = |real: &Path| -> Vec<(String, PathBuf)> {
        let mut list = vec![
            ("absolute".to_string(), real.to_path_buf()),
            ("symlink to the directory".to_string(), link_to_db.clone()),
            (
                "through a symlinked parent".to_string(),
                link_to_parent.join("db"),
            ),
            (
                "dot-dot spelling".to_string(),
                real.join("wal").join("..").join("..").join("db"),
            ),
            ("trailing slash".to_string(), PathBuf::from(format!("{}/", real.display()))),
        ];
        if let Ok(relative) = real.strip_prefix(&cwd) {
            list.push(("relative to the cwd".to_string(), relative.to_path_buf()));
        }
        list
    };

    // Owner through TmpFileSystem.
    let owner = DB::open(small_opts(Path::new("db"), Arc::clone(&tmp_dyn))).expect("owner");
    std::os::unix::fs::symlink(&real, &link_to_db).unwrap();
    std::os::unix::fs::symlink(&tmp_root, &link_to_parent).unwrap();
    for i in 0..300 {
        owner
            .put(WriteOptions::default(), key(i), value("own", i))
            .unwrap();
    }
    for (label, alias) in spellings(&real) {
        let before = quiet_dir_image(&real);
        let opened = DB::open(small_opts(&alias, os_fs()));
        if opened.is_ok() {
            problems.push(format!(
                "owner on TmpFileSystem: DB::open via OsFileSystem and the {label} path \
                 {alias:?} returned Ok"
            ));
        }
        drop(opened);
        if DB::destroy_database(small_opts(&alias, os_fs())).is_ok() {
            problems.push(format!(
                "owner on TmpFileSystem: destroy_database via OsFileSystem and the {label} path \
                 {alias:?} returned Ok"
            ));
        }
        if before != dir_image(&real) {
            problems.push(format!(
                "owner on TmpFileSystem: the attempts via the {label} path changed its files"
            ));
        }
    }
    for i in 0..300 {
        if owner.get(ReadOptions::default(), &key(i)).ok() != Some(value("own", i)) {
            problems.push(format!("owner on TmpFileSystem lost key {i}"));
            break;
        }
    }
    drop(owner);

    // Owner through OsFileSystem and an alias, intruders through every other spelling and
    // through TmpFileSystem.
    for (owner_label, owner_path) in spellings(&real) {
        let owner = match DB::open(small_opts(&owner_path, os_fs())) {
            Ok(owner) => owner,
            Err(err) => {
                problems.push(format!(
                    "after the close, DB::open via the {owner_label} path failed: {err}"
                ));
                continue;
            }
        };
        for (label, alias) in spellings(&real) {
            if DB::open(small_opts(&alias, os_fs())).is_ok() {
                problems.push(format!(
                    "owner via {owner_label}: DB::open via the {label} path returned Ok"
                ));
            }
            if DB::destroy_database(small_opts(&alias, os_fs())).is_ok() {
                problems.push(format!(
                    "owner via {owner_label}: destroy_database via the {label} path returned Ok"
                ));
            }
        }
        if DB::open(small_opts(Path::new("db"), Arc::clone(&tmp_dyn))).is_ok() {
            problems.push(format!(
                "owner via {owner_label}: DB::open via TmpFileSystem returned Ok"
            ));
        }
        if DB::destroy_database(small_opts(Path::new("db"), Arc::clone(&tmp_dyn))).is_ok() {
            problems.push(format!(
                "owner via {owner_label}: destroy_database via TmpFileSystem returned Ok"
            ));
        }
        for i in 0..300 {
            if owner.get(ReadOptions::default(), &key(i)).ok() != Some(value("own", i)) {
                problems.push(format!("owner via {owner_label} lost key {i}"));
                break;
            }
        }
        drop(owner);
    }

    let _ = std::fs::remove_file(&link_to_db);
    let _ = std::fs::remove_file(&link_to_parent);
    assert!(
        problems.is_empty(),
        "PROPERTY VIOLATED: {problems:#?}"
    );
}

// ------------------------------------------------------------------------------------------------
// s6: the owner is another process that is killed; a spawned child must not keep the lock alive
// ------------------------------------------------------------------------------------------------

const CHILD_ENV: &str = "AUDIT2_C17_CHILD_DB";

/// Not a test of its own: the body of the child process of `s6`.
#[test]
fn child_owner_process() {
    let path = match std::env::var(CHILD_ENV) {
        Ok(path) => PathBuf::from(path),
        Err(_) => return,
    };
    let db = DB::open(small_opts(&path, os_fs())).expect("child: open");
    for i in 0..400 {
        db.put(WriteOptions::default(), key(i), value("child", i))
            .expect("child: put");
    }
    println!("\nCHILD-READY");
    use std::io::Write;
    std::io::stdout().flush().unwrap();
    loop {
        thread::sleep(Duration::from_secs(1));
        let _ = db.get(ReadOptions::default(), &key(0));
    }
}

#[test]
fn s6_owner_in_another_process_is_killed_then_exactly_one_racing_open_wins() {
    use std::io::{BufRead, BufReader};
    use std::process::{Command, Stdio};

    if [CHILD_ENV, HAMMER_ENV, ABORT_ENV]
        .iter()
        .any(|name| std::env::var(name).is_ok())
    {
        return;
    }
    let _serial = serial();
    let path = scratch("killed-owner");
    let fs = os_fs();

    let mut child = Command::new(std::env::current_exe().unwrap())
        .args(["--exact", "child_owner_process", "--nocapture", "--test-threads=1"])
        .env(CHILD_ENV, &path)
        .stdout(Stdio::piped())
        .stderr(Stdio::null())
        .spawn()
        .expect("spawn child");
    let stdout = child.stdout.take().unwrap();
    let (sender, receiver) = mpsc::channel();
    thread::spawn(move || {
        for line in BufReader::new(stdout).lines().flatten() {
            if line.contains("CHILD-READY") {
                let _ = sender.send(());
            }
        }
    });
    if receiver.recv_timeout(Duration::from_secs(120)).is_err() {
        let _ = child.kill();
        let _ = child.wait();
        panic!("harness problem: the child process did not get ready");
    }

    // The owner lives in another process.
    let violations = intruders_must_fail(&path, &fs, "owner in a child process");

    // While it lives, this process spawns a long-running grandchild: descriptors must not leak
    // into it in a way that keeps a lock alive (checked below, after our own close).
    child.kill().expect("kill the child (by its pid)");
    child.wait().unwrap();

    let (winners, errors) = racing_opens(&path, &fs, 8);
    assert!(
        violations.is_empty(),
        "PROPERTY VIOLATED: {violations:#?}"
    );
    assert_eq!(
        winners.len(),
        1,
        "PROPERTY VIOLATED: after the owning process was killed, {} of 8 racing DB::open calls \
         succeeded (errors: {errors:?}); required: exactly one",
        winners.len()
    );
    let db = &winners[0];
    for i in 0..400 {
        assert_eq!(
            db.get(ReadOptions::default(), &key(i)).ok(),
            Some(value("child", i)),
            "key {i} acknowledged by the killed owner is not there"
        );
    }

    // A process spawned while the database is open (fork + exec) must not inherit the lock.
    let mut sleeper = Command::new("sleep").arg("30").spawn().expect("spawn sleep");
    drop(winners);
    let (winners, errors) = racing_opens(&path, &fs, 4);
    let _ = sleeper.kill();
    let _ = sleeper.wait();
    assert_eq!(
        winners.len(),
        1,
        "PROPERTY VIOLATED: after the owner closed (a process spawned during its life time is \
         still running), {} of 4 racing DB::open calls succeeded (errors: {errors:?}); required: \
         exactly one",
        winners.len()
    );
}

// ------------------------------------------------------------------------------------------------
// s8: several PROCESSES open / work / close / destroy the same path
// ------------------------------------------------------------------------------------------------

const HAMMER_ENV: &str = "AUDIT2_C17_HAMMER_DB";

fn witness(log: &Path, line: String) {
    use std::io::Write;
    // One small O_APPEND write per event: the order in the file is the order of the writes.
    let mut file = std::fs::OpenOptions::new()
        .append(true)
        .create(true)
        .open(log)
        .expect("witness log");
    file.write_all(format!("{line}\n").as_bytes()).expect("witness write");
}

/// Not a test of its own: the body of the child processes of `s8`.
#[test]
fn child_hammer_process() {
    let path = match std::env::var(HAMMER_ENV) {
        Ok(path) => PathBuf::from(path),
        Err(_) => return,
    };
    let log = path.with_extension("witness");
    let pid = std::process::id();
    let seconds: u64 = std::env::var("AUDIT_C17_SECONDS")
        .ok()
        .and_then(|s| s.parse().ok())
        .unwrap_or(15);
    let deadline = Instant::now() + Duration::from_secs(seconds);
    let counter = Arc::new(AtomicUsize::new(0));

    let mut threads = vec![];
    for worker in 0..2usize {
        let (path, log, counter) = (path.clone(), log.clone(), Arc::clone(&counter));
        threads.push(thread::spawn(move || {
            while Instant::now() < deadline {
                let db = match DB::open(small_opts(&path, os_fs())) {
                    Ok(db) => db,
                    Err(_) => continue,
                };
                let id = format!("{pid}.{}", counter.fetch_add(1, Ordering::SeqCst));
                witness(&log, format!("B {id}"));
                let keys = if worker == 0 { 80 } else { 0 };
                let mut disturbed = None;
                for i in 0..keys {
                    if let Err(err) = db.put(WriteOptions::default(), key(i), value(&id, i)) {
                        disturbed = Some(format!("put failed: {err}"));
                        break;
                    }
                }
                for i in 0..keys {
                    if disturbed.is_some() {
                        break;
                    }
                    match db.get(ReadOptions::default(), &key(i)) {
                        Ok(found) if found == value(&id, i) => {}
                        Ok(_) => disturbed = Some(format!("get of key {i}: foreign value")),
                        Err(err) => disturbed = Some(format!("get of key {i} failed: {err}")),
                    }
                }
                if let Some(what) = disturbed {
                    witness(&log, format!("X {id} {what}"));
                }
                witness(&log, format!("E {id}"));
                drop(db);
            }
        }));
    }
    {
        let (path, log) = (path.clone(), log.clone());
        threads.push(thread::spawn(move || {
            let mut n = 0usize;
            while Instant::now() < deadline {
                n += 1;
                witness(&log, format!("DS {pid}.{n}"));
                if DB::destroy_database(small_opts(&path, os_fs())).is_ok() {
                    witness(&log, format!("DOK {pid}.{n}"));
                }
                thread::sleep(Duration::from_millis(2));
            }
        }));
    }
    for thread in threads {
        thread.join().expect("hammer thread panicked");
    }
}

/// Three processes with two opening threads and one destroying thread each. Every session writes
/// `B id` after its open returned and `E id` before it closes into a common append-only witness
/// file; destroyers write `DS`/`DOK` around successful calls. Violations: a `B` while another
/// session is between its `B` and `E`; a `DOK` whose `DS` was written while the session that is
/// still live at the `DOK` was live; an `X` (session disturbed).
#[test]
fn s8_several_processes_hammer_one_path() {
    use std::process::{Command, Stdio};

    if [CHILD_ENV, HAMMER_ENV, "AUDIT2_C17_ABORT_CHILD_DB"]
        .iter()
        .any(|name| std::env::var(name).is_ok())
    {
        return;
    }
    let _serial = serial();
    let path = scratch("hammer");
    let log = path.with_extension("witness");
    let _ = std::fs::remove_file(&log);

    let children: Vec<_> = (0..3)
        .map(|_| {
            Command::new(std::env::current_exe().unwrap())
                .args(["--exact", "child_hammer_process", "--test-threads=1"])
                .env(HAMMER_ENV, &path)
                .stdout(Stdio::null())
                .stderr(Stdio::null())
                .spawn()
                .expect("spawn hammer child")
        })
        .collect();
    for mut child in children {
        let status = child.wait().expect("wait for hammer child");
        assert!(status.success(), "harness problem: a hammer child failed: {status:?}");
    }

    let text = std::fs::read_to_string(&log).expect("witness log");
    let mut live: Option<String> = None;
    let mut destroys_in_flight: BTreeMap<String, Option<String>> = BTreeMap::new();
    let mut violations = vec![];
    let (mut sessions, mut destroys) = (0usize, 0usize);
    for (number, line) in text.lines().enumerate() {
        let mut words = line.splitn(3, ' ');
        let (kind, id) = (words.next().unwrap_or(""), words.next().unwrap_or("").to_string());
        match kind {
            "B" => {
                sessions += 1;
                if let Some(other) = &live {
                    violations.push(format!(
                        "line {number}: DB::open returned Ok for session {id} while the handle \
                         of session {other} (another thread or process) was live"
                    ));
                }
                live = Some(id);
            }
            "E" => {
                if live.as_ref() == Some(&id) {
                    live = None;
                }
            }
            "X" => violations.push(format!(
                "line {number}: the running instance of session {id} was disturbed: {}",
                words.next().unwrap_or("")
            )),
            "DS" => {
                destroys_in_flight.insert(id, live.clone());
            }
            "DOK" => {
                destroys += 1;
                if let Some(Some(live_at_start)) = destroys_in_flight.remove(&id) {
                    if live.as_ref() == Some(&live_at_start) {
                        violations.push(format!(
                            "line {number}: destroy_database {id} returned Ok while the handle \
                             of session {live_at_start} was live during the whole call"
                        ));
                    }
                }
            }
            _ => {}
        }
    }
    eprintln!("s8: {sessions} sessions and {destroys} successful destroys in 3 processes");
    assert!(
        violations.is_empty(),
        "PROPERTY VIOLATED ({} observations): {:#?}",
        violations.len(),
        &violations[..violations.len().min(5)]
    );
    assert!(
        sessions > 10 && destroys > 3,
        "harness problem: only {sessions} sessions / {destroys} destroys"
    );
}

// ------------------------------------------------------------------------------------------------
// o1 (observation, ignored by default): the background thread of a FAILED open panics
// ------------------------------------------------------------------------------------------------

const ABORT_ENV: &str = "AUDIT2_C17_ABORT_CHILD_DB";

/// Not a test of its own: the body of the child process of `o1`. The application treats a panic
/// of any thread as fatal (what `panic = "abort"` or an aborting panic hook do).
#[test]
fn child_with_abort_on_panic() {
    let path = match std::env::var(ABORT_ENV) {
        Ok(path) => PathBuf::from(path),
        Err(_) => return,
    };
    std::panic::set_hook(Box::new(|info| {
        eprintln!(
            "CHILD-PANIC in thread {:?}: {info}",
            thread::current().name().unwrap_or("?")
        );
        std::process::abort();
    }));
    let owner = DB::open(small_opts(&path, os_fs())).expect("child: open");
    for i in 0..50 {
        owner
            .put(WriteOptions::default(), key(i), value("own", i))
            .expect("child: put");
    }
    eprintln!("CHILD-OWNER-OPEN");
    let second = DB::open(small_opts(&path, os_fs()));
    eprintln!("CHILD-SECOND-OPEN-RETURNED {}", err_text(&second.map(|db| drop(db))));
    thread::sleep(Duration::from_millis(500));
    for i in 0..50 {
        assert_eq!(
            owner.get(ReadOptions::default(), &key(i)).ok(),
            Some(value("own", i))
        );
    }
    eprintln!("CHILD-SURVIVED");
}

/// OBSERVATION, not counted as a violation under the default `panic = "unwind"`: `DB::open`
/// starts its background thread before it takes the lock; when the lock is refused the thread's
/// task channel is dropped and the thread panics in `receiver.recv().unwrap()`
/// (src/compaction/worker.rs:99). In an application where a panic of any thread is fatal
/// (`panic = "abort"` profile, aborting panic hook) the refused second open therefore does not
/// "fail with an error": it kills the process and with it the running instance. Run with
/// `--ignored` to see it.
#[test]
#[ignore]
fn o1_observation_refused_open_panics_a_thread_fatal_under_panic_abort() {
    use std::process::{Command, Stdio};

    if std::env::var(ABORT_ENV).is_ok() || std::env::var(CHILD_ENV).is_ok() {
        return;
    }
    let _serial = serial();
    let path = scratch("abort-on-panic");
    let output = Command::new(std::env::current_exe().unwrap())
        .args(["--exact", "child_with_abort_on_panic", "--nocapture", "--test-threads=1"])
        .env(ABORT_ENV, &path)
        .stdout(Stdio::null())
        .stderr(Stdio::piped())
        .output()
        .expect("run child");
    let stderr = String::from_utf8_lossy(&output.stderr);
    let relevant: Vec<&str> = stderr
        .lines()
        .filter(|line| line.starts_with("CHILD-"))
        .collect();
    assert!(
        output.status.success() && stderr.contains("CHILD-SURVIVED"),
        "observed: the process that owns the database ended with {:?} after a second DB::open on \
         the same path ({relevant:?}); required: the second open fails with an error and the \
         running instance is not disturbed",
        output.status
    );
}

// ------------------------------------------------------------------------------------------------
// s7: an iterator that outlives its database
// ------------------------------------------------------------------------------------------------

/// The owner closes while one of its iterators is alive. The close must complete and release the
/// database: exactly one racing open wins; the stale iterator - still in use - does not disturb
/// the new owner (and the new owner is really exclusive).
#[test]
fn s7_iterator_outliving_the_close_does_not_keep_or_disturb_ownership() {
    let _serial = serial();
    let path = scratch("stale-iterator");
    let fs = os_fs();
    build_template(&path, "t", 300);

    let db = DB::open(small_opts(&path, Arc::clone(&fs))).expect("open");
    let mut stale = db.new_iterator(ReadOptions::default()).expect("iterator");
    stale.seek_to_first().expect("seek");
    assert!(stale.is_valid());

    let closed = run_with_timeout("close", Duration::from_secs(120), move || drop(db));
    assert!(
        matches!(closed, Ok(Ok(()))),
        "the close with a live iterator hung or panicked: {:?}",
        closed.map(|r| r.is_ok())
    );

    let (mut winners, errors) = racing_opens(&path, &fs, 6);
    assert_eq!(
        winners.len(),
        1,
        "PROPERTY VIOLATED: after the owner closed (one of its iterators is still alive), {} of \
         6 racing DB::open calls succeeded (errors {errors:?}); required: exactly one",
        winners.len()
    );
    let owner = winners.pop().unwrap();

    // The stale iterator is used heavily (read sampling may want to schedule compactions) while
    // the new owner rewrites and compacts everything in another thread. (The iterator is not
    // `Send`, so it stays here.)
    let done = Arc::new(AtomicBool::new(false));
    let owner_thread = {
        let done = Arc::clone(&done);
        let (path, fs) = (path.clone(), Arc::clone(&fs));
        thread::spawn(move || {
            let mut problems = vec![];
            for round in 0..3 {
                for i in 0..300 {
                    if let Err(err) = owner.put(
                        WriteOptions::default(),
                        key(i),
                        value(&format!("new{round}"), i),
                    ) {
                        problems.push(format!("the new owner cannot write: {err}"));
                        break;
                    }
                }
                owner.compact_range(None..None);
                problems.extend(intruders_must_fail_quick(&path, &fs));
            }
            done.store(true, Ordering::SeqCst);
            (owner, problems)
        })
    };
    let mut steps = 0usize;
    while !done.load(Ordering::SeqCst) {
        if stale.seek_to_first().is_err() {
            thread::sleep(Duration::from_millis(1));
            continue;
        }
        while stale.is_valid() && !done.load(Ordering::SeqCst) {
            steps += 1;
            if stale.next().is_none() {
                break;
            }
        }
    }
    drop(stale);
    let (owner, mut problems) = owner_thread.join().expect("the new owner's thread panicked");
    eprintln!("s7: the stale iterator made {steps} steps");

    for i in 0..300 {
        if owner.get(ReadOptions::default(), &key(i)).ok() != Some(value("new2", i)) {
            problems.push(format!("the new owner lost key {i}"));
            break;
        }
    }
    drop(owner);
    let reopened = DB::open(small_opts(&path, Arc::clone(&fs))).expect("reopen");
    for i in 0..300 {
        if reopened.get(ReadOptions::default(), &key(i)).ok() != Some(value("new2", i)) {
            problems.push(format!("key {i} is wrong after the reopen"));
            break;
        }
    }
    assert!(problems.is_empty(), "PROPERTY VIOLATED: {problems:#?}");
}

/// Like `intruders_must_fail` but without the file comparison (the owner is busy).
fn intruders_must_fail_quick(path: &Path, fs: &Arc<dyn FileSystem>) -> Vec<String> {
    let mut violations = vec![];
    let options = small_opts(path, Arc::clone(fs));
    if thread::spawn(move || DB::open(options).is_ok())
        .join()
        .unwrap()
    {
        violations.push("DB::open returned Ok while the new owner was live".to_string());
    }
    if DB::destroy_database(small_opts(path, Arc::clone(fs))).is_ok() {
        violations.push("destroy_database returned Ok while the new owner was live".to_string());
    }
    violations
}

// ------------------------------------------------------------------------------------------------
// schedule-forcing tests (need the `verif` feature)
// ------------------------------------------------------------------------------------------------

#[cfg(feature = "verif")]
mod forced {
    use super::*;
    use raindb::verif::{self, Handler};
    use std::sync::Condvar;
    use std::thread::ThreadId;

    #[derive(Clone, Copy, PartialEq, Eq, Debug)]
    pub enum Who {
        /// The background thread of a database.
        Worker,
        /// One particular thread.
        Thread(ThreadId),
    }

    #[derive(Default)]
    struct GateState {
        armed: Option<(&'static str, Who)>,
        parked: bool,
        released: bool,
        hits: Vec<String>,
    }

    /// Parks the first matching thread that reaches the armed scheduling point.
    #[derive(Default)]
    pub struct Gate {
        state: Mutex<GateState>,
        changed: Condvar,
    }

    impl Gate {
        pub fn install() -> Arc<Gate> {
            let gate = Arc::new(Gate::default());
            verif::set_handler(Some(gate.clone() as Arc<dyn Handler>));
            gate
        }

        pub fn arm(&self, point: &'static str, who: Who) {
            let mut state = self.state.lock().unwrap();
            state.armed = Some((point, who));
            state.parked = false;
            state.released = false;
        }

        pub fn disarm(&self) {
            self.state.lock().unwrap().armed = None;
        }

        pub fn is_parked(&self) -> bool {
            self.state.lock().unwrap().parked
        }

        pub fn wait_parked(&self, timeout: Duration) -> bool {
            let deadline = Instant::now() + timeout;
            let mut state = self.state.lock().unwrap();
            while !state.parked {
                let now = Instant::now();
                if now >= deadline {
                    return false;
                }
                state = self.changed.wait_timeout(state, deadline - now).unwrap().0;
            }
            true
        }

        pub fn release(&self) {
            let mut state = self.state.lock().unwrap();
            state.released = true;
            self.changed.notify_all();
        }
    }

    impl Handler for Gate {
        fn pause(&self, point: &'static str, _args: &[u64]) {
            let mut state = self.state.lock().unwrap();
            let matches = match state.armed {
                Some((armed_point, who)) if armed_point == point => match who {
                    Who::Worker => thread::current()
                        .name()
                        .map_or(false, |name| name.starts_with("raindb-")),
                    Who::Thread(id) => thread::current().id() == id,
                },
                _ => false,
            };
            if !matches {
                return;
            }
            state.armed = None;
            state.parked = true;
            state.hits.push(point.to_string());
            self.changed.notify_all();
            while !state.released {
                state = self.changed.wait(state).unwrap();
            }
            state.parked = false;
        }

        fn note(&self, _point: &'static str, _args: &[u64]) {}
    }

    struct Uninstall;
    impl Drop for Uninstall {
        fn drop(&mut self) {
            verif::set_handler(None);
        }
    }

    /// The background thread is parked in the middle of a flush / a manifest write / the removal
    /// of obsolete files / a table compaction; the owner then starts to close. As long as the
    /// background work is not finished the instance is running: opens and destroys must fail and
    /// change nothing. After the close exactly one racing open wins and finds all the data.
    #[test]
    fn f1_close_while_background_work_is_in_flight_keeps_the_database_owned() {
        let _serial = serial();
        let gate = Gate::install();
        let _uninstall = Uninstall;
        let fs = os_fs();
        let mut problems = vec![];

        for point in [
            "compact.begin",
            "flush.before_build",
            "flush.after_build",
            "manifest.before_append",
            "manifest.after_append",
            "gc.before_delete",
            "gc.delete_one",
            "compact.step",
            "manifest.after_current",
        ] {
            for reuse_log_files in [true, false] {
                let path = scratch("inflight");
                let options = DbOptions {
                    reuse_log_files,
                    ..small_opts(&path, Arc::clone(&fs))
                };
                let db = DB::open(options.clone()).expect("open");
                if point == "manifest.after_current" {
                    // Only reached when a new manifest is started, i.e. during an open; see f2.
                    drop(db);
                    continue;
                }

                // Write until the background thread is parked at the point. The writer waits for
                // the background thread after every put so that it never blocks on it.
                gate.arm(point, Who::Worker);
                let mut acknowledged: BTreeMap<usize, Vec<u8>> = BTreeMap::new();
                let mut written = 0usize;
                'fill: for round in 0..40 {
                    for i in 0..120 {
                        if gate.is_parked() {
                            break 'fill;
                        }
                        let v = value(&format!("r{round}"), i);
                        db.put(WriteOptions::default(), key(i), v.clone())
                            .expect("put");
                        acknowledged.insert(i, v);
                        written += 1;
                        let started = Instant::now();
                        while !gate.is_parked()
                            && db.verif_probe().background_compaction_scheduled
                            && started.elapsed() < Duration::from_secs(30)
                        {
                            thread::sleep(Duration::from_micros(200));
                        }
                    }
                }
                if !gate.is_parked() {
                    gate.disarm();
                    problems.push(format!(
                        "harness problem: the background thread never reached {point} \
                         ({written} puts)"
                    ));
                    drop(db);
                    continue;
                }

                // The owner starts to close.
                let (closed_sender, closed_receiver) = mpsc::channel();
                let closer = thread::spawn(move || {
                    drop(db);
                    let _ = closed_sender.send(());
                });
                let closed_early = closed_receiver
                    .recv_timeout(Duration::from_millis(300))
                    .is_ok();
                let context = format!(
                    "background thread parked at {point} (reuse_log_files={reuse_log_files}), \
                     close {}",
                    if closed_early { "already returned" } else { "in progress" }
                );
                if closed_early {
                    // The close returned although the background thread of this instance is
                    // still in the middle of its work (it is parked).
                    problems.push(format!(
                        "{context}: the close completed while background work of the instance \
                         was still in flight"
                    ));
                } else {
                    problems.extend(intruders_must_fail(&path, &fs, &context));
                }

                gate.release();
                if closed_receiver.recv_timeout(Duration::from_secs(120)).is_err() && !closed_early
                {
                    problems.push(format!("{context}: the close never completed"));
                    continue;
                }
                closer.join().expect("closer panicked");

                let (mut winners, errors) = racing_opens(&path, &fs, 5);
                if winners.len() != 1 {
                    problems.push(format!(
                        "{context}: after the close {} of 5 racing opens succeeded (errors \
                         {errors:?}); required: exactly one",
                        winners.len()
                    ));
                    continue;
                }
                let db = winners.pop().unwrap();
                for (i, expected) in &acknowledged {
                    if db.get(ReadOptions::default(), &key(*i)).ok().as_ref() != Some(expected) {
                        problems.push(format!(
                            "{context}: key {i} does not have its last acknowledged value after \
                             the reopen (data integrity, reported for information)"
                        ));
                        break;
                    }
                }
                drop(db);
                let _ = std::fs::remove_dir_all(&path);
            }
        }

        assert!(problems.is_empty(), "PROPERTY VIOLATED: {problems:#?}");
    }

    /// A thread is parked INSIDE `DB::open` (it holds the lock: WAL replay is flushing a memtable,
    /// or the new manifest is being written / `CURRENT` was just switched). The half-open instance
    /// is the owner: other opens and destroys must fail and change nothing, and when the open
    /// completes it is the one and only owner with all data.
    #[test]
    fn f2_an_open_in_progress_already_owns_the_database() {
        let _serial = serial();
        let gate = Gate::install();
        let _uninstall = Uninstall;
        let fs = os_fs();
        let mut problems = vec![];

        for point in [
            "flush.before_build",
            "flush.after_build",
            "manifest.before_append",
            "manifest.after_append",
            "manifest.after_current",
            "gc.before_delete",
            "gc.delete_one",
        ] {
            for reuse_log_files in [false, true] {
                let path = scratch("half-open");
                // A closed database whose WAL holds much more than the small memtable budget of
                // the next open, plus table files and obsolete files to collect.
                build_template(&path, "t", 100);
                {
                    let db = DB::open(big_opts(&path, Arc::clone(&fs))).expect("fill the WAL");
                    for i in 0..600 {
                        db.put(WriteOptions::default(), key(i), value("wal", i))
                            .expect("put");
                    }
                }

                let gate_for_opener = Arc::clone(&gate);
                let options = DbOptions {
                    reuse_log_files,
                    ..small_opts(&path, Arc::clone(&fs))
                };
                let opener = thread::spawn(move || {
                    gate_for_opener.arm(point, Who::Thread(thread::current().id()));
                    DB::open(options)
                });
                if !gate.wait_parked(Duration::from_secs(60)) {
                    gate.disarm();
                    let opened = opener.join().expect("opener panicked");
                    eprintln!(
                        "f2: {point} (reuse_log_files={reuse_log_files}) is not reached inside \
                         DB::open ({}); skipped",
                        err_text(&opened)
                    );
                    continue;
                }
                let context =
                    format!("DB::open parked at {point} (reuse_log_files={reuse_log_files})");
                problems.extend(intruders_must_fail(&path, &fs, &context));
                gate.release();

                let db = match opener.join().expect("opener panicked") {
                    Ok(db) => db,
                    Err(err) => {
                        problems.push(format!(
                            "{context}: the open failed after the intruders were turned away: \
                             {err}"
                        ));
                        continue;
                    }
                };
                problems.extend(intruders_must_fail_quick(&path, &fs));
                for i in 0..600 {
                    if db.get(ReadOptions::default(), &key(i)).ok() != Some(value("wal", i)) {
                        problems.push(format!("{context}: key {i} is wrong after the open"));
                        break;
                    }
                }
                drop(db);
                let _ = std::fs::remove_dir_all(&path);
            }
        }

        assert!(problems.is_empty(), "PROPERTY VIOLATED: {problems:#?}");
    }

    /// The closing owner is parked right after it released the lock (its WAL writer, its manifest
    /// writer, its table cache and its background thread still exist). Several opens race NOW, the
    /// winner works (flushes, compactions, log reuse) while the old instance finishes its drop.
    #[test]
    fn f3_racing_opens_while_the_old_owner_is_still_tearing_down() {
        let _serial = serial();
        let gate = Gate::install();
        let _uninstall = Uninstall;
        let fs = os_fs();
        let mut problems = vec![];

        for reuse_log_files in [true, false] {
            let path = scratch("teardown");
            let options = DbOptions {
                reuse_log_files,
                ..small_opts(&path, Arc::clone(&fs))
            };
            let db = DB::open(options.clone()).expect("open");
            for i in 0..500 {
                db.put(WriteOptions::default(), key(i), value("old", i))
                    .unwrap();
            }
            // An iterator and a snapshot of the old instance stay alive as well.
            let mut stale = db.new_iterator(ReadOptions::default()).unwrap();
            stale.seek_to_first().unwrap();

            let gate_for_closer = Arc::clone(&gate);
            let closer = thread::spawn(move || {
                gate_for_closer.arm("close.lock_released", Who::Thread(thread::current().id()));
                drop(db);
            });
            assert!(
                gate.wait_parked(Duration::from_secs(120)),
                "harness problem: the closer did not reach close.lock_released"
            );

            let (mut winners, errors) = racing_opens(&path, &fs, 6);
            if winners.len() != 1 {
                problems.push(format!(
                    "reuse_log_files={reuse_log_files}: the old owner released its lock and {} \
                     of 6 racing opens succeeded (errors {errors:?}); required: exactly one",
                    winners.len()
                ));
                gate.release();
                closer.join().unwrap();
                continue;
            }
            let owner = winners.pop().unwrap();
            for i in 0..500 {
                if owner.get(ReadOptions::default(), &key(i)).ok() != Some(value("old", i)) {
                    problems.push(format!(
                        "reuse_log_files={reuse_log_files}: the new owner does not see key {i} \
                         of the old one"
                    ));
                    break;
                }
            }
            for i in 0..500 {
                owner
                    .put(WriteOptions::default(), key(i), value("new", i))
                    .unwrap_or_else(|err| panic!("PROPERTY VIOLATED: new owner put: {err}"));
            }
            problems.extend(intruders_must_fail_quick(&path, &fs));

            // The old instance finishes its drop, its iterator is used and dropped.
            gate.release();
            closer.join().expect("closer panicked");
            while stale.is_valid() {
                if stale.next().is_none() {
                    break;
                }
            }
            drop(stale);

            owner.compact_range(None..None);
            for i in 0..500 {
                if owner.get(ReadOptions::default(), &key(i)).ok() != Some(value("new", i)) {
                    problems.push(format!(
                        "reuse_log_files={reuse_log_files}: the new owner lost key {i} when the \
                         old instance finished its tear-down"
                    ));
                    break;
                }
            }
            drop(owner);
            let reopened = DB::open(options).expect("reopen");
            for i in 0..500 {
                if reopened.get(ReadOptions::default(), &key(i)).ok() != Some(value("new", i)) {
                    problems.push(format!(
                        "reuse_log_files={reuse_log_files}: key {i} is wrong after a reopen"
                    ));
                    break;
                }
            }
        }

        assert!(problems.is_empty(), "PROPERTY VIOLATED: {problems:#?}");
    }
}
