// C17 audit demonstrations.
//
// Run (from the worktree root; the `verif` feature is not needed):
//
//   cargo test --offline --test audit_demo -- --test-threads=1 --nocapture
//
// Both tests fail deterministically on the unmodified tree.
//
//   f1_refused_open_panics_a_background_thread
//       DB::open on a path whose lock is held returns Err, but only after it has spawned its
//       compaction thread. The thread is abandoned with its channel sender dropped and dies in
//       `receiver.recv().unwrap()` (src/compaction/worker.rs:99): one thread panic per refused open.
//
//   f2_refused_open_makes_the_lock_holder_fail
//       (borderline: the lock holder here is a destroy_database call, not a DB handle)
//       DB::open creates <db>/wal and <db>/data BEFORE it asks for the lock. An open that is
//       refused because destroy_database holds the lock has then already re-created the two
//       directories the destroyer had removed; destroy_database ends with
//       "Directory not empty" and leaves the directory behind.

use std::collections::HashSet;
use std::io::Result;
use std::path::{Path, PathBuf};
use std::sync::atomic::{AtomicBool, Ordering};
use std::sync::{Arc, Condvar, Mutex};
use std::thread;
use std::time::{Duration, Instant};

use raindb::fs::{
    FileLock, FileSystem, RandomAccessFile, ReadonlyRandomAccessFile, TmpFileSystem,
};
use raindb::{DbOptions, ReadOptions, WriteOptions, DB};

// ---------------------------------------------------------------------------------------------
// F1
// ---------------------------------------------------------------------------------------------

#[test]
fn f1_refused_open_panics_a_background_thread() {
    let fs: Arc<dyn FileSystem> = Arc::new(TmpFileSystem::new(None));
    let opts = || DbOptions {
        db_path: "db".to_string(),
        filesystem_provider: Arc::clone(&fs),
        create_if_missing: true,
        ..DbOptions::default()
    };

    // Record every panic of every thread of this process while the test runs.
    let panics: Arc<Mutex<Vec<String>>> = Arc::new(Mutex::new(vec![]));
    let previous_hook = std::panic::take_hook();
    {
        let panics = Arc::clone(&panics);
        std::panic::set_hook(Box::new(move |info| {
            panics.lock().unwrap().push(format!(
                "thread {:?}: {}",
                thread::current().name().unwrap_or("<unnamed>"),
                info
            ));
        }));
    }

    let db = DB::open(opts()).unwrap();
    db.put(WriteOptions::default(), b"k".to_vec(), b"v".to_vec())
        .unwrap();

    const ATTEMPTS: usize = 5;
    for _ in 0..ATTEMPTS {
        let second = DB::open(opts());
        assert!(second.is_err(), "a second open must be refused");
    }
    assert!(DB::destroy_database(opts()).is_err());

    // Give the abandoned threads time to run (they panic as soon as they are scheduled).
    thread::sleep(Duration::from_millis(500));
    assert_eq!(db.get(ReadOptions::default(), b"k").unwrap(), b"v".to_vec());
    drop(db);

    std::panic::set_hook(previous_hook);
    let panics = panics.lock().unwrap();
    for p in panics.iter() {
        println!("recorded panic: {p}");
    }
    assert!(
        panics.is_empty(),
        "{} refused DB::open calls caused {} thread panics in the process that hosts the running \
         instance (with panic=abort, or a panic hook that aborts, the running instance is killed)",
        ATTEMPTS,
        panics.len()
    );
}

// ---------------------------------------------------------------------------------------------
// F2
// ---------------------------------------------------------------------------------------------

#[derive(Default)]
struct Events {
    set: Mutex<HashSet<&'static str>>,
    cv: Condvar,
}

impl Events {
    fn signal(&self, name: &'static str) {
        self.set.lock().unwrap().insert(name);
        self.cv.notify_all();
    }

    fn wait(&self, name: &'static str) {
        let mut guard = self.set.lock().unwrap();
        let deadline = Instant::now() + Duration::from_secs(20);
        while !guard.contains(name) {
            let now = Instant::now();
            assert!(now < deadline, "test harness: timed out waiting for {name}");
            guard = self.cv.wait_timeout(guard, deadline - now).unwrap().0;
        }
    }
}

/// Delegates every call unchanged to a TmpFileSystem. Its only effect is to hold the thread named
/// "destroyer" for a moment just before it removes the LOCK file (a pure scheduling delay).
struct GateFs {
    inner: TmpFileSystem,
    events: Arc<Events>,
    armed: AtomicBool,
}

impl FileSystem for GateFs {
    fn get_name(&self) -> String {
        "GateFs".into()
    }
    fn create_dir(&self, path: &Path) -> Result<()> {
        self.inner.create_dir(path)
    }
    fn create_dir_all(&self, path: &Path) -> Result<()> {
        self.inner.create_dir_all(path)
    }
    fn list_dir(&self, path: &Path) -> Result<Vec<PathBuf>> {
        self.inner.list_dir(path)
    }
    fn open_file(&self, path: &Path) -> Result<Box<dyn ReadonlyRandomAccessFile>> {
        self.inner.open_file(path)
    }
    fn rename(&self, from: &Path, to: &Path) -> Result<()> {
        self.inner.rename(from, to)
    }
    fn create_file(&self, path: &Path, append: bool) -> Result<Box<dyn RandomAccessFile>> {
        self.inner.create_file(path, append)
    }
    fn remove_file(&self, path: &Path) -> Result<()> {
        if self.armed.load(Ordering::SeqCst)
            && thread::current().name() == Some("destroyer")
            && path.ends_with("LOCK")
        {
            // destroy_database holds the lock and has deleted everything but the LOCK file.
            self.events.signal("destroyer_holds_lock_and_is_almost_done");
            self.events.wait("open_was_refused");
        }
        self.inner.remove_file(path)
    }
    fn remove_dir(&self, path: &Path) -> Result<()> {
        self.inner.remove_dir(path)
    }
    fn remove_dir_all(&self, path: &Path) -> Result<()> {
        self.inner.remove_dir_all(path)
    }
    fn get_file_size(&self, path: &Path) -> Result<u64> {
        self.inner.get_file_size(path)
    }
    fn is_dir(&self, path: &Path) -> Result<bool> {
        self.inner.is_dir(path)
    }
    fn lock_file(&self, path: &Path) -> Result<FileLock> {
        self.inner.lock_file(path)
    }
}

#[test]
fn f2_refused_open_makes_the_lock_holder_fail() {
    let events = Arc::new(Events::default());
    let fs = Arc::new(GateFs {
        inner: TmpFileSystem::new(None),
        events: Arc::clone(&events),
        armed: AtomicBool::new(false),
    });
    let opts = {
        let fs = Arc::clone(&fs);
        move || DbOptions {
            db_path: "db".to_string(),
            filesystem_provider: Arc::clone(&fs) as Arc<dyn FileSystem>,
            create_if_missing: true,
            ..DbOptions::default()
        }
    };

    // An ordinary database with some content, closed again: nobody owns it.
    {
        let db = DB::open(opts()).unwrap();
        for i in 0..100u32 {
            db.put(
                WriteOptions::default(),
                format!("k{i:04}").into_bytes(),
                vec![b'x'; 100],
            )
            .unwrap();
        }
    }
    fs.armed.store(true, Ordering::SeqCst);

    let destroyer = {
        let opts = opts.clone();
        thread::Builder::new()
            .name("destroyer".into())
            .spawn(move || DB::destroy_database(opts()))
            .unwrap()
    };

    // While destroy_database holds the lock, try to open the database.
    events.wait("destroyer_holds_lock_and_is_almost_done");
    let open_result = DB::open(opts());
    let open_error = open_result
        .err()
        .expect("the open must be refused: destroy_database holds the lock")
        .to_string();
    println!("DB::open during destroy_database: Err({open_error})");
    events.signal("open_was_refused");

    let destroy_result = destroyer.join().unwrap();
    let root = fs.inner.get_root_path().join("db");
    let left_behind = std::fs::read_dir(&root)
        .map(|dir| dir.map(|e| e.unwrap().file_name()).collect::<Vec<_>>());
    println!(
        "destroy_database: {:?}; left behind in {root:?}: {left_behind:?}",
        destroy_result.as_ref().map_err(|e| e.to_string())
    );

    assert!(
        destroy_result.is_ok() && !root.exists(),
        "an open that was REFUSED (the lock was held by destroy_database) still changed the \
         directory: destroy_database returned {:?} and left {left_behind:?} behind",
        destroy_result.map_err(|e| e.to_string())
    );
}
