#![cfg(feature = "verif")]
use std::sync::{Arc, Condvar, Mutex};
use std::thread;
use raindb::fs::{FileSystem, TmpFileSystem};
use raindb::{DbOptions, ReadOptions, WriteOptions, DB};

struct H { st: Mutex<(bool, bool)>, cv: Condvar }
impl raindb::verif::Handler for H {
    fn pause(&self, point: &'static str, _args: &[u64]) {
        if point == "close.lock_released" && thread::current().name() == Some("closer") {
            let mut g = self.st.lock().unwrap();
            g.0 = true; self.cv.notify_all();
            while !g.1 { g = self.cv.wait(g).unwrap(); }
        }
    }
    fn note(&self, _p: &'static str, _a: &[u64]) {}
}
fn opts(fs: &Arc<dyn FileSystem>, reuse: bool) -> DbOptions {
    DbOptions { db_path: "db".into(), filesystem_provider: Arc::clone(fs), create_if_missing: true,
        max_memtable_size: 2048, reuse_log_files: reuse, ..DbOptions::default() }
}
#[test]
fn open_while_old_handle_is_past_lock_release() {
    for reuse in [false, true] {
        let fs: Arc<dyn FileSystem> = Arc::new(TmpFileSystem::new(None));
        let h = Arc::new(H { st: Mutex::new((false, false)), cv: Condvar::new() });
        raindb::verif::set_handler(Some(h.clone()));
        let db = DB::open(opts(&fs, reuse)).unwrap();
        for i in 0..300 { db.put(WriteOptions::default(), format!("a{i:04}").into_bytes(), vec![b'1'; 64]).unwrap(); }
        let closer = thread::Builder::new().name("closer".into()).spawn(move || drop(db)).unwrap();
        { let mut g = h.st.lock().unwrap(); while !g.0 { g = h.cv.wait(g).unwrap(); } }
        // old handle: lock released, WAL writer and worker thread still alive
        let db2 = DB::open(opts(&fs, reuse)).expect("open after lock release");
        for i in 0..300 { assert_eq!(db2.get(ReadOptions::default(), format!("a{i:04}").as_bytes()).unwrap(), vec![b'1'; 64]); }
        for i in 0..300 { db2.put(WriteOptions::default(), format!("b{i:04}").into_bytes(), vec![b'2'; 64]).unwrap(); }
        db2.compact_range(None..None);
        { let mut g = h.st.lock().unwrap(); g.1 = true; h.cv.notify_all(); }
        closer.join().unwrap();
        for i in 0..300 { db2.put(WriteOptions::default(), format!("c{i:04}").into_bytes(), vec![b'3'; 64]).unwrap(); }
        drop(db2);
        raindb::verif::set_handler(None);
        let db3 = DB::open(opts(&fs, reuse)).unwrap();
        for (p, v) in [("a", b'1'), ("b", b'2'), ("c", b'3')] {
            for i in 0..300 { assert_eq!(db3.get(ReadOptions::default(), format!("{p}{i:04}").as_bytes()).unwrap(), vec![v; 64]); }
        }
    }
}
