use std::sync::atomic::{AtomicUsize, AtomicBool, Ordering};
use std::sync::Arc;
use std::thread;
use raindb::fs::{FileSystem, TmpFileSystem};
use raindb::{DbOptions, ReadOptions, WriteOptions, DB, RainDbIterator};
use rand::{Rng, SeedableRng};

static OTHER_PANICS: AtomicUsize = AtomicUsize::new(0);
static WORKER_PANICS: AtomicUsize = AtomicUsize::new(0);

fn opts(fs: &Arc<dyn FileSystem>, path: &str, reuse: bool) -> DbOptions {
    DbOptions {
        db_path: path.to_string(),
        filesystem_provider: Arc::clone(fs),
        create_if_missing: true,
        max_memtable_size: 2048,
        reuse_log_files: reuse,
        ..DbOptions::default()
    }
}

fn hook() {
    std::panic::set_hook(Box::new(move |info| {
        if thread::current().name().map_or(false, |n| n.starts_with("raindb")) {
            WORKER_PANICS.fetch_add(1, Ordering::SeqCst);
        } else {
            OTHER_PANICS.fetch_add(1, Ordering::SeqCst);
            eprintln!("PANIC in thread {:?}: {}", thread::current().name(), info);
        }
    }));
}

fn run(with_destroy: bool, threads: usize, iters: usize, seed: u64) {
    let fs: Arc<dyn FileSystem> = Arc::new(TmpFileSystem::new(None));
    let owners = Arc::new(AtomicUsize::new(0));
    let successes = Arc::new(AtomicUsize::new(0));
    let refused = Arc::new(AtomicUsize::new(0));
    let destroyed = Arc::new(AtomicUsize::new(0));
    let bad = Arc::new(AtomicBool::new(false));
    let mut hs = vec![];
    for t in 0..threads {
        let fs = Arc::clone(&fs);
        let owners = Arc::clone(&owners);
        let successes = Arc::clone(&successes);
        let refused = Arc::clone(&refused);
        let destroyed = Arc::clone(&destroyed);
        let bad = Arc::clone(&bad);
        hs.push(thread::Builder::new().name(format!("t{t}")).spawn(move || {
            let mut rng = rand::rngs::StdRng::seed_from_u64(seed * 1000 + t as u64);
            for i in 0..iters {
                if with_destroy && rng.gen_range(0..4) == 0 {
                    match DB::destroy_database(opts(&fs, "db", true)) {
                        Ok(()) => { destroyed.fetch_add(1, Ordering::SeqCst); }
                        Err(_) => {}
                    }
                    continue;
                }
                let reuse = rng.gen_bool(0.5);
                match DB::open(opts(&fs, "db", reuse)) {
                    Err(_e) => { refused.fetch_add(1, Ordering::SeqCst); }
                    Ok(db) => {
                        let prev = owners.fetch_add(1, Ordering::SeqCst);
                        if prev != 0 { eprintln!("TWO OWNERS"); bad.store(true, Ordering::SeqCst); }
                        // counter
                        let cur = match db.get(ReadOptions::default(), b"ctr") {
                            Ok(v) => u64::from_le_bytes(v.try_into().unwrap()),
                            Err(_) => 0,
                        };
                        let s = successes.load(Ordering::SeqCst) as u64;
                        if !with_destroy && cur != s {
                            eprintln!("COUNTER MISMATCH: db {cur} expected {s}");
                            bad.store(true, Ordering::SeqCst);
                        }
                        let r = db.put(WriteOptions::default(), b"ctr".to_vec(), (cur + 1).to_le_bytes().to_vec());
                        if let Err(e) = &r { eprintln!("PUT ERR {e}"); bad.store(true, Ordering::SeqCst); }
                        let n = rng.gen_range(0..40);
                        for j in 0..n {
                            if let Err(e) = db.put(WriteOptions::default(), format!("k{t}-{i}-{j}").into_bytes(), vec![b'v'; 100]) {
                                eprintln!("PUT ERR {e}"); bad.store(true, Ordering::SeqCst); break;
                            }
                        }
                        if rng.gen_bool(0.3) { db.compact_range(None..None); }
                        if let Err(e) = db.put(WriteOptions::default(), b"z".to_vec(), b"z".to_vec()) {
                            eprintln!("PUT2 ERR {e}"); bad.store(true, Ordering::SeqCst);
                        }
                        successes.fetch_add(1, Ordering::SeqCst);
                        let keep_iter = rng.gen_bool(0.3);
                        if keep_iter {
                            let mut it = db.new_iterator(ReadOptions::default()).unwrap();
                            it.seek_to_first().unwrap();
                            drop(db);
                            // iterator outlives db: still owner
                            let mut c = 0;
                            while it.is_valid() { c += 1; if it.next().is_none() { break; } }
                            if let Some(e) = it.status() { eprintln!("ITER ERR {e} after {c}"); bad.store(true, Ordering::SeqCst); }
                            owners.fetch_sub(1, Ordering::SeqCst);
                            drop(it);
                        } else {
                            owners.fetch_sub(1, Ordering::SeqCst);
                            drop(db);
                        }
                    }
                }
            }
        }).unwrap());
    }
    for h in hs { h.join().unwrap(); }
    eprintln!("destroy={with_destroy} seed={seed} successes={} refused={} destroyed={}", successes.load(Ordering::SeqCst), refused.load(Ordering::SeqCst), destroyed.load(Ordering::SeqCst));
    assert!(!bad.load(Ordering::SeqCst));
    // final open must work
    let db = DB::open(opts(&fs, "db", true)).expect("final open");
    if !with_destroy {
        let v = db.get(ReadOptions::default(), b"ctr").unwrap();
        assert_eq!(u64::from_le_bytes(v.try_into().unwrap()), successes.load(Ordering::SeqCst) as u64);
    }
}

#[test]
fn stress_open_close() {
    hook();
    for seed in 0..10 { run(false, 6, 60, seed); }
    assert_eq!(OTHER_PANICS.load(Ordering::SeqCst), 0);
    eprintln!("worker panics {}", WORKER_PANICS.load(Ordering::SeqCst));
}

#[test]
fn stress_open_close_destroy() {
    hook();
    for seed in 0..10 { run(true, 6, 60, seed); }
    assert_eq!(OTHER_PANICS.load(Ordering::SeqCst), 0);
}
