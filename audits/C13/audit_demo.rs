//! Audit of the property "Table files give back exactly what was put in".
//!
//! Run with: cargo test --offline --features verif --test audit_demo
#![cfg(feature = "verif")]

use raindb::verif::table::{self, Cursor, Entry, Lookup, Reader};
use raindb::{DbOptions, Operation};

// ---------------------------------------------------------------------------------------------
// A small deterministic generator
// ---------------------------------------------------------------------------------------------

struct Rng(u64);

impl Rng {
    fn next(&mut self) -> u64 {
        // splitmix64
        self.0 = self.0.wrapping_add(0x9e3779b97f4a7c15);
        let mut z = self.0;
        z = (z ^ (z >> 30)).wrapping_mul(0xbf58476d1ce4e5b9);
        z = (z ^ (z >> 27)).wrapping_mul(0x94d049bb133111eb);
        z ^ (z >> 31)
    }

    fn below(&mut self, n: u64) -> u64 {
        self.next() % n
    }

    fn pick<'a, T>(&mut self, items: &'a [T]) -> &'a T {
        &items[self.below(items.len() as u64) as usize]
    }
}

// ---------------------------------------------------------------------------------------------
// The model
// ---------------------------------------------------------------------------------------------

/// Internal key order: user key ascending, then sequence number descending.
fn sort_entries(entries: &mut Vec<Entry>) {
    entries.sort_by(|a, b| a.0.cmp(&b.0).then(b.1.cmp(&a.1)));
    entries.dedup_by(|a, b| a.0 == b.0 && a.1 == b.1);
}

/// Index of the first entry that is not less than `(user_key, sequence)`.
fn lower_bound(entries: &[Entry], user_key: &[u8], sequence: u64) -> usize {
    entries.partition_point(|entry| {
        entry.0.as_slice() < user_key || (entry.0.as_slice() == user_key && entry.1 > sequence)
    })
}

fn model_get(entries: &[Entry], user_key: &[u8], sequence: u64) -> Lookup {
    let idx = lower_bound(entries, user_key, sequence);
    match entries.get(idx) {
        Some(entry) if entry.0.as_slice() == user_key => match entry.2 {
            Operation::Put => Lookup::Value(entry.3.clone()),
            Operation::Delete => Lookup::Deleted,
        },
        _ => Lookup::NotInFile,
    }
}

fn show_key(key: &[u8]) -> String {
    if key.len() > 24 {
        format!("{:02x?}..(len {})", &key[..24], key.len())
    } else {
        format!("{:02x?}", key)
    }
}

fn show(entry: Option<&Entry>) -> String {
    match entry {
        None => "<invalid>".to_string(),
        Some(entry) => format!(
            "({} @ {} {:?}, value of {} bytes)",
            show_key(&entry.0),
            entry.1,
            entry.2,
            entry.3.len()
        ),
    }
}

fn cursor_entry(cursor: &Cursor) -> Option<Entry> {
    cursor
        .current()
        .map(|(key, value)| (key.user_key, key.sequence, key.operation, value))
}

fn returned_entry(returned: Option<(raindb::verif::KeyInfo, Vec<u8>)>) -> Option<Entry> {
    returned.map(|(key, value)| (key.user_key, key.sequence, key.operation, value))
}

/// Check that the cursor is at model position `position` (`None` = invalid).
fn check_position(
    what: &str,
    cursor: &Cursor,
    entries: &[Entry],
    position: Option<usize>,
) -> Result<(), String> {
    let expected = position.map(|idx| entries[idx].clone());
    let actual = cursor_entry(cursor);
    if cursor.is_valid() != expected.is_some() || actual != expected {
        return Err(format!(
            "{what}: the cursor is at {} (is_valid = {}) but the property requires {} (entry #{:?} \
             of {})",
            show(actual.as_ref()),
            cursor.is_valid(),
            show(expected.as_ref()),
            position,
            entries.len()
        ));
    }

    Ok(())
}

/// Interesting probes (user key, sequence) for a table.
fn probes(entries: &[Entry], rng: &mut Rng, max_probes: usize) -> Vec<(Vec<u8>, u64)> {
    let mut probes: Vec<(Vec<u8>, u64)> = vec![];
    let consider = |idx: usize, probes: &mut Vec<(Vec<u8>, u64)>| {
        let (user_key, sequence, _, _) = &entries[idx];
        probes.push((user_key.clone(), *sequence));
        probes.push((user_key.clone(), sequence.wrapping_add(1)));
        probes.push((user_key.clone(), sequence.saturating_sub(1)));
        probes.push((user_key.clone(), 0));
        probes.push((user_key.clone(), u64::MAX >> 8));
        // A key right after the user key
        let mut after = user_key.clone();
        after.push(0);
        probes.push((after, *sequence));
        // A key right before the user key
        if let Some(last) = user_key.last() {
            let mut before = user_key.clone();
            if *last == 0 {
                before.pop();
            } else {
                *before.last_mut().unwrap() -= 1;
                before.push(0xff);
            }
            probes.push((before, *sequence));
        }
        // A prefix of the user key
        if user_key.len() > 1 {
            probes.push((user_key[..user_key.len() / 2].to_vec(), *sequence));
        }
    };

    if entries.len() * 8 <= max_probes {
        for idx in 0..entries.len() {
            consider(idx, &mut probes);
        }
    } else {
        for _ in 0..(max_probes / 8) {
            let idx = rng.below(entries.len() as u64) as usize;
            consider(idx, &mut probes);
        }
        consider(0, &mut probes);
        consider(entries.len() - 1, &mut probes);
    }
    probes.push((vec![], 0));
    probes.push((vec![], u64::MAX >> 8));
    probes.push((vec![0xff; 40], 5));

    probes
}

/// Build a table from `entries` and compare everything the property talks about with the model.
fn check_table(
    label: &str,
    options: &DbOptions,
    file_number: u64,
    entries: &[Entry],
    rng: &mut Rng,
    max_probes: usize,
) -> Result<(), String> {
    let ctx = format!(
        "[{label}, max_block_size = {}, {} entries]",
        options.max_block_size,
        entries.len()
    );
    table::build(options, file_number, entries).map_err(|err| format!("{ctx} build: {err}"))?;
    let reader: Reader =
        table::open(options, file_number).map_err(|err| format!("{ctx} open: {err}"))?;

    for fill_cache in [false, true] {
        // Forward
        let mut cursor = reader.cursor(fill_cache);
        cursor
            .seek_to_first()
            .map_err(|err| format!("{ctx} seek_to_first: {err}"))?;
        for idx in 0..entries.len() {
            check_position(&format!("{ctx} forward scan"), &cursor, entries, Some(idx))?;
            let returned = returned_entry(cursor.next());
            let expected = entries.get(idx + 1).cloned();
            if returned != expected {
                return Err(format!(
                    "{ctx} forward scan: next() from entry #{idx} returned {} but the property \
                     requires {}",
                    show(returned.as_ref()),
                    show(expected.as_ref())
                ));
            }
        }
        check_position(&format!("{ctx} forward scan end"), &cursor, entries, None)?;

        // Backward
        let mut cursor = reader.cursor(fill_cache);
        cursor
            .seek_to_last()
            .map_err(|err| format!("{ctx} seek_to_last: {err}"))?;
        for idx in (0..entries.len()).rev() {
            check_position(&format!("{ctx} backward scan"), &cursor, entries, Some(idx))?;
            let returned = returned_entry(cursor.prev());
            let expected = if idx == 0 {
                None
            } else {
                Some(entries[idx - 1].clone())
            };
            if returned != expected {
                return Err(format!(
                    "{ctx} backward scan: prev() from entry #{idx} returned {} but the property \
                     requires {}",
                    show(returned.as_ref()),
                    show(expected.as_ref())
                ));
            }
        }
        check_position(&format!("{ctx} backward scan end"), &cursor, entries, None)?;
    }

    // Seeks and point lookups
    let probes = probes(entries, rng, max_probes);
    let mut cursor = reader.cursor(true);
    for (nth, (user_key, sequence)) in probes.iter().enumerate() {
        let fill_cache = nth % 2 == 0;
        let expected_idx = lower_bound(entries, user_key, *sequence);
        let expected_position = if expected_idx < entries.len() {
            Some(expected_idx)
        } else {
            None
        };
        // Alternate between a reused cursor (which remembers its data block) and a fresh one
        if nth % 3 == 0 {
            cursor = reader.cursor(fill_cache);
        }
        cursor
            .seek(user_key, *sequence)
            .map_err(|err| format!("{ctx} seek: {err}"))?;
        check_position(
            &format!("{ctx} seek({} @ {})", show_key(user_key), sequence),
            &cursor,
            entries,
            expected_position,
        )?;

        // Step around the seek position
        if let Some(idx) = expected_position {
            match nth % 4 {
                0 => {
                    cursor.prev();
                    let expected = if idx == 0 { None } else { Some(idx - 1) };
                    check_position(
                        &format!("{ctx} seek({} @ {}); prev", show_key(user_key), sequence),
                        &cursor,
                        entries,
                        expected,
                    )?;
                    if expected.is_some() {
                        cursor.next();
                        check_position(
                            &format!(
                                "{ctx} seek({} @ {}); prev; next",
                                show_key(user_key),
                                sequence
                            ),
                            &cursor,
                            entries,
                            Some(idx),
                        )?;
                    }
                }
                1 => {
                    cursor.next();
                    let expected = if idx + 1 < entries.len() {
                        Some(idx + 1)
                    } else {
                        None
                    };
                    check_position(
                        &format!("{ctx} seek({} @ {}); next", show_key(user_key), sequence),
                        &cursor,
                        entries,
                        expected,
                    )?;
                    if expected.is_some() {
                        cursor.prev();
                        check_position(
                            &format!(
                                "{ctx} seek({} @ {}); next; prev",
                                show_key(user_key),
                                sequence
                            ),
                            &cursor,
                            entries,
                            Some(idx),
                        )?;
                    }
                }
                _ => {}
            }
        }

        let expected = model_get(entries, user_key, *sequence);
        let actual = reader.get(user_key, *sequence, fill_cache);
        if actual != expected {
            return Err(format!(
                "{ctx} get({} @ {}) answered {:?} but the property requires {:?}",
                show_key(user_key),
                sequence,
                abbreviate(&actual),
                abbreviate(&expected)
            ));
        }
    }

    // A random walk
    let mut cursor = reader.cursor(true);
    let mut position: Option<usize> = None;
    for step in 0..(max_probes.min(4 * entries.len() + 16)) {
        let what;
        match rng.below(10) {
            0 => {
                what = "seek_to_first".to_string();
                cursor.seek_to_first().map_err(|err| format!("{ctx} {err}"))?;
                position = if entries.is_empty() { None } else { Some(0) };
            }
            1 => {
                what = "seek_to_last".to_string();
                cursor.seek_to_last().map_err(|err| format!("{ctx} {err}"))?;
                position = entries.len().checked_sub(1);
            }
            2 | 3 => {
                let (user_key, sequence) = rng.pick(&probes).clone();
                what = format!("seek({} @ {})", show_key(&user_key), sequence);
                cursor
                    .seek(&user_key, sequence)
                    .map_err(|err| format!("{ctx} {err}"))?;
                let idx = lower_bound(entries, &user_key, sequence);
                position = if idx < entries.len() { Some(idx) } else { None };
            }
            4..=6 => {
                what = "next".to_string();
                cursor.next();
                position = match position {
                    Some(idx) if idx + 1 < entries.len() => Some(idx + 1),
                    _ => None,
                };
            }
            _ => {
                what = "prev".to_string();
                cursor.prev();
                position = match position {
                    Some(idx) if idx > 0 => Some(idx - 1),
                    _ => None,
                };
            }
        }
        check_position(
            &format!("{ctx} random walk step {step} ({what})"),
            &cursor,
            entries,
            position,
        )?;
    }

    Ok(())
}

fn abbreviate(lookup: &Lookup) -> String {
    match lookup {
        Lookup::Value(value) if value.len() > 16 => {
            format!("Value({:02x?}.. {} bytes)", &value[..16], value.len())
        }
        other => format!("{:?}", other),
    }
}

// ---------------------------------------------------------------------------------------------
// Entry set generators
// ---------------------------------------------------------------------------------------------

fn random_value(rng: &mut Rng, max_block_size: usize) -> Vec<u8> {
    let len = match rng.below(20) {
        0..=3 => 0,
        4..=12 => rng.below(24) as usize,
        13..=16 => rng.below(300) as usize,
        17 | 18 => rng.below(3000) as usize,
        // multi-block
        _ => (max_block_size.min(8192) * (2 + rng.below(3) as usize)) + rng.below(7) as usize,
    };
    let compressible = rng.below(2) == 0;
    let seed = rng.next();
    let mut filler = Rng(seed);
    (0..len)
        .map(|idx| {
            if compressible {
                (seed as u8).wrapping_add((idx / 64) as u8)
            } else {
                filler.next() as u8
            }
        })
        .collect()
}

fn random_user_key(rng: &mut Rng, shape: u64) -> Vec<u8> {
    match shape {
        // Short keys over a tiny alphabet: lots of shared prefixes, prefixes of each other, the
        // empty key and one-byte keys
        0 => {
            let len = rng.below(5) as usize;
            (0..len).map(|_| *rng.pick(&[0u8, 1, 0x61, 0xfe, 0xff])).collect()
        }
        // Runs of 0xff
        1 => {
            let len = rng.below(12) as usize;
            let mut key = vec![0xff; len];
            if rng.below(3) == 0 {
                key.push(rng.below(256) as u8);
            }
            key
        }
        // A long shared prefix with a short distinct tail
        2 => {
            let mut key = b"common/prefix/that/is/quite/long/".to_vec();
            key.extend_from_slice(format!("{:05}", rng.below(3000)).as_bytes());
            key
        }
        // Random bytes
        3 => {
            let len = 1 + rng.below(20) as usize;
            (0..len).map(|_| rng.below(256) as u8).collect()
        }
        // Decimal numbers
        4 => format!("{}", rng.below(100_000)).into_bytes(),
        // Long keys
        _ => {
            let len = 100 + rng.below(900) as usize;
            let byte = *rng.pick(&[0u8, 0x41, 0xff]);
            let mut key = vec![byte; len];
            key.push(rng.below(4) as u8);
            key
        }
    }
}

fn random_entries(rng: &mut Rng, max_block_size: usize) -> Vec<Entry> {
    let num_keys = match rng.below(6) {
        0 => 1,
        1 => 1 + rng.below(4),
        2 | 3 => 1 + rng.below(60),
        _ => 1 + rng.below(400),
    };
    let shape_mix = rng.below(8);
    let mut next_sequence: u64 = 1 + rng.below(1000);
    let mut entries: Vec<Entry> = vec![];
    for _ in 0..num_keys {
        let shape = if shape_mix >= 6 { rng.below(6) } else { shape_mix };
        let user_key = random_user_key(rng, shape);
        let versions = match rng.below(10) {
            0..=5 => 1,
            6 | 7 => 1 + rng.below(4),
            8 => 1 + rng.below(40),
            _ => 1 + rng.below(300),
        };
        for _ in 0..versions {
            next_sequence += 1 + rng.below(3);
            let operation = if rng.below(4) == 0 {
                Operation::Delete
            } else {
                Operation::Put
            };
            let value = if operation == Operation::Delete {
                vec![]
            } else if versions > 50 {
                // keep the file small
                vec![rng.next() as u8; rng.below(12) as usize]
            } else {
                random_value(rng, max_block_size)
            };
            entries.push((user_key.clone(), next_sequence, operation, value));
        }
    }
    sort_entries(&mut entries);

    entries
}

fn options_with_block_size(max_block_size: usize) -> DbOptions {
    let mut options = DbOptions::with_memory_env();
    options.max_block_size = max_block_size;
    options
}

const BLOCK_SIZES: &[usize] = &[
    1, 8, 9, 10, 24, 64, 100, 256, 512, 1000, 2047, 2048, 2049, 4096, 65536, 1 << 22,
    usize::MAX,
];

// ---------------------------------------------------------------------------------------------
// Tests
// ---------------------------------------------------------------------------------------------

/// Attack 1: random entry sets of all the shapes in the scope against all block sizes.
#[test]
fn random_entry_sets_round_trip() {
    let mut failures: Vec<String> = vec![];
    let mut file_number = 1;
    for seed in 0..220u64 {
        let mut rng = Rng(seed.wrapping_mul(0x51ed27) ^ 0xabcdef);
        let max_block_size = *rng.pick(BLOCK_SIZES);
        let options = options_with_block_size(max_block_size);
        let entries = random_entries(&mut rng, max_block_size);
        file_number += 1;
        if let Err(failure) = check_table(
            &format!("seed {seed}"),
            &options,
            file_number,
            &entries,
            &mut rng,
            1600,
        ) {
            failures.push(failure);
            if failures.len() >= 5 {
                break;
            }
        }
    }

    assert!(failures.is_empty(), "{}", failures.join("\n"));
}

/// Attack 2: one entry set, every block size from 1 to 700 and a few large ones.
#[test]
fn one_entry_set_against_every_block_size() {
    let mut rng = Rng(77);
    let mut entries: Vec<Entry> = vec![];
    let mut sequence = 10;
    // empty key, one-byte keys, 0xff keys, shared prefixes, many versions
    let user_keys: Vec<Vec<u8>> = vec![
        vec![],
        vec![0],
        vec![0, 0],
        b"a".to_vec(),
        b"ab".to_vec(),
        b"abc".to_vec(),
        b"abd".to_vec(),
        b"b".to_vec(),
        b"prefix/0001".to_vec(),
        b"prefix/0002".to_vec(),
        b"prefix/0002/x".to_vec(),
        vec![0xfe],
        vec![0xfe, 0xff],
        vec![0xff],
        vec![0xff, 0xff],
        vec![0xff, 0xff, 0xff],
    ];
    for (nth, user_key) in user_keys.iter().enumerate() {
        let versions = if nth % 5 == 2 { 37 } else { 1 + nth % 3 };
        for version in 0..versions {
            sequence += 1;
            let operation = if (nth + version) % 4 == 3 {
                Operation::Delete
            } else {
                Operation::Put
            };
            let value = match (nth + version) % 5 {
                0 => vec![],
                1 => vec![7u8; 3],
                2 => format!("value-{nth}-{version}").into_bytes(),
                3 => vec![nth as u8; 150],
                _ => (0..90).map(|_| rng.next() as u8).collect(),
            };
            let value = if operation == Operation::Delete { vec![] } else { value };
            entries.push((user_key.clone(), sequence, operation, value));
        }
    }
    sort_entries(&mut entries);

    let mut failures: Vec<String> = vec![];
    let sizes: Vec<usize> = (1..700).chain([1024, 4096, 1 << 20, usize::MAX]).collect();
    for (nth, max_block_size) in sizes.into_iter().enumerate() {
        let options = options_with_block_size(max_block_size);
        if let Err(failure) = check_table(
            "fixed entry set",
            &options,
            nth as u64 + 1,
            &entries,
            &mut rng,
            400,
        ) {
            failures.push(failure);
            if failures.len() >= 5 {
                break;
            }
        }
    }

    assert!(failures.is_empty(), "{}", failures.join("\n"));
}

/// Attack 3: the same harness over real files (TmpFileSystem) instead of the in-memory one.
#[test]
fn random_entry_sets_round_trip_on_real_files() {
    use raindb::fs::{FileSystem, TmpFileSystem};
    use std::sync::Arc;

    let fs: Arc<dyn FileSystem> = Arc::new(TmpFileSystem::new(None));
    let mut failures: Vec<String> = vec![];
    for seed in 1000..1040u64 {
        let mut rng = Rng(seed.wrapping_mul(0x51ed27) ^ 0xabcdef);
        let max_block_size = *rng.pick(BLOCK_SIZES);
        let mut options = DbOptions::default();
        options.filesystem_provider = Arc::clone(&fs);
        options.db_path = "db".to_string();
        options.max_block_size = max_block_size;
        fs.create_dir_all(std::path::Path::new("db/data")).unwrap();
        let entries = random_entries(&mut rng, max_block_size);
        if let Err(failure) = check_table(
            &format!("tmpfs seed {seed}"),
            &options,
            seed,
            &entries,
            &mut rng,
            800,
        ) {
            failures.push(failure);
        }
    }

    assert!(failures.is_empty(), "{}", failures.join("\n"));
}

/// Attack 4: values from empty up to several MiB (far beyond one block and beyond the 64 KiB
/// chunks of the snappy frame format), compressible and incompressible.
#[test]
fn huge_values_round_trip() {
    let mut failures: Vec<String> = vec![];
    let mut rng = Rng(4242);
    let lengths: &[usize] = &[
        0,
        1,
        65_535,
        65_536,
        65_537,
        131_072,
        1 << 20,
        (3 << 20) + 17,
        5,
        0,
    ];
    for (nth, max_block_size) in [64usize, 4096, 1 << 16, usize::MAX].into_iter().enumerate() {
        for compressible in [false, true] {
            let mut entries: Vec<Entry> = vec![];
            for (idx, length) in lengths.iter().enumerate() {
                let value: Vec<u8> = if compressible {
                    vec![idx as u8; *length]
                } else {
                    (0..*length).map(|_| rng.next() as u8).collect()
                };
                // two versions of every key so that a huge value sits between versions
                entries.push((
                    format!("key{:03}", idx / 2).into_bytes(),
                    100 + idx as u64,
                    Operation::Put,
                    value,
                ));
            }
            sort_entries(&mut entries);
            let options = options_with_block_size(max_block_size);
            if let Err(failure) = check_table(
                &format!("huge values, compressible = {compressible}"),
                &options,
                (nth * 2 + compressible as usize) as u64 + 1,
                &entries,
                &mut rng,
                200,
            ) {
                failures.push(failure);
            }
        }
    }

    assert!(failures.is_empty(), "{}", failures.join("\n"));
}

/// Attack 5: sequence numbers at the ends of the range (0 and u64::MAX) next to index separators,
/// which are built with the maximal sequence number.
#[test]
fn extreme_sequence_numbers_round_trip() {
    let mut failures: Vec<String> = vec![];
    let mut rng = Rng(99);
    let user_keys: Vec<Vec<u8>> = vec![
        b"abcxxxx".to_vec(),
        b"abd".to_vec(),
        b"abe".to_vec(),
        b"abexxxxxxxx".to_vec(),
        b"b".to_vec(),
        b"c".to_vec(),
        b"cxxxxxxxxxxxx".to_vec(),
        b"e".to_vec(),
        vec![0xff, 0xff, 0xff, 0xff],
    ];
    let mut entries: Vec<Entry> = vec![];
    for user_key in &user_keys {
        for sequence in [u64::MAX, u64::MAX - 1, 1 << 56, 7, 1, 0] {
            entries.push((
                user_key.clone(),
                sequence,
                if sequence % 3 == 1 {
                    Operation::Delete
                } else {
                    Operation::Put
                },
                format!("{}", sequence).into_bytes(),
            ));
        }
    }
    sort_entries(&mut entries);
    for max_block_size in 1..200usize {
        let options = options_with_block_size(max_block_size);
        let mut result = check_table(
            "extreme sequence numbers",
            &options,
            max_block_size as u64,
            &entries,
            &mut rng,
            600,
        );
        if result.is_ok() {
            // explicit probes with the maximal bound
            let reader = table::open(&options, max_block_size as u64).unwrap();
            for user_key in user_keys.iter().chain(
                [b"abd0".to_vec(), b"abf".to_vec(), b"d".to_vec(), b"ac".to_vec()].iter(),
            ) {
                for bound in [u64::MAX, u64::MAX - 1, 0] {
                    let expected = model_get(&entries, user_key, bound);
                    let actual = reader.get(user_key, bound, true);
                    if expected != actual {
                        result = Err(format!(
                            "[extreme sequence numbers, max_block_size = {max_block_size}] \
                             get({} @ {bound}) answered {:?} but the property requires {:?}",
                            show_key(user_key),
                            actual,
                            expected
                        ));
                    }
                }
            }
        }
        if let Err(failure) = result {
            failures.push(failure);
            if failures.len() >= 5 {
                break;
            }
        }
    }

    assert!(failures.is_empty(), "{}", failures.join("\n"));
}

/// Attack 6: several tables that share one `DbOptions` (and so one block cache), read
/// interleaved, and a file number that is rebuilt with different contents and opened again.
#[test]
fn tables_sharing_a_block_cache_do_not_mix_their_blocks() {
    let mut rng = Rng(31337);
    let options = options_with_block_size(128);
    let mut tables: Vec<(Vec<Entry>, Reader)> = vec![];
    for file_number in 1..=6u64 {
        let mut entries = random_entries(&mut rng, 128);
        entries.truncate(300);
        table::build(&options, file_number, &entries).unwrap();
        let reader = table::open(&options, file_number).unwrap();
        tables.push((entries, reader));
    }
    // Rebuild file 3 with other contents; the old reader is dropped and a new one is opened
    let mut entries = random_entries(&mut rng, 128);
    entries.truncate(300);
    table::build(&options, 3, &entries).unwrap();
    tables[2] = (entries, table::open(&options, 3).unwrap());

    let mut cursors: Vec<(Cursor, Option<usize>)> = tables
        .iter()
        .map(|(_, reader)| (reader.cursor(true), None))
        .collect();
    for step in 0..20_000 {
        let which = rng.below(tables.len() as u64) as usize;
        let (entries, reader) = &tables[which];
        let (cursor, position) = &mut cursors[which];
        match rng.below(4) {
            0 => {
                let (user_key, sequence, _, _) = rng.pick(entries).clone();
                let bound = sequence + rng.below(3);
                let expected = model_get(entries, &user_key, bound);
                let actual = reader.get(&user_key, bound, rng.below(2) == 0);
                assert_eq!(
                    actual, expected,
                    "step {step}, table {which}: get({} @ {bound}) answered something else than \
                     the property requires",
                    show_key(&user_key)
                );
            }
            1 => {
                let (user_key, sequence, _, _) = rng.pick(entries).clone();
                cursor.seek(&user_key, sequence).unwrap();
                *position = Some(lower_bound(entries, &user_key, sequence));
            }
            2 => {
                cursor.next();
                *position = match *position {
                    Some(idx) if idx + 1 < entries.len() => Some(idx + 1),
                    _ => None,
                };
            }
            _ => {
                cursor.prev();
                *position = match *position {
                    Some(idx) if idx > 0 => Some(idx - 1),
                    _ => None,
                };
            }
        }
        if let Err(failure) = check_position(
            &format!("step {step}, table {which}"),
            cursor,
            entries,
            *position,
        ) {
            panic!("{failure}");
        }
    }
}

/// Attack 7: the empty run. (Not produced by the database itself: `build_table_from_iterator`
/// and the compaction only create a table once they hold an entry.)
#[test]
fn empty_run_round_trip() {
    let options = options_with_block_size(64);
    table::build(&options, 1, &[]).unwrap();
    let reader = match table::open(&options, 1) {
        Ok(reader) => reader,
        Err(error) => panic!(
            "a table built from the empty run must open and yield no entries, but opening it \
             failed with: {error}"
        ),
    };
    assert_eq!(reader.get(b"a", 5, true), Lookup::NotInFile);
    let mut cursor = reader.cursor(true);
    cursor.seek_to_first().unwrap();
    assert!(!cursor.is_valid(), "seek_to_first on an empty table must be invalid");
    cursor.seek(b"a", 5).unwrap();
    assert!(!cursor.is_valid(), "seek on an empty table must be invalid");
    assert!(cursor.next().is_none());
    assert!(cursor.prev().is_none());
    cursor.seek_to_last().unwrap();
    assert!(!cursor.is_valid(), "seek_to_last on an empty table must be invalid");
}

// ---------------------------------------------------------------------------------------------
// Attack 8: a table file read with another filter policy than the one it was written with
// ---------------------------------------------------------------------------------------------

/// A correct filter policy that is not a Bloom filter: the filter is a format byte followed by the
/// sorted list of the 32-bit FNV-1a hashes of the keys. It never reports a key of its own filters
/// as absent.
#[derive(Debug)]
struct HashListPolicy {
    name: &'static str,
}

impl HashListPolicy {
    fn hash(key: &[u8]) -> u32 {
        let mut hash: u32 = 0x811c9dc5;
        for byte in key {
            hash ^= *byte as u32;
            hash = hash.wrapping_mul(0x01000193);
        }
        hash
    }
}

impl raindb::FilterPolicy for HashListPolicy {
    fn get_name(&self) -> String {
        self.name.to_string()
    }

    fn create_filter(&self, keys: &[Vec<u8>]) -> Vec<u8> {
        let mut hashes: Vec<u32> = keys.iter().map(|key| Self::hash(key)).collect();
        hashes.sort_unstable();
        hashes.dedup();
        let mut filter = vec![0x1e];
        filter.extend(hashes.iter().flat_map(|hash| hash.to_be_bytes()));
        filter
    }

    fn key_may_match(
        &self,
        key: &[u8],
        serialized_filter: &[u8],
    ) -> Result<bool, raindb::filter_policy::FilterPolicyError> {
        let wanted = Self::hash(key).to_be_bytes();
        Ok(serialized_filter[1.min(serialized_filter.len())..]
            .chunks_exact(4)
            .any(|chunk| chunk == wanted.as_slice()))
    }
}

fn filter_policy_entries() -> Vec<Entry> {
    let mut entries: Vec<Entry> = vec![];
    for idx in 0..200u64 {
        entries.push((
            format!("key{idx:04}").into_bytes(),
            1000 + idx,
            Operation::Put,
            format!("value{idx}").into_bytes(),
        ));
    }
    sort_entries(&mut entries);
    entries
}

/// Point lookups (and scans, as a control) of `entries` in the table `file_number`.
fn lookups_find_everything(
    ctx: &str,
    options: &DbOptions,
    file_number: u64,
    entries: &[Entry],
) -> Result<(), String> {
    let reader = table::open(options, file_number).map_err(|err| format!("{ctx} open: {err}"))?;
    // Control: the iterator does not use the filter
    let mut cursor = reader.cursor(true);
    cursor.seek_to_first().unwrap();
    for idx in 0..entries.len() {
        check_position(&format!("{ctx} scan"), &cursor, entries, Some(idx))?;
        cursor.next();
    }
    let mut wrong: Vec<String> = vec![];
    for (user_key, sequence, _, _) in entries {
        let expected = model_get(entries, user_key, *sequence);
        let actual = reader.get(user_key, *sequence, true);
        if actual != expected {
            wrong.push(format!(
                "get({:?} @ {sequence}) answered {actual:?} but the property requires {expected:?}",
                String::from_utf8_lossy(user_key)
            ));
        }
    }
    if wrong.is_empty() {
        Ok(())
    } else {
        Err(format!(
            "{ctx}: {} of {} point lookups of entries that ARE in the file were answered wrongly, \
             e.g. {}",
            wrong.len(),
            entries.len(),
            wrong[0]
        ))
    }
}

/// Control: a table written and read with the same (custom) policy works.
#[test]
fn filter_policy_control_same_policy_for_writing_and_reading() {
    use std::sync::Arc;
    let entries = filter_policy_entries();
    let mut options = options_with_block_size(256);
    options.filter_policy = Arc::new(HashListPolicy { name: "Audit.HashList" });
    table::build(&options, 1, &entries).unwrap();
    lookups_find_everything("[HashList written, HashList read]", &options, 1, &entries).unwrap();
}

/// Control: the name of the reading policy sorts AFTER the one in the file: the filter of the
/// file is ignored and every lookup is answered from the data blocks.
#[test]
fn filter_policy_changed_to_a_name_that_sorts_after_the_one_in_the_file() {
    use std::sync::Arc;
    let entries = filter_policy_entries();
    let write_options = options_with_block_size(256); // RainDB.BloomFilter
    table::build(&write_options, 1, &entries).unwrap();
    let mut read_options = write_options.clone();
    read_options.filter_policy = Arc::new(HashListPolicy { name: "Zeta.HashList" });
    lookups_find_everything("[Bloom written, Zeta.HashList read]", &read_options, 1, &entries)
        .unwrap();
}

/// The defect: the name of the reading policy sorts BEFORE the one recorded in the file. The
/// metaindex lookup is a seek without an equality check, so the foreign filter is handed to the
/// reading policy, which rightly finds none of its hashes in it, and `Table::get` answers 'not in
/// this file' for entries that are in the file.
#[test]
fn filter_policy_changed_to_a_name_that_sorts_before_the_one_in_the_file() {
    use std::sync::Arc;
    let entries = filter_policy_entries();
    let write_options = options_with_block_size(256); // RainDB.BloomFilter
    table::build(&write_options, 1, &entries).unwrap();
    let mut read_options = write_options.clone();
    read_options.filter_policy = Arc::new(HashListPolicy { name: "Audit.HashList" });
    if let Err(failure) = lookups_find_everything(
        "[written with RainDB.BloomFilter, read with Audit.HashList]",
        &read_options,
        1,
        &entries,
    ) {
        panic!("{failure}");
    }
}

/// The same in the other direction: written with a custom policy, read with the default Bloom
/// policy ("RainDB.BloomFilter" sorts before "Zeta.HashList").
#[test]
fn filter_policy_changed_back_to_bloom() {
    use std::sync::Arc;
    let entries = filter_policy_entries();
    let mut write_options = options_with_block_size(256);
    write_options.filter_policy = Arc::new(HashListPolicy { name: "Zeta.HashList" });
    table::build(&write_options, 1, &entries).unwrap();
    let mut read_options = write_options.clone();
    read_options.filter_policy = Arc::new(raindb::BloomFilterPolicy::new(10));
    if let Err(failure) = lookups_find_everything(
        "[written with Zeta.HashList, read with RainDB.BloomFilter]",
        &read_options,
        1,
        &entries,
    ) {
        panic!("{failure}");
    }
}

/// What it means for the callers: a database whose filter policy is changed between two runs
/// (which the documentation of `FilterPolicy::get_name` presents as safe as long as the name
/// changes) does not find the keys of the table files written before the change.
#[test]
fn database_reopened_with_another_filter_policy_still_finds_its_keys() {
    use raindb::{ReadOptions, WriteOptions, DB};
    use std::sync::Arc;

    let mut options = DbOptions::with_memory_env();
    options.db_path = "audit_filter_db".to_string();
    options.create_if_missing = true;
    options.max_block_size = 256;
    {
        let db = DB::open(options.clone()).unwrap();
        for idx in 0..200u64 {
            db.put(
                WriteOptions::default(),
                format!("key{idx:04}").into_bytes(),
                format!("value{idx}").into_bytes(),
            )
            .unwrap();
        }
        // Move everything to table files
        db.compact_range(None..None);
        for idx in 0..200u64 {
            let value = db
                .get(ReadOptions::default(), format!("key{idx:04}").as_bytes())
                .unwrap();
            assert_eq!(value, format!("value{idx}").into_bytes());
        }
    }

    let mut options = options.clone();
    options.create_if_missing = false;
    options.filter_policy = Arc::new(HashListPolicy { name: "Audit.HashList" });
    let db = DB::open(options).unwrap();
    let mut missing: Vec<String> = vec![];
    for idx in 0..200u64 {
        let key = format!("key{idx:04}");
        match db.get(ReadOptions::default(), key.as_bytes()) {
            Ok(value) if value == format!("value{idx}").into_bytes() => {}
            other => missing.push(format!("get({key}) = {other:?}")),
        }
    }
    assert!(
        missing.is_empty(),
        "after reopening with the filter policy Audit.HashList, {} of 200 keys stored in table \
         files written with RainDB.BloomFilter are not found any more (the lookups must answer \
         with the stored values), e.g. {}",
        missing.len(),
        missing[0]
    );
}


/// Attack 9: Bloom filters of all sizes (0 to 200 bits per key) must never hide an entry.
#[test]
fn bloom_filters_of_all_sizes_have_no_false_negatives() {
    use std::sync::Arc;
    let mut failures: Vec<String> = vec![];
    for (nth, bits_per_key) in [0usize, 1, 2, 3, 7, 10, 16, 44, 200].into_iter().enumerate() {
        for seed in 0..6u64 {
            let mut rng = Rng(seed * 977 + bits_per_key as u64);
            let max_block_size = *rng.pick(&[32usize, 200, 1024, 4096, 1 << 20]);
            let mut options = options_with_block_size(max_block_size);
            options.filter_policy = Arc::new(raindb::BloomFilterPolicy::new(bits_per_key));
            let entries = random_entries(&mut rng, max_block_size);
            if let Err(failure) = check_table(
                &format!("bits_per_key {bits_per_key}, seed {seed}"),
                &options,
                (nth as u64) * 100 + seed + 1,
                &entries,
                &mut rng,
                1200,
            ) {
                failures.push(failure);
            }
        }
    }

    assert!(failures.is_empty(), "{}", failures.join("\n"));
}

/// Attack 10: one table read by many threads at once (point lookups, scans in both directions and
/// seeks), with and without filling the shared block cache.
#[test]
fn one_table_read_by_many_threads() {
    let mut rng = Rng(2024);
    let options = options_with_block_size(96);
    let mut entries = random_entries(&mut rng, 96);
    while entries.len() < 500 {
        entries = random_entries(&mut rng, 96);
    }
    table::build(&options, 1, &entries).unwrap();
    let failures = std::sync::Mutex::new(Vec::<String>::new());
    std::thread::scope(|scope| {
        for thread in 0..8u64 {
            let entries = &entries;
            let options = &options;
            let failures = &failures;
            scope.spawn(move || {
                // `Reader` is not `Sync`able from here for sure, so every thread opens the file;
                // the block cache of `options` is the shared part.
                let reader = table::open(options, 1).unwrap();
                let mut rng = Rng(thread);
                for round in 0..6 {
                    let fill_cache = (thread + round) % 2 == 0;
                    let mut cursor = reader.cursor(fill_cache);
                    if round % 2 == 0 {
                        cursor.seek_to_first().unwrap();
                        for idx in 0..entries.len() {
                            if let Err(failure) = check_position(
                                &format!("thread {thread} forward"),
                                &cursor,
                                entries,
                                Some(idx),
                            ) {
                                failures.lock().unwrap().push(failure);
                                return;
                            }
                            cursor.next();
                        }
                    } else {
                        cursor.seek_to_last().unwrap();
                        for idx in (0..entries.len()).rev() {
                            if let Err(failure) = check_position(
                                &format!("thread {thread} backward"),
                                &cursor,
                                entries,
                                Some(idx),
                            ) {
                                failures.lock().unwrap().push(failure);
                                return;
                            }
                            cursor.prev();
                        }
                    }
                    for _ in 0..400 {
                        let (user_key, sequence, _, _) = rng.pick(entries).clone();
                        let bound = sequence + rng.below(2);
                        let expected = model_get(entries, &user_key, bound);
                        let actual = reader.get(&user_key, bound, fill_cache);
                        if actual != expected {
                            failures.lock().unwrap().push(format!(
                                "thread {thread}: get({} @ {bound}) answered {actual:?} but the \
                                 property requires {expected:?}",
                                show_key(&user_key)
                            ));
                            return;
                        }
                    }
                }
            });
        }
    });
    let failures = failures.into_inner().unwrap();
    assert!(failures.is_empty(), "{}", failures.join("\n"));
}

/// Attack 11: through the database. Tiny blocks and tiny memtables, many versions of few keys,
/// deletions and snapshots; every read at every snapshot must see the newest version at or below
/// the snapshot, whether it is in the newest file (value or deletion) or only in an older one.
#[test]
fn database_reads_through_tables_with_tiny_blocks() {
    use raindb::{ReadOptions, WriteOptions, DB};
    use std::collections::BTreeMap;

    for (max_block_size, max_memtable_size) in [(64usize, 2048usize), (300, 4096), (1 << 20, 3000)]
    {
        let mut options = DbOptions::with_memory_env();
        options.db_path = format!("audit_db_{max_block_size}");
        options.create_if_missing = true;
        options.max_block_size = max_block_size;
        options.max_memtable_size = max_memtable_size;
        options.max_file_size = 4096;
        let db = DB::open(options).unwrap();
        let mut rng = Rng(max_block_size as u64);
        let mut model: BTreeMap<Vec<u8>, Option<Vec<u8>>> = BTreeMap::new();
        let mut snapshots: Vec<(raindb::Snapshot, BTreeMap<Vec<u8>, Option<Vec<u8>>>)> = vec![];
        let user_keys: Vec<Vec<u8>> = (0..40)
            .map(|idx| match idx {
                0 => vec![],
                1 => vec![0xff],
                2 => vec![0xff, 0xff],
                3 => vec![0],
                _ => format!("k{:02}", idx).into_bytes(),
            })
            .collect();
        for step in 0..3000 {
            let user_key = rng.pick(&user_keys).clone();
            if rng.below(5) == 0 {
                db.delete(WriteOptions::default(), user_key.clone()).unwrap();
                model.insert(user_key, None);
            } else {
                let value = format!("v{step}-{}", "x".repeat(rng.below(40) as usize)).into_bytes();
                db.put(WriteOptions::default(), user_key.clone(), value.clone())
                    .unwrap();
                model.insert(user_key, Some(value));
            }
            if step % 500 == 250 {
                snapshots.push((db.get_snapshot(), model.clone()));
            }
            if step % 1000 == 999 {
                db.compact_range(None..None);
            }
            if step % 97 == 0 || step == 2999 {
                let mut views: Vec<(Option<raindb::Snapshot>, &BTreeMap<_, _>)> =
                    vec![(None, &model)];
                for (snapshot, view) in &snapshots {
                    views.push((Some(snapshot.clone()), view));
                }
                for (snapshot, view) in views {
                    for user_key in &user_keys {
                        let expected = view.get(user_key).cloned().flatten();
                        let actual = match db.get(
                            ReadOptions {
                                fill_cache: true,
                                snapshot: snapshot.clone(),
                            },
                            user_key,
                        ) {
                            Ok(value) => Some(value),
                            Err(raindb::RainDBError::KeyNotFound) => None,
                            Err(error) => panic!("get failed: {error}"),
                        };
                        assert_eq!(
                            actual.as_ref().map(|v| String::from_utf8_lossy(v).to_string()),
                            expected.as_ref().map(|v| String::from_utf8_lossy(v).to_string()),
                            "max_block_size {max_block_size}, step {step}: get({}) at {} \
                             answered the left value but the newest version at or below the \
                             bound is the right one",
                            show_key(user_key),
                            if snapshot.is_some() { "a snapshot" } else { "the latest state" },
                        );
                    }
                }
            }
        }
        for (snapshot, _) in snapshots {
            db.release_snapshot(snapshot);
        }
    }
}

/// Attack 12: very long user keys (prefix lengths that need 2 and 3 byte varints, keys far longer
/// than a block) that differ only in their last bytes, or that are prefixes of each other.
#[test]
fn very_long_keys_round_trip() {
    let mut failures: Vec<String> = vec![];
    let mut rng = Rng(555);
    for (nth, max_block_size) in [16usize, 4096, 100_000, usize::MAX].into_iter().enumerate() {
        let mut entries: Vec<Entry> = vec![];
        let mut sequence = 1;
        for length in [127usize, 128, 129, 16_383, 16_384, 16_385, 70_000] {
            for filler in [0x00u8, 0x61, 0xff] {
                for tail in [None, Some(0x00u8), Some(0x7f), Some(0xff)] {
                    let mut user_key = vec![filler; length];
                    if let Some(tail) = tail {
                        user_key.push(tail);
                    }
                    for _ in 0..(1 + rng.below(3)) {
                        sequence += 1;
                        entries.push((
                            user_key.clone(),
                            sequence,
                            if sequence % 5 == 0 {
                                Operation::Delete
                            } else {
                                Operation::Put
                            },
                            vec![sequence as u8; (sequence % 7) as usize],
                        ));
                    }
                }
            }
        }
        sort_entries(&mut entries);
        let options = options_with_block_size(max_block_size);
        if let Err(failure) = check_table(
            "very long keys",
            &options,
            nth as u64 + 1,
            &entries,
            &mut rng,
            300,
        ) {
            failures.push(failure);
        }
    }

    assert!(failures.is_empty(), "{}", failures.join("\n"));
}
