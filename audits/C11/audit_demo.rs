//! Audit of property C11: "Exactly the needed files are on disk: nothing live deleted, nothing
//! dead kept".
//!
//! Run with `cargo test --offline --features verif --test audit_demo -- --test-threads=1`.
//!
//! Every test fails if and only if it observed a violation of the property (first half: a file
//! that a reader / compaction / recovery still needs was removed; second half: after quiescence,
//! with no snapshot or iterator alive, the database directory holds something other than CURRENT,
//! LOCK, the current manifest, the needed WAL and exactly the tables of the current version).
#![cfg(feature = "verif")]
#![allow(dead_code)]

use std::collections::{BTreeMap, BTreeSet, HashMap};
use std::io::{self, Read, Seek, SeekFrom, Write};
use std::path::{Path, PathBuf};
use std::sync::atomic::{AtomicU64, Ordering};
use std::sync::{Arc, Condvar, Mutex, MutexGuard};
use std::time::{Duration, Instant};

use raindb::fs::{FileLock, FileSystem, OsFileSystem, RandomAccessFile, ReadonlyRandomAccessFile};
use raindb::{DbOptions, RainDBError, RainDbIterator, ReadOptions, WriteOptions, DB};

// ------------------------------------------------------------------------------------------------
// Serialisation of the tests (the verif handler is process wide)
// ------------------------------------------------------------------------------------------------

static SERIAL: Mutex<()> = Mutex::new(());

fn serial() -> MutexGuard<'static, ()> {
    match SERIAL.lock() {
        Ok(guard) => guard,
        Err(poisoned) => poisoned.into_inner(),
    }
}

// ------------------------------------------------------------------------------------------------
// Scheduling hooks
// ------------------------------------------------------------------------------------------------

#[derive(Default)]
struct HooksInner {
    /// point -> number of arrivals that are still let through before threads are held
    armed: HashMap<&'static str, u64>,
    /// point -> number of threads currently parked there
    parked: HashMap<&'static str, usize>,
    notes: Vec<(&'static str, Vec<u64>)>,
}

#[derive(Default)]
struct Hooks {
    inner: Mutex<HooksInner>,
    cv: Condvar,
}

impl Hooks {
    /// Hold every thread that arrives at `point` after `skip` arrivals were let through.
    fn hold_after(&self, point: &'static str, skip: u64) {
        self.inner.lock().unwrap().armed.insert(point, skip);
    }

    fn hold(&self, point: &'static str) {
        self.hold_after(point, 0);
    }

    fn wait_parked(&self, point: &'static str, timeout: Duration) -> bool {
        let deadline = Instant::now() + timeout;
        let mut inner = self.inner.lock().unwrap();
        loop {
            if inner.parked.get(point).copied().unwrap_or(0) > 0 {
                return true;
            }
            let now = Instant::now();
            if now >= deadline {
                return false;
            }
            inner = self.cv.wait_timeout(inner, deadline - now).unwrap().0;
        }
    }

    fn release(&self, point: &'static str) {
        self.inner.lock().unwrap().armed.remove(point);
        self.cv.notify_all();
    }

    fn release_all(&self) {
        self.inner.lock().unwrap().armed.clear();
        self.cv.notify_all();
    }

    fn count_notes(&self, point: &str) -> usize {
        self.inner
            .lock()
            .unwrap()
            .notes
            .iter()
            .filter(|(name, _)| *name == point)
            .count()
    }
}

impl raindb::verif::Handler for Hooks {
    fn pause(&self, point: &'static str, _args: &[u64]) {
        let mut inner = self.inner.lock().unwrap();
        match inner.armed.get_mut(point) {
            None => return,
            Some(skip) if *skip > 0 => {
                *skip -= 1;
                return;
            }
            Some(_) => {}
        }
        *inner.parked.entry(point).or_insert(0) += 1;
        self.cv.notify_all();
        while inner.armed.contains_key(point) {
            inner = self.cv.wait(inner).unwrap();
        }
        *inner.parked.get_mut(point).unwrap() -= 1;
    }

    fn note(&self, point: &'static str, args: &[u64]) {
        self.inner.lock().unwrap().notes.push((point, args.to_vec()));
    }
}

fn install_hooks() -> Arc<Hooks> {
    let hooks = Arc::new(Hooks::default());
    raindb::verif::set_handler(Some(hooks.clone()));
    hooks
}

struct HookGuard(Arc<Hooks>);
impl Drop for HookGuard {
    fn drop(&mut self) {
        self.0.release_all();
        raindb::verif::set_handler(None);
    }
}

// ------------------------------------------------------------------------------------------------
// A recording file system on top of the real one. Every mutating operation is serialised so that a
// crash image (a copy of the directory tree taken just before one operation) is a state that a
// crash at that instant would really have left behind.
// ------------------------------------------------------------------------------------------------

#[derive(Clone)]
struct Acked {
    version: u64,
    is_delete: bool,
}

struct Image {
    op_index: u64,
    next_op: String,
    dir: PathBuf,
    torn: bool,
    acked: BTreeMap<Vec<u8>, Acked>,
}

struct SpyState {
    root: PathBuf,
    image_root: PathBuf,
    op_lock: Mutex<()>,
    op_counter: AtomicU64,
    trace: Mutex<Vec<String>>,
    /// 0 = no periodic images
    image_every: AtomicU64,
    /// Take an image before the first operation whose description contains this string.
    image_before: Mutex<Option<String>>,
    images: Mutex<Vec<Image>>,
    acked: Mutex<BTreeMap<Vec<u8>, Acked>>,
    /// (pattern, matching operations to let through first, number of failures to inject)
    fail_rules: Mutex<Vec<(String, u64, u64)>>,
}

impl SpyState {
    fn new(root: &Path, image_root: &Path) -> Arc<SpyState> {
        Arc::new(SpyState {
            root: root.to_path_buf(),
            image_root: image_root.to_path_buf(),
            op_lock: Mutex::new(()),
            op_counter: AtomicU64::new(0),
            trace: Mutex::new(vec![]),
            image_every: AtomicU64::new(0),
            image_before: Mutex::new(None),
            images: Mutex::new(vec![]),
            acked: Mutex::new(BTreeMap::new()),
            fail_rules: Mutex::new(vec![]),
        })
    }

    fn fail(&self, pattern: &str, skip: u64, times: u64) {
        self.fail_rules
            .lock()
            .unwrap()
            .push((pattern.to_string(), skip, times));
    }

    fn injected_failure(&self, description: &str) -> Option<io::Error> {
        let mut rules = self.fail_rules.lock().unwrap();
        for (pattern, skip, times) in rules.iter_mut() {
            if *times > 0 && description.contains(pattern.as_str()) {
                if *skip > 0 {
                    *skip -= 1;
                    continue;
                }
                *times -= 1;
                return Some(io::Error::new(
                    io::ErrorKind::Other,
                    format!("injected failure of `{description}`"),
                ));
            }
        }
        None
    }

    /// Run one mutating operation. `torn_append` is (file, bytes) for appends.
    fn mutate<R>(
        &self,
        description: String,
        torn_append: Option<(&Path, &[u8])>,
        operation: impl FnOnce() -> io::Result<R>,
    ) -> io::Result<R> {
        let _guard = match self.op_lock.lock() {
            Ok(guard) => guard,
            Err(poisoned) => poisoned.into_inner(),
        };
        let index = self.op_counter.fetch_add(1, Ordering::SeqCst);
        let every = self.image_every.load(Ordering::SeqCst);
        let mut take = every != 0 && index % every == 0;
        {
            let mut image_before = self.image_before.lock().unwrap();
            if let Some(pattern) = image_before.as_ref() {
                if description.contains(pattern.as_str()) {
                    take = true;
                    *image_before = None;
                }
            }
        }
        if take {
            let torn = torn_append.is_some() && every != 0 && (index / every) % 2 == 1;
            let dir = self.image_root.join(format!("img-{index:07}"));
            copy_tree(&self.root, &dir).expect("copying a crash image");
            if torn {
                let (path, bytes) = torn_append.unwrap();
                if bytes.len() >= 2 {
                    let relative = path.strip_prefix(&self.root).unwrap();
                    let mut file = std::fs::OpenOptions::new()
                        .append(true)
                        .open(dir.join(relative))
                        .expect("opening the torn file of a crash image");
                    file.write_all(&bytes[..bytes.len() / 2]).unwrap();
                }
            }
            self.images.lock().unwrap().push(Image {
                op_index: index,
                next_op: description.clone(),
                dir,
                torn,
                acked: self.acked.lock().unwrap().clone(),
            });
        }
        if let Some(error) = self.injected_failure(&description) {
            self.trace.lock().unwrap().push(format!("FAILED {description}"));
            return Err(error);
        }
        self.trace.lock().unwrap().push(description);
        operation()
    }
}

fn copy_tree(from: &Path, to: &Path) -> io::Result<()> {
    std::fs::create_dir_all(to)?;
    for entry in std::fs::read_dir(from)? {
        let entry = entry?;
        let target = to.join(entry.file_name());
        if entry.file_type()?.is_dir() {
            copy_tree(&entry.path(), &target)?;
        } else {
            std::fs::copy(entry.path(), &target)?;
        }
    }
    Ok(())
}

struct SpyFs {
    inner: OsFileSystem,
    state: Arc<SpyState>,
}

struct SpyFile {
    inner: Box<dyn RandomAccessFile>,
    path: PathBuf,
    state: Arc<SpyState>,
}

impl Read for SpyFile {
    fn read(&mut self, buf: &mut [u8]) -> io::Result<usize> {
        self.inner.read(buf)
    }
}

impl Seek for SpyFile {
    fn seek(&mut self, pos: SeekFrom) -> io::Result<u64> {
        self.inner.seek(pos)
    }
}

impl Write for SpyFile {
    fn write(&mut self, buf: &[u8]) -> io::Result<usize> {
        let SpyFile { inner, path, state } = self;
        state.mutate(
            format!("write {} {}", path.display(), buf.len()),
            Some((path.as_path(), buf)),
            || inner.write(buf),
        )
    }

    fn flush(&mut self) -> io::Result<()> {
        self.inner.flush()
    }
}

impl ReadonlyRandomAccessFile for SpyFile {
    fn read_from(&self, buf: &mut [u8], offset: usize) -> io::Result<usize> {
        self.inner.read_from(buf, offset)
    }

    fn len(&self) -> io::Result<u64> {
        self.inner.len()
    }
}

impl RandomAccessFile for SpyFile {
    fn append(&mut self, buf: &[u8]) -> io::Result<usize> {
        let SpyFile { inner, path, state } = self;
        state.mutate(
            format!("append {} {}", path.display(), buf.len()),
            Some((path.as_path(), buf)),
            || inner.append(buf),
        )
    }
}

impl FileSystem for SpyFs {
    fn get_name(&self) -> String {
        "SpyFs".to_string()
    }

    fn create_dir(&self, path: &Path) -> io::Result<()> {
        self.inner.create_dir(path)
    }

    fn create_dir_all(&self, path: &Path) -> io::Result<()> {
        self.inner.create_dir_all(path)
    }

    fn list_dir(&self, path: &Path) -> io::Result<Vec<PathBuf>> {
        self.inner.list_dir(path)
    }

    fn open_file(&self, path: &Path) -> io::Result<Box<dyn ReadonlyRandomAccessFile>> {
        self.inner.open_file(path)
    }

    fn rename(&self, from: &Path, to: &Path) -> io::Result<()> {
        self.state.mutate(
            format!("rename {} -> {}", from.display(), to.display()),
            None,
            || self.inner.rename(from, to),
        )
    }

    fn create_file(&self, path: &Path, append: bool) -> io::Result<Box<dyn RandomAccessFile>> {
        let file = self.state.mutate(
            format!("create {} append={append}", path.display()),
            None,
            || self.inner.create_file(path, append),
        )?;
        Ok(Box::new(SpyFile {
            inner: file,
            path: path.to_path_buf(),
            state: Arc::clone(&self.state),
        }))
    }

    fn remove_file(&self, path: &Path) -> io::Result<()> {
        self.state
            .mutate(format!("remove {}", path.display()), None, || {
                self.inner.remove_file(path)
            })
    }

    fn remove_dir(&self, path: &Path) -> io::Result<()> {
        self.inner.remove_dir(path)
    }

    fn remove_dir_all(&self, path: &Path) -> io::Result<()> {
        self.inner.remove_dir_all(path)
    }

    fn get_file_size(&self, path: &Path) -> io::Result<u64> {
        self.inner.get_file_size(path)
    }

    fn is_dir(&self, path: &Path) -> io::Result<bool> {
        self.inner.is_dir(path)
    }

    fn lock_file(&self, path: &Path) -> io::Result<FileLock> {
        self.inner.lock_file(path)
    }
}

// ------------------------------------------------------------------------------------------------
// Helpers
// ------------------------------------------------------------------------------------------------

fn scratch_dir(name: &str) -> PathBuf {
    let dir = PathBuf::from(env!("CARGO_MANIFEST_DIR"))
        .join("target")
        .join("audit-tmp")
        .join(format!("{name}-{}", std::process::id()));
    let _ = std::fs::remove_dir_all(&dir);
    std::fs::create_dir_all(&dir).unwrap();
    dir
}

#[derive(Clone, Copy)]
struct Sizes {
    memtable: usize,
    file: u64,
    block: usize,
}

const TINY: Sizes = Sizes {
    memtable: 3000,
    file: 2000,
    block: 256,
};

fn options(path: &Path, fs: Arc<dyn FileSystem>, sizes: Sizes, reuse_logs: bool) -> DbOptions {
    // Fresh options (and therefore a fresh block cache) for every open
    DbOptions {
        db_path: path.to_str().unwrap().to_owned(),
        max_memtable_size: sizes.memtable,
        max_file_size: sizes.file,
        max_block_size: sizes.block,
        filesystem_provider: fs,
        create_if_missing: true,
        error_if_exists: false,
        reuse_log_files: reuse_logs,
        ..DbOptions::default()
    }
}

fn os_fs() -> Arc<dyn FileSystem> {
    Arc::new(OsFileSystem::new())
}

fn key(index: usize) -> Vec<u8> {
    format!("key{index:04}").into_bytes()
}

fn value(version: u64, len: usize) -> Vec<u8> {
    let mut value = format!("{version:010}:").into_bytes();
    while value.len() < len {
        value.push(b'a' + (version % 26) as u8);
    }
    value
}

fn version_of(value: &[u8]) -> u64 {
    std::str::from_utf8(&value[..10]).unwrap().parse().unwrap()
}

/// Wait until no background work is scheduled or pending. Returns false on timeout.
fn quiesce(db: &DB) -> bool {
    let deadline = Instant::now() + Duration::from_secs(60);
    let mut stable = 0;
    while Instant::now() < deadline {
        let probe = db.verif_probe();
        let busy = probe.background_compaction_scheduled
            || probe.has_immutable_memtable
            || probe.manual_compaction_pending
            || (probe.needs_compaction && probe.bad_state.is_none());
        if busy {
            stable = 0;
        } else {
            stable += 1;
            if stable >= 3 {
                return true;
            }
        }
        std::thread::sleep(Duration::from_millis(5));
    }
    false
}

fn file_names(dir: &Path) -> BTreeSet<String> {
    let mut names = BTreeSet::new();
    if let Ok(entries) = std::fs::read_dir(dir) {
        for entry in entries {
            let entry = entry.unwrap();
            let mut name = entry.file_name().to_string_lossy().to_string();
            if entry.file_type().unwrap().is_dir() {
                name.push('/');
            }
            names.insert(name);
        }
    }
    names
}

/// Compare the directory with what the property allows for a quiesced database without live
/// snapshots and iterators. Returns the list of discrepancies.
fn audit_directory(db: &DB, root: &Path) -> Vec<String> {
    let mut problems = vec![];
    let probe = db.verif_probe();
    if let Some(bad_state) = probe.bad_state.as_ref() {
        problems.push(format!("the database is in a bad state: {bad_state}"));
    }
    if probe.num_versions != 1 {
        problems.push(format!(
            "{} versions are still linked in the version set although no reader is alive",
            probe.num_versions
        ));
    }
    if !probe.tables_in_use.is_empty() {
        problems.push(format!(
            "tables still protected as in use although nothing is running: {:?}",
            probe.tables_in_use
        ));
    }

    let expected_root: BTreeSet<String> = [
        "CURRENT".to_string(),
        "LOCK".to_string(),
        format!("MANIFEST-{}.manifest", probe.manifest_file_number),
        "wal/".to_string(),
        "data/".to_string(),
    ]
    .into_iter()
    .collect();
    let actual_root = file_names(root);
    if actual_root != expected_root {
        problems.push(format!(
            "root directory: expected exactly {expected_root:?} but found {actual_root:?}"
        ));
    }
    match std::fs::read_to_string(root.join("CURRENT")) {
        Ok(current) => {
            let expected = format!("MANIFEST-{}.manifest\n", probe.manifest_file_number);
            if current != expected {
                problems.push(format!("CURRENT holds {current:?}, expected {expected:?}"));
            }
        }
        Err(err) => problems.push(format!("CURRENT cannot be read: {err}")),
    }

    // Nothing is being flushed, so the only log that is still needed is the one that is being
    // written. (The version set only learns its number with the next manifest record, hence >=.)
    let actual_wal = file_names(&root.join("wal"));
    let wal_numbers: Vec<Option<u64>> = actual_wal
        .iter()
        .map(|name| {
            name.strip_prefix("wal-")
                .and_then(|rest| rest.strip_suffix(".log"))
                .and_then(|number| number.parse().ok())
        })
        .collect();
    let wal_ok = wal_numbers.len() == 1
        && matches!(wal_numbers[0], Some(number) if number >= probe.curr_wal_number);
    if !wal_ok {
        problems.push(format!(
            "wal directory: expected exactly the one log being written (number >= {}) but found \
            {actual_wal:?}",
            probe.curr_wal_number
        ));
    }

    let expected_tables: BTreeSet<String> = db
        .verif_files()
        .iter()
        .map(|file| format!("{}.rdb", file.number))
        .collect();
    let actual_tables = file_names(&root.join("data"));
    if actual_tables != expected_tables {
        let missing: Vec<&String> = expected_tables.difference(&actual_tables).collect();
        let extra: Vec<&String> = actual_tables.difference(&expected_tables).collect();
        problems.push(format!(
            "data directory: tables of the current version missing on disk: {missing:?}; files \
            on disk that are not part of the current version: {extra:?}"
        ));
    }

    problems
}

fn get_version(db: &DB, user_key: &[u8]) -> Result<Option<u64>, RainDBError> {
    match db.get(ReadOptions::default(), user_key) {
        Ok(value) => Ok(Some(version_of(&value))),
        Err(RainDBError::KeyNotFound) => Ok(None),
        Err(err) => Err(err),
    }
}

/// Fill the database so that all of `keys` end up in table files below level 0.
fn load_and_compact(db: &DB, keys: std::ops::Range<usize>, version: u64) {
    for index in keys {
        db.put(WriteOptions::default(), key(index), value(version, 300))
            .unwrap();
    }
    db.compact_range(None..None);
    assert!(quiesce(db));
}

// ------------------------------------------------------------------------------------------------
// Attack 1: a point read that is parked between the memtables and the tables while a compaction
// replaces every table of its version and the garbage collection runs.
// ------------------------------------------------------------------------------------------------

#[test]
fn a1_parked_get_keeps_its_tables_through_compaction_and_gc() {
    let _serial = serial();
    let hooks = install_hooks();
    let _guard = HookGuard(hooks.clone());
    let root = scratch_dir("a1");
    let db = Arc::new(DB::open(options(&root, os_fs(), TINY, true)).unwrap());

    load_and_compact(&db, 0..40, 1);
    let old_tables: Vec<u64> = db.verif_files().iter().map(|file| file.number).collect();
    assert!(!old_tables.is_empty());

    hooks.hold("get.before_tables");
    let reader = {
        let db = Arc::clone(&db);
        std::thread::spawn(move || db.get(ReadOptions::default(), &key(7)))
    };
    assert!(hooks.wait_parked("get.before_tables", Duration::from_secs(30)));

    // Replace everything
    load_and_compact(&db, 0..40, 2);
    let new_tables: Vec<u64> = db.verif_files().iter().map(|file| file.number).collect();
    assert!(old_tables.iter().all(|number| !new_tables.contains(number)));

    let missing: Vec<u64> = old_tables
        .iter()
        .copied()
        .filter(|number| !root.join("data").join(format!("{number}.rdb")).exists())
        .collect();
    hooks.release("get.before_tables");
    let read = reader.join().unwrap();
    assert!(
        missing.is_empty(),
        "tables {missing:?} of the version pinned by an in-flight get were removed; the property \
        requires them to stay until the read is done"
    );
    match read {
        Ok(value) => assert_eq!(
            version_of(&value),
            1,
            "the parked get took its sequence number before the overwrite"
        ),
        Err(err) => panic!("the parked get failed although its files must be kept: {err}"),
    }
}

// ------------------------------------------------------------------------------------------------
// Attack 2: an iterator created before a full rewrite of the tree must be able to read everything
// afterwards (its tables are opened lazily, i.e. after the garbage collection ran).
// ------------------------------------------------------------------------------------------------

#[test]
fn a2_iterator_keeps_its_tables_through_compaction_and_gc() {
    let _serial = serial();
    let root = scratch_dir("a2");
    let db = DB::open(options(&root, os_fs(), TINY, true)).unwrap();

    load_and_compact(&db, 0..60, 1);
    let old_tables: Vec<u64> = db.verif_files().iter().map(|file| file.number).collect();
    let mut iterator = db.new_iterator(ReadOptions::default()).unwrap();

    for round in 2..5 {
        load_and_compact(&db, 0..60, round);
    }
    let missing: Vec<u64> = old_tables
        .iter()
        .copied()
        .filter(|number| !root.join("data").join(format!("{number}.rdb")).exists())
        .collect();
    assert!(
        missing.is_empty(),
        "tables {missing:?} of the version pinned by a live iterator were removed"
    );

    iterator.seek_to_first().unwrap();
    let mut seen = 0;
    while iterator.is_valid() {
        let (user_key, user_value) = iterator.current().unwrap();
        assert_eq!(user_key, &key(seen));
        assert_eq!(version_of(user_value), 1);
        seen += 1;
        iterator.next();
    }
    assert!(
        iterator.status().is_none(),
        "iterator failed: {:?}",
        iterator.status()
    );
    assert_eq!(seen, 60, "the iterator lost entries of its snapshot");
    drop(iterator);
}

// ------------------------------------------------------------------------------------------------
// Attack 3: a memtable flush that interrupts a table compaction runs the garbage collection while
// the compaction has finished outputs that are in no version yet.
// ------------------------------------------------------------------------------------------------

#[test]
fn a3_flush_inside_a_compaction_keeps_the_compaction_outputs() {
    let _serial = serial();
    let hooks = install_hooks();
    let _guard = HookGuard(hooks.clone());
    let root = scratch_dir("a3");
    let db = Arc::new(DB::open(options(&root, os_fs(), TINY, true)).unwrap());

    load_and_compact(&db, 0..80, 1);
    // New versions of everything so that the next manual compaction has real work
    for index in 0..80 {
        db.put(WriteOptions::default(), key(index), value(2, 300))
            .unwrap();
    }
    assert!(quiesce(&db));

    // Park the compaction thread in the middle of a table compaction (after some outputs exist)
    hooks.hold_after("compact.step", 40);
    let compactor = {
        let db = Arc::clone(&db);
        std::thread::spawn(move || db.compact_range(None..None))
    };
    assert!(hooks.wait_parked("compact.step", Duration::from_secs(60)));
    let in_use_before = db.verif_probe().tables_in_use;

    // Make an immutable memtable. The writer must not wait for the flush.
    let mut version = 3;
    while !db.verif_probe().has_immutable_memtable {
        db.put(WriteOptions::default(), key(1000 + version as usize), value(version, 300))
            .unwrap();
        version += 1;
        assert!(version < 100);
    }
    let gc_before = hooks.count_notes("gc.plan");
    hooks.release("compact.step");
    compactor.join().unwrap();
    assert!(quiesce(&db));
    assert!(hooks.count_notes("gc.plan") > gc_before);

    // Everything must be readable and the directory must be exact
    for index in 0..80 {
        assert_eq!(get_version(&db, &key(index)).unwrap(), Some(2));
    }
    let problems = audit_directory(&db, &root);
    assert!(
        problems.is_empty(),
        "after a flush inside a table compaction (outputs in use before: {in_use_before:?}): \
        {problems:#?}"
    );
}

// ------------------------------------------------------------------------------------------------
// Attack 4: the tables pinned by a reader are dead once the reader is gone. The property requires
// them to be reclaimed once the database is quiescent.
// ------------------------------------------------------------------------------------------------

#[test]
fn a4_tables_released_by_the_last_reader_are_reclaimed() {
    let _serial = serial();
    let root = scratch_dir("a4");
    let db = DB::open(options(&root, os_fs(), TINY, true)).unwrap();

    load_and_compact(&db, 0..60, 1);
    let iterator = db.new_iterator(ReadOptions::default()).unwrap();
    load_and_compact(&db, 0..60, 2);
    drop(iterator);

    assert!(quiesce(&db));
    // Give a hypothetical deferred clean-up ample time
    std::thread::sleep(Duration::from_millis(500));
    assert!(quiesce(&db));
    let problems = audit_directory(&db, &root);
    assert!(
        problems.is_empty(),
        "compactions are quiescent and the only iterator was released, the directory must hold \
        exactly the files of the current state, but: {problems:#?}"
    );
}

// ------------------------------------------------------------------------------------------------
// Attack 5: a crash between writing a new manifest and switching CURRENT leaves a manifest with a
// number above the current one. If the next open re-uses the old manifest, the left-over is never
// looked at again.
// ------------------------------------------------------------------------------------------------

#[test]
fn a5_manifest_left_behind_by_a_crash_before_the_current_switch_is_reclaimed() {
    let _serial = serial();
    let root = scratch_dir("a5-db");
    let images = scratch_dir("a5-img");

    {
        let db = DB::open(options(&root, os_fs(), TINY, true)).unwrap();
        load_and_compact(&db, 0..20, 1);
    }

    // Second life: does not re-use the manifest, crashes just before CURRENT is switched
    let state = SpyState::new(&root, &images);
    *state.image_before.lock().unwrap() = Some("-> ".to_string() + root.join("CURRENT").to_str().unwrap());
    {
        let spy: Arc<dyn FileSystem> = Arc::new(SpyFs {
            inner: OsFileSystem::new(),
            state: Arc::clone(&state),
        });
        let db = DB::open(options(&root, spy, TINY, false)).unwrap();
        drop(db);
    }
    let image = state.images.lock().unwrap().pop().expect("no crash image was taken");
    let before = file_names(&image.dir);

    // Third life on the crash image: re-uses logs
    let db = DB::open(options(&image.dir, os_fs(), TINY, true)).unwrap();
    for index in 0..20 {
        assert_eq!(get_version(&db, &key(index)).unwrap(), Some(1));
    }
    load_and_compact(&db, 0..20, 2);
    assert!(quiesce(&db));
    let problems = audit_directory(&db, &image.dir);
    assert!(
        problems.is_empty(),
        "crash image taken before `{}` held {before:?}; after reopening, compacting and \
        quiescing: {problems:#?}",
        image.next_op
    );
}

// ------------------------------------------------------------------------------------------------
// Attack 6: crash images of a mixed workload (tiny memtable / file / block sizes, manual
// compactions, iterators, snapshots, reopen with and without log re-use). Every image, including
// ones with a half-written last append, is reopened: recovery must succeed, every acknowledged
// write must be there and the directory must be exact once the database is quiescent.
// ------------------------------------------------------------------------------------------------

struct Lcg(u64);
impl Lcg {
    fn next(&mut self) -> u64 {
        self.0 = self
            .0
            .wrapping_mul(6364136223846793005)
            .wrapping_add(1442695040888963407);
        self.0 >> 33
    }
}

type History = BTreeMap<Vec<u8>, BTreeMap<u64, bool>>;

#[derive(Clone, Copy, Debug, PartialEq)]
enum ReuseMode {
    Always,
    Never,
    Mixed,
}

impl ReuseMode {
    fn pick(self, coin: u64) -> bool {
        match self {
            ReuseMode::Always => true,
            ReuseMode::Never => false,
            ReuseMode::Mixed => coin % 2 == 0,
        }
    }
}

fn run_workload(
    root: &Path,
    state: &Arc<SpyState>,
    seed: u64,
    steps: usize,
    reuse_mode: ReuseMode,
    history: &mut History,
) -> Vec<String> {
    let mut problems = vec![];
    let mut rng = Lcg(seed);
    let mut version: u64 = 0;
    let mut reuse = reuse_mode.pick(seed);
    let num_keys = 60;
    let spy = |state: &Arc<SpyState>| -> Arc<dyn FileSystem> {
        Arc::new(SpyFs {
            inner: OsFileSystem::new(),
            state: Arc::clone(state),
        })
    };
    let mut db = Some(DB::open(options(root, spy(state), TINY, reuse)).unwrap());
    let mut iterators = vec![];
    let mut snapshots = vec![];

    for step in 0..steps {
        let dice = rng.next() % 100;
        let user_key = key((rng.next() % num_keys) as usize);
        let handle = db.as_ref().unwrap();
        if dice < 62 {
            version += 1;
            let len = 50 + (rng.next() % 700) as usize;
            history
                .entry(user_key.clone())
                .or_default()
                .insert(version, false);
            handle
                .put(WriteOptions::default(), user_key.clone(), value(version, len))
                .unwrap();
            state.acked.lock().unwrap().insert(
                user_key,
                Acked {
                    version,
                    is_delete: false,
                },
            );
        } else if dice < 72 {
            version += 1;
            history
                .entry(user_key.clone())
                .or_default()
                .insert(version, true);
            handle
                .delete(WriteOptions::default(), user_key.clone())
                .unwrap();
            state.acked.lock().unwrap().insert(
                user_key,
                Acked {
                    version,
                    is_delete: true,
                },
            );
        } else if dice < 77 {
            if rng.next() % 2 == 0 {
                handle.compact_range(None..None);
            } else {
                let low = key((rng.next() % num_keys) as usize);
                let high = key((rng.next() % num_keys) as usize);
                let (low, high) = if low <= high { (low, high) } else { (high, low) };
                handle.compact_range(Some(low.as_slice())..Some(high.as_slice()));
            }
        } else if dice < 82 {
            if iterators.len() < 3 {
                let mut iterator = handle.new_iterator(ReadOptions::default()).unwrap();
                iterator.seek_to_first().unwrap();
                iterators.push(iterator);
            }
        } else if dice < 85 {
            iterators.clear();
        } else if dice < 88 {
            if snapshots.len() < 2 {
                snapshots.push(handle.get_snapshot());
            } else {
                handle.release_snapshot(snapshots.remove(0));
            }
        } else if dice < 90 {
            iterators.clear();
            for snapshot in snapshots.drain(..) {
                handle.release_snapshot(snapshot);
            }
            drop(db.take());
            reuse = reuse_mode.pick(rng.next());
            db = Some(DB::open(options(root, spy(state), TINY, reuse)).unwrap());
        } else {
            let expected = state.acked.lock().unwrap().get(&user_key).cloned();
            let expected = match expected {
                Some(acked) if !acked.is_delete => Some(acked.version),
                _ => None,
            };
            match get_version(handle, &user_key) {
                Ok(observed) => {
                    if observed != expected {
                        problems.push(format!(
                            "step {step}: get({:?}) returned version {observed:?}, expected \
                            {expected:?}",
                            String::from_utf8_lossy(&user_key)
                        ));
                    }
                }
                Err(err) => problems.push(format!(
                    "step {step}: get({:?}) failed: {err}",
                    String::from_utf8_lossy(&user_key)
                )),
            }
            // Advance the held iterators a little (opens tables lazily)
            for iterator in iterators.iter_mut() {
                for _ in 0..5 {
                    if iterator.is_valid() {
                        iterator.next();
                    }
                }
                if let Some(err) = iterator.status() {
                    problems.push(format!("step {step}: a held iterator failed: {err}"));
                }
            }
        }
    }

    // Quiescent end state: release all readers, force one more flush (which ends with a garbage
    // collection) and compare.
    iterators.clear();
    let handle = db.as_ref().unwrap();
    for snapshot in snapshots.drain(..) {
        handle.release_snapshot(snapshot);
    }
    handle.compact_range(None..None);
    if !quiesce(handle) {
        problems.push("the database did not become quiescent".to_string());
    }
    for problem in audit_directory(handle, root) {
        problems.push(format!("end of the live run: {problem}"));
    }
    drop(db);

    problems
}

fn check_image(image: &Image, history: &History, reuse: bool) -> Vec<String> {
    let mut problems = vec![];
    let label = format!(
        "image before op #{} `{}`{}",
        image.op_index,
        image.next_op,
        if image.torn { " (torn)" } else { "" }
    );
    let listing = format!(
        "root {:?} wal {:?} data {:?}",
        file_names(&image.dir),
        file_names(&image.dir.join("wal")),
        file_names(&image.dir.join("data"))
    );
    let pristine = image.dir.with_extension("orig");
    copy_tree(&image.dir, &pristine).unwrap();
    let hooks = install_hooks();
    let _guard = HookGuard(hooks.clone());
    let db = match DB::open(options(&image.dir, os_fs(), TINY, reuse)) {
        Ok(db) => db,
        Err(err) => {
            problems.push(format!(
                "{label}: recovery failed ({err}); files of the image: {listing}"
            ));
            return problems;
        }
    };

    // First let the compactions that the open scheduled finish without any concurrent reader, then
    // compare the directory, then read.
    if !quiesce(&db) {
        problems.push(format!("{label}: did not become quiescent"));
    }
    for problem in audit_directory(&db, &image.dir) {
        problems.push(format!(
            "{label}: {problem}; files of the image were: {listing}; events since the reopen \
            (reuse_log_files={reuse}): {:?}",
            hooks.inner.lock().unwrap().notes
        ));
    }

    for (user_key, acked) in image.acked.iter() {
        let versions = &history[user_key];
        match get_version(&db, user_key) {
            Ok(Some(observed)) => {
                if observed < acked.version || versions.get(&observed) != Some(&false) {
                    problems.push(format!(
                        "{label}: key {:?} reads version {observed}, acknowledged was {} \
                        (delete: {})",
                        String::from_utf8_lossy(user_key),
                        acked.version,
                        acked.is_delete
                    ));
                }
            }
            Ok(None) => {
                let explained = versions
                    .range(acked.version..)
                    .any(|(_, is_delete)| *is_delete);
                if !explained {
                    problems.push(format!(
                        "{label}: key {:?} is gone, acknowledged was version {} (delete: {})",
                        String::from_utf8_lossy(user_key),
                        acked.version,
                        acked.is_delete
                    ));
                }
            }
            Err(err) => problems.push(format!(
                "{label}: key {:?} cannot be read: {err}",
                String::from_utf8_lossy(user_key)
            )),
        }
    }

    drop(db);

    problems
}

fn crash_sweep(name: &str, seed: u64, steps: usize, image_every: u64, reuse_mode: ReuseMode) {
    let root = scratch_dir(&format!("{name}-db"));
    let images = scratch_dir(&format!("{name}-img"));
    let state = SpyState::new(&root, &images);
    state.image_every.store(image_every, Ordering::SeqCst);
    let mut history = History::new();
    let mut problems = run_workload(&root, &state, seed, steps, reuse_mode, &mut history);
    state.image_every.store(0, Ordering::SeqCst);

    let images: Vec<Image> = std::mem::take(&mut *state.images.lock().unwrap());
    let total = images.len();
    for (index, image) in images.iter().enumerate() {
        let image_problems = check_image(image, &history, reuse_mode.pick(index as u64));
        if image_problems.is_empty() {
            let _ = std::fs::remove_dir_all(&image.dir);
            let _ = std::fs::remove_dir_all(image.dir.with_extension("orig"));
        }
        problems.extend(image_problems);
        if problems.len() > 20 {
            break;
        }
    }
    eprintln!(
        "{name}: {} file system operations, {total} crash images checked",
        state.op_counter.load(Ordering::SeqCst)
    );
    assert!(problems.is_empty(), "{name}: {problems:#?}");
}

#[test]
fn a6_crash_images_seed_1() {
    let _serial = serial();
    crash_sweep("a6-s1", 1, 700, 11, ReuseMode::Always);
}

#[test]
fn a6_crash_images_seed_2() {
    let _serial = serial();
    crash_sweep("a6-s2", 2, 700, 13, ReuseMode::Never);
}

#[test]
fn a6_crash_images_seed_3_mixed() {
    let _serial = serial();
    crash_sweep("a6-s3", 3, 700, 17, ReuseMode::Mixed);
}

// ------------------------------------------------------------------------------------------------
// Attack 7: concurrent writers, point readers, iterators, snapshots and manual compactions. When
// everything is released, one more flush (which ends with a garbage collection) must leave exactly
// the needed files: a leaked version or a leaked in-use mark would keep dead tables forever.
// ------------------------------------------------------------------------------------------------

#[test]
fn a7_concurrent_readers_writers_and_compactions_leave_no_garbage() {
    let _serial = serial();
    let root = scratch_dir("a7");
    let db = Arc::new(DB::open(options(&root, os_fs(), TINY, true)).unwrap());
    let stop = Arc::new(std::sync::atomic::AtomicBool::new(false));
    let failures: Arc<Mutex<Vec<String>>> = Arc::new(Mutex::new(vec![]));
    let mut threads = vec![];

    // Keys include the empty key and keys of 0xff bytes
    let special_keys: Vec<Vec<u8>> = vec![vec![], vec![0xff], vec![0xff, 0xff, 0xff], vec![0]];

    for writer in 0..3u64 {
        let db = Arc::clone(&db);
        let stop = Arc::clone(&stop);
        let special_keys = special_keys.clone();
        threads.push(std::thread::spawn(move || {
            let mut rng = Lcg(100 + writer);
            let mut version = 0;
            while !stop.load(Ordering::SeqCst) {
                version += 1;
                let dice = rng.next() % 100;
                let user_key = if dice < 5 {
                    special_keys[(rng.next() % 4) as usize].clone()
                } else {
                    key((rng.next() % 200) as usize)
                };
                if dice < 85 {
                    let len = if dice < 2 { 20_000 } else { 20 + (rng.next() % 500) as usize };
                    db.put(WriteOptions::default(), user_key, value(version, len))
                        .unwrap();
                } else {
                    db.delete(WriteOptions::default(), user_key).unwrap();
                }
            }
        }));
    }
    for reader in 0..2u64 {
        let db = Arc::clone(&db);
        let stop = Arc::clone(&stop);
        let failures = Arc::clone(&failures);
        threads.push(std::thread::spawn(move || {
            let mut rng = Lcg(200 + reader);
            while !stop.load(Ordering::SeqCst) {
                let user_key = key((rng.next() % 400) as usize);
                match db.get(ReadOptions::default(), &user_key) {
                    Ok(_) | Err(RainDBError::KeyNotFound) => {}
                    Err(err) => failures.lock().unwrap().push(format!("get failed: {err}")),
                }
            }
        }));
    }
    for scanner in 0..2u64 {
        let db = Arc::clone(&db);
        let stop = Arc::clone(&stop);
        let failures = Arc::clone(&failures);
        threads.push(std::thread::spawn(move || {
            let mut rng = Lcg(300 + scanner);
            while !stop.load(Ordering::SeqCst) {
                let snapshot = db.get_snapshot();
                let mut iterator = db
                    .new_iterator(ReadOptions {
                        fill_cache: rng.next() % 2 == 0,
                        snapshot: Some(snapshot.clone()),
                    })
                    .unwrap();
                iterator.seek_to_first().unwrap();
                let mut previous: Option<Vec<u8>> = None;
                while iterator.is_valid() {
                    let (user_key, _) = iterator.current().unwrap();
                    if let Some(previous) = previous.as_ref() {
                        if previous >= user_key {
                            failures
                                .lock()
                                .unwrap()
                                .push("iterator keys out of order".to_string());
                        }
                    }
                    previous = Some(user_key.clone());
                    iterator.next();
                    if rng.next() % 50 == 0 {
                        std::thread::sleep(Duration::from_millis(2));
                    }
                }
                if let Some(err) = iterator.status() {
                    failures
                        .lock()
                        .unwrap()
                        .push(format!("iterator failed: {err}"));
                }
                drop(iterator);
                db.release_snapshot(snapshot);
            }
        }));
    }
    {
        let db = Arc::clone(&db);
        let stop = Arc::clone(&stop);
        threads.push(std::thread::spawn(move || {
            let mut rng = Lcg(400);
            while !stop.load(Ordering::SeqCst) {
                let low = key((rng.next() % 200) as usize);
                let high = key((rng.next() % 200) as usize);
                match rng.next() % 3 {
                    0 => db.compact_range(None..None),
                    1 => db.compact_range(Some(low.as_slice())..None),
                    _ => db.compact_range(None..Some(high.as_slice())),
                }
                std::thread::sleep(Duration::from_millis(20));
            }
        }));
    }

    std::thread::sleep(Duration::from_secs(8));
    stop.store(true, Ordering::SeqCst);
    for thread in threads {
        thread.join().unwrap();
    }
    let failures = failures.lock().unwrap().clone();
    assert!(failures.is_empty(), "readers failed: {failures:#?}");

    // Everything is released. Force a flush and garbage collection.
    db.compact_range(None..None);
    assert!(quiesce(&db));
    let problems = audit_directory(&db, &root);
    assert!(problems.is_empty(), "after the concurrent run: {problems:#?}");
}

// ------------------------------------------------------------------------------------------------
// Attack 8: I/O faults.
// ------------------------------------------------------------------------------------------------

fn spy_fs(state: &Arc<SpyState>) -> Arc<dyn FileSystem> {
    Arc::new(SpyFs {
        inner: OsFileSystem::new(),
        state: Arc::clone(state),
    })
}

/// a) a failed removal of an obsolete table must be made up for by the next garbage collection.
#[test]
fn a8a_failed_removal_is_retried_by_the_next_collection() {
    let _serial = serial();
    let root = scratch_dir("a8a-db");
    let images = scratch_dir("a8a-img");
    let state = SpyState::new(&root, &images);
    let db = DB::open(options(&root, spy_fs(&state), TINY, true)).unwrap();
    load_and_compact(&db, 0..40, 1);
    state.fail(&format!("remove {}", root.join("data").display()), 0, 2);
    load_and_compact(&db, 0..40, 2);
    assert_eq!(state.fail_rules.lock().unwrap()[0].2, 0, "no removal failed");
    load_and_compact(&db, 0..40, 3);
    let problems = audit_directory(&db, &root);
    assert!(
        problems.is_empty(),
        "two removals failed once, later collections must reclaim the files: {problems:#?}"
    );
}

/// Common part: after a background error, close, reopen on a healthy file system and compare.
fn reopen_after_fault(root: &Path, acked: &BTreeMap<Vec<u8>, u64>, what: &str) {
    let listing = format!(
        "root {:?} wal {:?} data {:?}",
        file_names(root),
        file_names(&root.join("wal")),
        file_names(&root.join("data"))
    );
    let db = match DB::open(options(root, os_fs(), TINY, true)) {
        Ok(db) => db,
        Err(err) => panic!("{what}: recovery failed: {err}; files: {listing}"),
    };
    assert!(quiesce(&db));
    let problems = audit_directory(&db, root);
    assert!(problems.is_empty(), "{what}: {problems:#?}; files before: {listing}");
    for (user_key, version) in acked {
        let observed = get_version(&db, user_key).unwrap();
        assert!(
            matches!(observed, Some(observed) if observed >= *version),
            "{what}: key {:?} reads {observed:?}, acknowledged version {version}",
            String::from_utf8_lossy(user_key)
        );
    }
}

fn write_until_error(db: &DB, acked: &mut BTreeMap<Vec<u8>, u64>, first_version: u64) -> bool {
    for version in first_version..first_version + 400 {
        let user_key = key((version % 50) as usize);
        match db.put(WriteOptions::default(), user_key.clone(), value(version, 300)) {
            Ok(()) => {
                acked.insert(user_key, version);
            }
            Err(_) => return true,
        }
    }
    false
}

/// b) a table write fails during a flush.
#[test]
fn a8b_failed_flush_then_reopen() {
    let _serial = serial();
    let root = scratch_dir("a8b-db");
    let images = scratch_dir("a8b-img");
    let state = SpyState::new(&root, &images);
    let mut acked = BTreeMap::new();
    {
        let db = DB::open(options(&root, spy_fs(&state), TINY, true)).unwrap();
        assert!(!write_until_error(&db, &mut acked, 1));
        assert!(quiesce(&db));
        state.fail(&format!("write {}", root.join("data").display()), 3, 1);
        assert!(
            write_until_error(&db, &mut acked, 1000),
            "the injected failure was not hit"
        );
        assert!(db.verif_probe().bad_state.is_some());
    }
    reopen_after_fault(&root, &acked, "table write failed during a flush");
}

/// c) a manifest write fails (for the record of a flush or of a compaction).
#[test]
fn a8c_failed_manifest_write_then_reopen() {
    for skip in [0u64, 1, 2, 3, 5, 8] {
        let _serial = serial();
        let root = scratch_dir("a8c-db");
        let images = scratch_dir("a8c-img");
        let state = SpyState::new(&root, &images);
        let mut acked = BTreeMap::new();
        {
            let db = DB::open(options(&root, spy_fs(&state), TINY, true)).unwrap();
            assert!(!write_until_error(&db, &mut acked, 1));
            assert!(quiesce(&db));
            state.fail(&format!("write {}", root.join("MANIFEST-").display()), skip, 1);
            assert!(
                write_until_error(&db, &mut acked, 1000),
                "the injected failure was not hit"
            );
            assert!(db.verif_probe().bad_state.is_some());
        }
        reopen_after_fault(
            &root,
            &acked,
            &format!("manifest write #{skip} after arming failed"),
        );
    }
}

// ------------------------------------------------------------------------------------------------
// Attack 9: recovery that has to cut one log into many tables (memtable limit lowered between two
// lives), then compacts them.
// ------------------------------------------------------------------------------------------------

#[test]
fn a9_recovery_with_many_flushes_from_one_log() {
    let _serial = serial();
    for reuse in [true, false] {
        let root = scratch_dir("a9");
        let big = Sizes {
            memtable: 1 << 20,
            file: 2000,
            block: 256,
        };
        {
            let db = DB::open(options(&root, os_fs(), big, reuse)).unwrap();
            for index in 0..200 {
                db.put(WriteOptions::default(), key(index), value(1, 300))
                    .unwrap();
            }
        }
        let db = DB::open(options(&root, os_fs(), TINY, reuse)).unwrap();
        assert!(quiesce(&db));
        let problems = audit_directory(&db, &root);
        assert!(problems.is_empty(), "reuse_log_files={reuse}: {problems:#?}");
        for index in 0..200 {
            assert_eq!(get_version(&db, &key(index)).unwrap(), Some(1));
        }
    }
}

// ------------------------------------------------------------------------------------------------
// Attack 10: what a live snapshot can see must survive any number of compactions.
// ------------------------------------------------------------------------------------------------

#[test]
fn a10_snapshot_contents_survive_compactions() {
    let _serial = serial();
    let root = scratch_dir("a10");
    let db = DB::open(options(&root, os_fs(), TINY, true)).unwrap();
    load_and_compact(&db, 0..50, 1);
    let snapshot = db.get_snapshot();
    for round in 2..5 {
        load_and_compact(&db, 0..50, round);
        for index in (0..50).step_by(3) {
            db.delete(WriteOptions::default(), key(index)).unwrap();
        }
        db.compact_range(None..None);
    }
    for index in 0..50 {
        let read = db.get(
            ReadOptions {
                fill_cache: true,
                snapshot: Some(snapshot.clone()),
            },
            &key(index),
        );
        match read {
            Ok(value) => assert_eq!(version_of(&value), 1),
            Err(err) => panic!("key {index} is not readable through the snapshot: {err}"),
        }
    }
    db.release_snapshot(snapshot);
    db.compact_range(None..None);
    assert!(quiesce(&db));
    let problems = audit_directory(&db, &root);
    assert!(problems.is_empty(), "{problems:#?}");
}

// ------------------------------------------------------------------------------------------------
// Attack 4b: the same as attack 4 without any iterator: a single point read that overlaps the end
// of a compaction is enough to strand the inputs of that compaction on disk.
// ------------------------------------------------------------------------------------------------

#[test]
fn a4b_tables_released_by_a_point_read_are_reclaimed() {
    let _serial = serial();
    let hooks = install_hooks();
    let _guard = HookGuard(hooks.clone());
    let root = scratch_dir("a4b");
    let db = Arc::new(DB::open(options(&root, os_fs(), TINY, true)).unwrap());

    load_and_compact(&db, 0..40, 1);
    hooks.hold("get.before_tables");
    let reader = {
        let db = Arc::clone(&db);
        std::thread::spawn(move || db.get(ReadOptions::default(), &key(7)))
    };
    assert!(hooks.wait_parked("get.before_tables", Duration::from_secs(30)));
    load_and_compact(&db, 0..40, 2);
    hooks.release("get.before_tables");
    assert_eq!(version_of(&reader.join().unwrap().unwrap()), 1);

    assert!(quiesce(&db));
    let problems = audit_directory(&db, &root);
    let still_there_after_close = {
        let expected: BTreeSet<String> = db
            .verif_files()
            .iter()
            .map(|file| format!("{}.rdb", file.number))
            .collect();
        drop(Arc::try_unwrap(db).ok().unwrap());
        let on_disk = file_names(&root.join("data"));
        on_disk.difference(&expected).cloned().collect::<Vec<String>>()
    };
    assert!(
        problems.is_empty(),
        "compactions are quiescent, no snapshot or iterator exists and the only point read has \
        returned, the directory must hold exactly the files of the current state, but: \
        {problems:#?}; dead tables still on disk after closing the database: \
        {still_there_after_close:?}"
    );
}
