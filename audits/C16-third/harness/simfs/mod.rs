//! A small in-memory file system with POSIX-like semantics (one cursor per handle, O_APPEND
//! handles, pread) that can "crash" at a chosen mutating operation, leaving only a prefix of the
//! bytes of that write in the file. After the crash every mutating call fails; `reboot` hands out
//! a fresh file system holding the bytes that were "on disk" at the moment of the crash.
#![allow(dead_code)]

use std::collections::{BTreeMap, BTreeSet};
use std::io::{self, Read, Seek, SeekFrom, Write};
use std::path::{Path, PathBuf};
use std::sync::{Arc, Mutex};

use raindb::fs::{FileLock, FileSystem, RandomAccessFile, ReadonlyRandomAccessFile};
use raindb::verif::UnlockableFile;

type FileData = Arc<Mutex<Vec<u8>>>;

#[derive(Clone, Copy, Debug, PartialEq, Eq)]
pub enum Cut {
    /// Nothing of the write reaches the file.
    Zero,
    /// One byte.
    One,
    /// Half of the bytes.
    Half,
    /// All but the last byte.
    AllButOne,
    /// Everything (the crash hits right after the write).
    All,
    /// Exactly this many bytes (capped at len).
    Exactly(usize),
}

impl Cut {
    pub fn bytes(&self, len: usize) -> usize {
        match self {
            Cut::Zero => 0,
            Cut::One => 1.min(len),
            Cut::Half => len / 2,
            Cut::AllButOne => len.saturating_sub(1),
            Cut::All => len,
            Cut::Exactly(n) => (*n).min(len),
        }
    }
}

#[derive(Clone, Debug)]
pub struct TraceEntry {
    pub kind: &'static str,
    pub path: PathBuf,
    pub len: usize,
    pub offset: usize,
}

pub struct State {
    pub files: BTreeMap<PathBuf, FileData>,
    pub locked: BTreeSet<PathBuf>,
    pub ops: u64,
    pub crash_at: Option<(u64, Cut)>,
    pub crashed: bool,
    pub crash_info: Option<TraceEntry>,
    pub disk_at_crash: Option<BTreeMap<PathBuf, Vec<u8>>>,
    pub trace: Vec<TraceEntry>,
    pub keep_trace: bool,
}

#[derive(Clone)]
pub struct SimFs {
    pub st: Arc<Mutex<State>>,
}

fn dead() -> io::Error {
    io::Error::new(io::ErrorKind::Other, "simfs: the machine has crashed")
}

impl SimFs {
    pub fn new() -> SimFs {
        SimFs::from_disk(BTreeMap::new())
    }

    pub fn from_disk(disk: BTreeMap<PathBuf, Vec<u8>>) -> SimFs {
        let files = disk
            .into_iter()
            .map(|(p, d)| (p, Arc::new(Mutex::new(d))))
            .collect();
        SimFs {
            st: Arc::new(Mutex::new(State {
                files,
                locked: BTreeSet::new(),
                ops: 0,
                crash_at: None,
                crashed: false,
                crash_info: None,
                disk_at_crash: None,
                trace: vec![],
                keep_trace: false,
            })),
        }
    }

    pub fn set_crash(&self, at: Option<(u64, Cut)>) {
        self.st.lock().unwrap().crash_at = at;
    }

    pub fn crashed(&self) -> bool {
        self.st.lock().unwrap().crashed
    }

    pub fn ops(&self) -> u64 {
        self.st.lock().unwrap().ops
    }

    pub fn crash_info(&self) -> Option<TraceEntry> {
        self.st.lock().unwrap().crash_info.clone()
    }

    /// Deep copy of the current contents.
    pub fn disk(&self) -> BTreeMap<PathBuf, Vec<u8>> {
        let st = self.st.lock().unwrap();
        if let Some(d) = &st.disk_at_crash {
            return d.clone();
        }
        st.files
            .iter()
            .map(|(p, d)| (p.clone(), d.lock().unwrap().clone()))
            .collect()
    }

    /// A fresh file system with what was on disk at the crash (or now, if there was no crash).
    pub fn reboot(&self) -> SimFs {
        SimFs::from_disk(self.disk())
    }

    pub fn file_len(&self, path: &Path) -> Option<usize> {
        let st = self.st.lock().unwrap();
        st.files.get(path).map(|d| d.lock().unwrap().len())
    }

    pub fn list_all(&self) -> Vec<(PathBuf, usize)> {
        self.disk().into_iter().map(|(p, d)| (p, d.len())).collect()
    }
}

impl State {
    /// Account for a mutating operation. Returns Err if the machine is (or becomes) dead;
    /// for writes, returns how many bytes should reach the file (Some(n) means: write n bytes and
    /// then die).
    fn mutating(
        &mut self,
        kind: &'static str,
        path: &Path,
        len: usize,
        offset: usize,
    ) -> Result<Option<usize>, io::Error> {
        if self.crashed {
            return Err(dead());
        }
        let idx = self.ops;
        self.ops += 1;
        let entry = TraceEntry {
            kind,
            path: path.to_path_buf(),
            len,
            offset,
        };
        if self.keep_trace {
            self.trace.push(entry.clone());
        }
        if let Some((at, cut)) = self.crash_at {
            if at == idx {
                self.crash_info = Some(entry);
                if kind == "write" {
                    return Ok(Some(cut.bytes(len)));
                }
                // A crash at a metadata operation: the operation does not happen
                self.die();
                return Err(dead());
            }
        }
        Ok(None)
    }

    fn die(&mut self) {
        self.crashed = true;
        let disk = self
            .files
            .iter()
            .map(|(p, d)| (p.clone(), d.lock().unwrap().clone()))
            .collect();
        self.disk_at_crash = Some(disk);
    }
}

pub struct Handle {
    st: Arc<Mutex<State>>,
    path: PathBuf,
    data: FileData,
    cursor: u64,
    append: bool,
    writable: bool,
}

impl Handle {
    fn do_write(&mut self, buf: &[u8], at_end: bool) -> io::Result<usize> {
        if !self.writable {
            return Err(io::Error::new(io::ErrorKind::PermissionDenied, "read-only"));
        }
        if buf.is_empty() {
            return Ok(0);
        }
        let mut st = self.st.lock().unwrap();
        let mut data = self.data.lock().unwrap();
        let pos = if at_end || self.append {
            data.len()
        } else {
            self.cursor as usize
        };
        let verdict = st.mutating("write", &self.path, buf.len(), pos)?;
        let n = verdict.unwrap_or(buf.len());
        if pos > data.len() {
            data.resize(pos, 0);
        }
        let end = pos + n;
        if end > data.len() {
            data.resize(end, 0);
        }
        data[pos..end].copy_from_slice(&buf[..n]);
        self.cursor = end as u64;
        if verdict.is_some() {
            drop(data);
            st.die();
            return Err(dead());
        }
        Ok(n)
    }
}

impl Read for Handle {
    fn read(&mut self, buf: &mut [u8]) -> io::Result<usize> {
        let data = self.data.lock().unwrap();
        let pos = (self.cursor as usize).min(data.len());
        let n = buf.len().min(data.len() - pos);
        buf[..n].copy_from_slice(&data[pos..pos + n]);
        self.cursor = (pos + n) as u64;
        Ok(n)
    }
}

impl Write for Handle {
    fn write(&mut self, buf: &[u8]) -> io::Result<usize> {
        self.do_write(buf, false)
    }

    fn flush(&mut self) -> io::Result<()> {
        if self.st.lock().unwrap().crashed {
            return Err(dead());
        }
        Ok(())
    }
}

impl Seek for Handle {
    fn seek(&mut self, pos: SeekFrom) -> io::Result<u64> {
        let len = self.data.lock().unwrap().len() as i64;
        let new = match pos {
            SeekFrom::Start(o) => o as i64,
            SeekFrom::Current(o) => self.cursor as i64 + o,
            SeekFrom::End(o) => len + o,
        };
        if new < 0 {
            return Err(io::Error::new(io::ErrorKind::InvalidInput, "negative seek"));
        }
        self.cursor = new as u64;
        Ok(self.cursor)
    }
}

impl ReadonlyRandomAccessFile for Handle {
    fn read_from(&self, buf: &mut [u8], offset: usize) -> io::Result<usize> {
        let data = self.data.lock().unwrap();
        let pos = offset.min(data.len());
        let n = buf.len().min(data.len() - pos);
        buf[..n].copy_from_slice(&data[pos..pos + n]);
        Ok(n)
    }

    fn len(&self) -> io::Result<u64> {
        Ok(self.data.lock().unwrap().len() as u64)
    }
}

impl RandomAccessFile for Handle {
    fn append(&mut self, buf: &[u8]) -> io::Result<usize> {
        self.do_write(buf, true)
    }
}

struct LockHandle {
    st: Arc<Mutex<State>>,
    path: PathBuf,
}

impl UnlockableFile for LockHandle {
    fn unlock(&self) -> io::Result<()> {
        self.st.lock().unwrap().locked.remove(&self.path);
        Ok(())
    }
}

fn not_found(path: &Path) -> io::Error {
    io::Error::new(
        io::ErrorKind::NotFound,
        format!("simfs: no such file {:?}", path),
    )
}

impl FileSystem for SimFs {
    fn get_name(&self) -> String {
        "SimFs".to_string()
    }

    fn create_dir(&self, _path: &Path) -> io::Result<()> {
        Ok(())
    }

    fn create_dir_all(&self, _path: &Path) -> io::Result<()> {
        Ok(())
    }

    fn list_dir(&self, path: &Path) -> io::Result<Vec<PathBuf>> {
        let st = self.st.lock().unwrap();
        let mut out: BTreeSet<PathBuf> = BTreeSet::new();
        for key in st.files.keys() {
            if let Ok(rest) = key.strip_prefix(path) {
                if let Some(first) = rest.components().next() {
                    out.insert(path.join(first));
                }
            }
        }
        Ok(out.into_iter().collect())
    }

    fn open_file(&self, path: &Path) -> io::Result<Box<dyn ReadonlyRandomAccessFile>> {
        let st = self.st.lock().unwrap();
        match st.files.get(path) {
            Some(data) => Ok(Box::new(Handle {
                st: Arc::clone(&self.st),
                path: path.to_path_buf(),
                data: Arc::clone(data),
                cursor: 0,
                append: false,
                writable: false,
            })),
            None => Err(not_found(path)),
        }
    }

    fn rename(&self, from: &Path, to: &Path) -> io::Result<()> {
        let mut st = self.st.lock().unwrap();
        if !st.files.contains_key(from) {
            return Err(not_found(from));
        }
        st.mutating("rename", from, 0, 0)?;
        let file = st.files.remove(from).unwrap();
        st.files.insert(to.to_path_buf(), file);
        Ok(())
    }

    fn create_file(&self, path: &Path, append: bool) -> io::Result<Box<dyn RandomAccessFile>> {
        let mut st = self.st.lock().unwrap();
        let exists = st.files.contains_key(path);
        if !(exists && append) {
            // creation or truncation changes the disk
            st.mutating(if exists { "truncate" } else { "create" }, path, 0, 0)?;
            st.files
                .insert(path.to_path_buf(), Arc::new(Mutex::new(Vec::new())));
        } else if st.crashed {
            return Err(dead());
        }
        let data = Arc::clone(st.files.get(path).unwrap());
        Ok(Box::new(Handle {
            st: Arc::clone(&self.st),
            path: path.to_path_buf(),
            data,
            cursor: 0,
            append,
            writable: true,
        }))
    }

    fn remove_file(&self, path: &Path) -> io::Result<()> {
        let mut st = self.st.lock().unwrap();
        if !st.files.contains_key(path) {
            return Err(not_found(path));
        }
        st.mutating("remove", path, 0, 0)?;
        st.files.remove(path);
        Ok(())
    }

    fn remove_dir(&self, _path: &Path) -> io::Result<()> {
        Ok(())
    }

    fn remove_dir_all(&self, path: &Path) -> io::Result<()> {
        let mut st = self.st.lock().unwrap();
        if st.crashed {
            return Err(dead());
        }
        let victims: Vec<PathBuf> = st
            .files
            .keys()
            .filter(|k| k.starts_with(path))
            .cloned()
            .collect();
        for v in victims {
            st.files.remove(&v);
        }
        Ok(())
    }

    fn get_file_size(&self, path: &Path) -> io::Result<u64> {
        let st = self.st.lock().unwrap();
        match st.files.get(path) {
            Some(d) => Ok(d.lock().unwrap().len() as u64),
            None => Err(not_found(path)),
        }
    }

    fn is_dir(&self, path: &Path) -> io::Result<bool> {
        let st = self.st.lock().unwrap();
        if st.files.contains_key(path) {
            return Ok(false);
        }
        Ok(st.files.keys().any(|k| k.starts_with(path)))
    }

    fn lock_file(&self, path: &Path) -> io::Result<FileLock> {
        let mut st = self.st.lock().unwrap();
        if st.crashed {
            return Err(dead());
        }
        if st.locked.contains(path) {
            return Err(io::Error::new(
                io::ErrorKind::WouldBlock,
                "simfs: the lock is already held",
            ));
        }
        if !st.files.contains_key(path) {
            st.files
                .insert(path.to_path_buf(), Arc::new(Mutex::new(Vec::new())));
        }
        st.locked.insert(path.to_path_buf());
        Ok(FileLock::new(Box::new(LockHandle {
            st: Arc::clone(&self.st),
            path: path.to_path_buf(),
        })))
    }
}
