// Scratch sweep harness for C16 (not the deliverable).
// cargo test --offline --features verif --test audit_sweep -- --nocapture
mod simfs;

use std::collections::BTreeMap;
use std::sync::Arc;
use std::time::{Duration, Instant};

use raindb::{Batch, DbOptions, RainDbIterator, ReadOptions, WriteOptions, DB};
use simfs::{Cut, SimFs};

type Model = BTreeMap<Vec<u8>, Vec<u8>>;

#[derive(Clone, Debug)]
enum W {
    Put(Vec<u8>, Vec<u8>),
    Del(Vec<u8>),
}

#[derive(Clone, Debug)]
enum Op {
    Write(Vec<W>),
    /// Clean close and reopen with this reuse setting
    Reopen(bool),
    WaitIdle,
    CompactAll,
    /// Pad the current WAL with one put so that its length mod 32768 becomes this value
    PadWalTo(usize),
}

#[derive(Clone, Debug)]
struct Cfg {
    memtable: usize,
    file_size: u64,
    block: usize,
    reuse0: bool,
}

#[derive(Clone, Copy, Debug, PartialEq, Eq)]
enum Status {
    Acked,
    Maybe,
}

struct Hist {
    entries: Vec<(Vec<W>, Status)>,
    /// allowed assignments of the Maybe entries (bit i = i-th maybe applied)
    allowed: Vec<u32>,
    maybes: usize,
}

impl Hist {
    fn new() -> Hist {
        Hist {
            entries: vec![],
            allowed: vec![0],
            maybes: 0,
        }
    }
    fn ack(&mut self, w: Vec<W>) {
        self.entries.push((w, Status::Acked));
    }
    fn maybe(&mut self, w: Vec<W>) {
        self.entries.push((w, Status::Maybe));
        let bit = 1u32 << self.maybes;
        self.maybes += 1;
        let mut more: Vec<u32> = self.allowed.iter().map(|a| a | bit).collect();
        self.allowed.append(&mut more);
    }
    fn model_for(&self, assignment: u32) -> Model {
        let mut m = Model::new();
        let mut k = 0;
        for (ws, st) in &self.entries {
            let apply = match st {
                Status::Acked => true,
                Status::Maybe => {
                    let b = assignment & (1 << k) != 0;
                    k += 1;
                    b
                }
            };
            if apply {
                for w in ws {
                    match w {
                        W::Put(k, v) => {
                            m.insert(k.clone(), v.clone());
                        }
                        W::Del(k) => {
                            m.remove(k);
                        }
                    }
                }
            }
        }
        m
    }
    /// Narrow the allowed assignments to those that explain the observed state.
    fn observe(&mut self, seen: &Model) -> Result<(), String> {
        let ok: Vec<u32> = self
            .allowed
            .iter()
            .cloned()
            .filter(|a| &self.model_for(*a) == seen)
            .collect();
        if ok.is_empty() {
            let want = self.model_for(self.allowed[0]);
            let mut diff = vec![];
            for (k, v) in &want {
                match seen.get(k) {
                    None => diff.push(format!("missing {:?} (want len {})", sk(k), v.len())),
                    Some(s) if s != v => diff.push(format!(
                        "wrong {:?} (want len {} tag {:?}, got len {} tag {:?})",
                        sk(k),
                        v.len(),
                        &v[..v.len().min(6)],
                        s.len(),
                        &s[..s.len().min(6)]
                    )),
                    _ => {}
                }
            }
            for k in seen.keys() {
                if !want.contains_key(k) {
                    diff.push(format!("extra {:?}", sk(k)));
                }
            }
            return Err(format!(
                "state explained by no allowed assignment ({} allowed, {} maybes); vs first allowed: {}",
                self.allowed.len(),
                self.maybes,
                diff.join("; ")
            ));
        }
        self.allowed = ok;
        Ok(())
    }
}

fn sk(k: &[u8]) -> String {
    let s = String::from_utf8_lossy(&k[..k.len().min(12)]).to_string();
    format!("{}(len {})", s, k.len())
}

fn base_options() -> DbOptions {
    // DbOptions::default() is slow (it reserves an 8M-entry block cache) so keep one per thread,
    // but renew it now and then: that cache never evicts anything at these sizes.
    thread_local! {
        static BASE: std::cell::RefCell<(u32, Option<DbOptions>)> = std::cell::RefCell::new((0, None));
    }
    BASE.with(|b| {
        let mut b = b.borrow_mut();
        b.0 += 1;
        if b.1.is_none() || b.0 % 1500 == 0 {
            b.1 = None;
            b.1 = Some(DbOptions::default());
        }
        b.1.as_ref().unwrap().clone()
    })
}

fn options(fs: &SimFs, cfg: &Cfg, reuse: bool) -> DbOptions {
    DbOptions {
        db_path: "/db".to_string(),
        max_memtable_size: cfg.memtable,
        max_file_size: cfg.file_size,
        max_block_size: cfg.block,
        filesystem_provider: Arc::new(fs.clone()),
        create_if_missing: true,
        reuse_log_files: reuse,
        ..base_options()
    }
}

fn wait_idle(db: &DB, fs: &SimFs) {
    let start = Instant::now();
    loop {
        let p = db.verif_probe();
        if !p.background_compaction_scheduled && !p.has_immutable_memtable {
            return;
        }
        if fs.crashed() || p.bad_state.is_some() {
            return;
        }
        if start.elapsed() > Duration::from_secs(10) {
            panic!("wait_idle timed out: {:?}", p);
        }
        std::thread::sleep(Duration::from_micros(200));
    }
}

fn to_batch(ws: &[W]) -> Batch {
    let mut b = Batch::new();
    for w in ws {
        match w {
            W::Put(k, v) => {
                b.add_put(k.clone(), v.clone());
            }
            W::Del(k) => {
                b.add_delete(k.clone());
            }
        }
    }
    b
}

fn scan(db: &DB) -> Result<Model, String> {
    let mut it = db
        .new_iterator(ReadOptions::default())
        .map_err(|e| format!("new_iterator: {e}"))?;
    it.seek_to_first().map_err(|e| format!("seek_to_first: {e}"))?;
    let mut m = Model::new();
    while it.is_valid() {
        let (k, v) = it.current().unwrap();
        m.insert(k.clone(), v.clone());
        it.next();
    }
    if let Some(e) = it.status() {
        return Err(format!("iterator status: {e}"));
    }
    Ok(m)
}

fn verify(db: &DB, hist: &mut Hist, universe: &[Vec<u8>], what: &str) -> Result<(), String> {
    let seen = scan(db).map_err(|e| format!("{what}: {e}"))?;
    for k in universe {
        let g = match db.get(ReadOptions::default(), k) {
            Ok(v) => Some(v),
            Err(raindb::RainDBError::KeyNotFound) => None,
            Err(e) => return Err(format!("{what}: get {:?}: {e}", sk(k))),
        };
        if g.as_ref() != seen.get(k) {
            return Err(format!(
                "{what}: get and scan disagree on {:?}: get {:?} scan {:?}",
                sk(k),
                g.map(|v| v.len()),
                seen.get(k).map(|v| v.len())
            ));
        }
    }
    hist.observe(&seen).map_err(|e| format!("{what}: {e}"))
}

fn current_wal_len(fs: &SimFs, _db: &DB) -> usize {
    // the WAL with the largest number
    let mut best: Option<(u64, usize)> = None;
    for (p, len) in fs.list_all() {
        let name = p.file_name().unwrap().to_string_lossy().to_string();
        if let Some(rest) = name.strip_prefix("wal-") {
            if let Some(num) = rest.strip_suffix(".log") {
                let n: u64 = num.parse().unwrap();
                if best.map_or(true, |(b, _)| n > b) {
                    best = Some((n, len));
                }
            }
        }
    }
    best.map(|(_, l)| l).unwrap_or(0)
}

enum PhaseEnd {
    Done,
    Crashed,
}

/// Run `ops` on `fs`. Stops at the first sign of the crash.
fn run_ops(
    fs: &SimFs,
    cfg: &Cfg,
    first_reuse: bool,
    ops: &[Op],
    hist: &mut Hist,
    universe: &[Vec<u8>],
    verify_at_open: bool,
    tag: &str,
) -> Result<PhaseEnd, String> {
    let mut reuse = first_reuse;
    let mut db = match DB::open(options(fs, cfg, reuse)) {
        Ok(db) => db,
        Err(e) => {
            if fs.crashed() {
                return Ok(PhaseEnd::Crashed);
            }
            return Err(format!("{tag}: open failed: {e}"));
        }
    };
    if verify_at_open {
        if fs.crashed() {
            return Ok(PhaseEnd::Crashed);
        }
        verify(&db, hist, universe, &format!("{tag}: after open(reuse={reuse})"))?;
    }
    for (i, op) in ops.iter().enumerate() {
        if fs.crashed() {
            drop(db);
            return Ok(PhaseEnd::Crashed);
        }
        match op {
            Op::Write(ws) => match db.apply(WriteOptions::default(), to_batch(ws)) {
                Ok(()) => hist.ack(ws.clone()),
                Err(e) => {
                    if fs.crashed() {
                        hist.maybe(ws.clone());
                        drop(db);
                        return Ok(PhaseEnd::Crashed);
                    }
                    return Err(format!("{tag}: op {i}: write failed without a crash: {e}"));
                }
            },
            Op::PadWalTo(target) => {
                let len = current_wal_len(fs, &db) % 32768;
                // a put of key "pad" with value of length L costs 7 + 12 + 1 + 1 + 3 + varint(L) + L
                let base = 7 + 12 + 1 + 1 + 3 - 3;
                let mut want = (*target + 32768 - len) % 32768;
                if want < base + 2 {
                    want += 32768; // will span blocks; not exact then, fine
                }
                let mut l = want - base - 1;
                if l >= 128 {
                    l -= 1;
                }
                if l >= 16384 {
                    l -= 1;
                }
                let ws = vec![W::Put(b"pad".to_vec(), vec![b'p'; l])];
                match db.apply(WriteOptions::default(), to_batch(&ws)) {
                    Ok(()) => {
                        if std::env::var("PADCHECK").is_ok() {
                            println!("pad target {} got {}", target % 32768, current_wal_len(fs, &db) % 32768);
                        }
                        hist.ack(ws)
                    }
                    Err(e) => {
                        if fs.crashed() {
                            hist.maybe(ws);
                            drop(db);
                            return Ok(PhaseEnd::Crashed);
                        }
                        return Err(format!("{tag}: op {i}: pad failed without a crash: {e}"));
                    }
                }
            }
            Op::Reopen(r) => {
                wait_idle(&db, fs);
                drop(db);
                if fs.crashed() {
                    return Ok(PhaseEnd::Crashed);
                }
                reuse = *r;
                db = match DB::open(options(fs, cfg, reuse)) {
                    Ok(db) => db,
                    Err(e) => {
                        if fs.crashed() {
                            return Ok(PhaseEnd::Crashed);
                        }
                        return Err(format!("{tag}: op {i}: clean reopen failed: {e}"));
                    }
                };
                if fs.crashed() {
                    drop(db);
                    return Ok(PhaseEnd::Crashed);
                }
                if verify_at_open {
                    verify(
                        &db,
                        hist,
                        universe,
                        &format!("{tag}: op {i}: after clean reopen(reuse={reuse})"),
                    )
                    .or_else(|e| if fs.crashed() { Ok(()) } else { Err(e) })?;
                }
            }
            Op::WaitIdle => wait_idle(&db, fs),
            Op::CompactAll => {
                db.compact_range(None..None);
                wait_idle(&db, fs);
            }
        }
    }
    wait_idle(&db, fs);
    drop(db);
    if fs.crashed() {
        return Ok(PhaseEnd::Crashed);
    }
    Ok(PhaseEnd::Done)
}

/// The operations run after each crash.
fn recovery_ops(round: usize, reuse_after: bool) -> Vec<Op> {
    let r = round as u8;
    vec![
        Op::Write(vec![W::Put(
            format!("post{round}-a").into_bytes(),
            vec![b'A' + r; 40],
        )]),
        Op::Write(vec![
            W::Put(b"k01".to_vec(), vec![b'R' + r; 300]),
            W::Del(b"k02".to_vec()),
        ]),
        Op::Write(vec![W::Put(
            format!("post{round}-b").into_bytes(),
            vec![b'B' + r; 3000],
        )]),
        Op::Reopen(reuse_after),
        Op::Write(vec![W::Put(
            format!("post{round}-c").into_bytes(),
            vec![b'C' + r; 10],
        )]),
        Op::Reopen(!reuse_after),
    ]
}

struct Failure {
    crashes: Vec<(u64, Cut)>,
    infos: Vec<String>,
    msg: String,
}

/// One complete run: scenario with crashes at the given points (one per phase).
/// Returns Ok(ops per phase) or the failure.
fn run_once(
    cfg: &Cfg,
    scenario: &[Op],
    universe: &[Vec<u8>],
    crashes: &[(u64, Cut)],
    reuse_after: bool,
) -> Result<Vec<u64>, Failure> {
    let mut hist = Hist::new();
    let mut fs = SimFs::new();
    let mut infos = vec![];
    let mut counts = vec![];
    let mut phase = 0usize;
    loop {
        let crash = crashes.get(phase).cloned();
        fs.set_crash(crash);
        let ops: Vec<Op> = if phase == 0 {
            scenario.to_vec()
        } else {
            recovery_ops(phase, if phase % 2 == 1 { reuse_after } else { !reuse_after })
        };
        let first_reuse = if phase == 0 { cfg.reuse0 } else if phase % 2 == 1 { reuse_after } else { !reuse_after };
        let res = std::panic::catch_unwind(std::panic::AssertUnwindSafe(|| {
            run_ops(
                &fs,
                cfg,
                first_reuse,
                &ops,
                &mut hist,
                universe,
                true,
                &format!("phase {phase}"),
            )
        }));
        counts.push(fs.ops());
        let fail = |msg: String, infos: &Vec<String>| Failure {
            crashes: crashes.to_vec(),
            infos: infos.clone(),
            msg,
        };
        match res {
            Err(p) => {
                let s = if let Some(s) = p.downcast_ref::<String>() {
                    s.clone()
                } else if let Some(s) = p.downcast_ref::<&str>() {
                    s.to_string()
                } else {
                    "panic".to_string()
                };
                return Err(fail(format!("phase {phase}: PANIC: {s}"), &infos));
            }
            Ok(Err(msg)) => return Err(fail(msg, &infos)),
            Ok(Ok(PhaseEnd::Done)) => {
                if crash.is_some() && !fs.crashed() {
                    // crash point beyond the end of this phase
                }
                return Ok(counts);
            }
            Ok(Ok(PhaseEnd::Crashed)) => {
                infos.push(format!("{:?}", fs.crash_info()));
                fs = fs.reboot();
                phase += 1;
                if phase > crashes.len() + 1 {
                    return Err(fail("too many phases".into(), &infos));
                }
            }
        }
    }
}

struct Rng(u64);
impl Rng {
    fn next(&mut self) -> u64 {
        self.0 ^= self.0 << 13;
        self.0 ^= self.0 >> 7;
        self.0 ^= self.0 << 17;
        self.0
    }
    fn below(&mut self, n: u64) -> u64 {
        self.next() % n
    }
}

fn key(i: u64) -> Vec<u8> {
    format!("k{:02}", i).into_bytes()
}

fn random_scenario(seed: u64, nops: usize, nkeys: u64, big: bool) -> (Vec<Op>, Vec<Vec<u8>>) {
    let mut rng = Rng(seed.wrapping_mul(0x9E3779B97F4A7C15) | 1);
    let mut ops = vec![];
    let mut ctr = 0u32;
    for _ in 0..nops {
        let r = rng.below(100);
        if r < 70 {
            let n = 1 + rng.below(3);
            let mut ws = vec![];
            for _ in 0..n {
                let k = key(rng.below(nkeys));
                if rng.below(5) == 0 {
                    ws.push(W::Del(k));
                } else {
                    ctr += 1;
                    let len = match rng.below(10) {
                        0 => 0,
                        1..=5 => rng.below(100) as usize,
                        6..=8 => 200 + rng.below(2000) as usize,
                        _ => {
                            if big {
                                20000 + rng.below(60000) as usize
                            } else {
                                3000
                            }
                        }
                    };
                    let mut v = ctr.to_le_bytes().to_vec();
                    v.resize(len.max(4), b'v');
                    ws.push(W::Put(k, v));
                }
            }
            ops.push(Op::Write(ws));
        } else if r < 80 {
            ops.push(Op::Reopen(rng.below(2) == 0));
        } else if r < 88 {
            ops.push(Op::WaitIdle);
        } else if r < 92 {
            ops.push(Op::CompactAll);
        } else {
            ops.push(Op::PadWalTo(32768 - rng.below(9) as usize));
        }
    }
    let mut universe: Vec<Vec<u8>> = (0..nkeys).map(key).collect();
    universe.push(b"pad".to_vec());
    for r in 1..4 {
        for s in ["a", "b", "c"] {
            universe.push(format!("post{r}-{s}").into_bytes());
        }
    }
    (ops, universe)
}

fn cuts() -> Vec<Cut> {
    vec![Cut::Zero, Cut::One, Cut::Half, Cut::AllButOne, Cut::All]
}

fn sweep_single(cfg: &Cfg, scenario: &[Op], universe: &[Vec<u8>], label: &str) -> (u64, Vec<Failure>) {
    let mut failures = vec![];
    let base = match run_once(cfg, scenario, universe, &[], true) {
        Ok(c) => c[0],
        Err(f) => {
            println!("{label}: BASELINE FAILED: {}", f.msg);
            failures.push(f);
            return (0, failures);
        }
    };
    let mut jobs = vec![];
    for at in 0..base {
        for cut in cuts() {
            for reuse_after in [true, false] {
                jobs.push((at, cut, reuse_after));
            }
        }
    }
    let runs = jobs.len() as u64;
    let next = std::sync::atomic::AtomicUsize::new(0);
    let fails = std::sync::Mutex::new(vec![]);
    std::thread::scope(|sc| {
        for _ in 0..env_u64("THREADS", 24) {
            sc.spawn(|| loop {
                let i = next.fetch_add(1, std::sync::atomic::Ordering::SeqCst);
                if i >= jobs.len() {
                    break;
                }
                let (at, cut, reuse_after) = jobs[i];
                if let Err(f) = run_once(cfg, scenario, universe, &[(at, cut)], reuse_after) {
                    println!(
                        "{label}: FAIL crash@{at} {:?} reuse_after={reuse_after}: {} || {:?}",
                        cut, f.msg, f.infos
                    );
                    fails.lock().unwrap().push(f);
                }
            });
        }
    });
    failures.append(&mut fails.lock().unwrap());
    (runs, failures)
}

fn sweep_double(
    cfg: &Cfg,
    scenario: &[Op],
    universe: &[Vec<u8>],
    label: &str,
    stride: u64,
) -> (u64, Vec<Failure>) {
    let mut failures = vec![];
    let base = match run_once(cfg, scenario, universe, &[], true) {
        Ok(c) => c[0],
        Err(f) => {
            failures.push(f);
            return (0, failures);
        }
    };
    let mut firsts = vec![];
    let mut at = 0;
    while at < base {
        for cut in [Cut::Half, Cut::All] {
            for reuse_after in [true, false] {
                firsts.push((at, cut, reuse_after));
            }
        }
        at += stride;
    }
    let next = std::sync::atomic::AtomicUsize::new(0);
    let runs = std::sync::atomic::AtomicU64::new(0);
    let fails = std::sync::Mutex::new(vec![]);
    std::thread::scope(|sc| {
        for _ in 0..env_u64("THREADS", 16) {
            sc.spawn(|| loop {
                let i = next.fetch_add(1, std::sync::atomic::Ordering::SeqCst);
                if i >= firsts.len() {
                    break;
                }
                let (at, cut, reuse_after) = firsts[i];
                let n2 = match run_once(cfg, scenario, universe, &[(at, cut)], reuse_after) {
                    Ok(c) => {
                        if c.len() > 1 {
                            c[1]
                        } else {
                            0
                        }
                    }
                    Err(_) => 0,
                };
                for at2 in 0..n2 {
                    for cut2 in [Cut::Zero, Cut::One, Cut::Half, Cut::AllButOne] {
                        runs.fetch_add(1, std::sync::atomic::Ordering::SeqCst);
                        if let Err(f) = run_once(
                            cfg,
                            scenario,
                            universe,
                            &[(at, cut), (at2, cut2)],
                            reuse_after,
                        ) {
                            println!(
                                "{label}: FAIL crash@{at} {:?} then @{at2} {:?} reuse_after={reuse_after}: {} || {:?}",
                                cut, cut2, f.msg, f.infos
                            );
                            fails.lock().unwrap().push(f);
                        }
                    }
                }
            });
        }
    });
    failures.append(&mut fails.lock().unwrap());
    (runs.load(std::sync::atomic::Ordering::SeqCst), failures)
}

fn env_u64(name: &str, default: u64) -> u64 {
    std::env::var(name)
        .ok()
        .and_then(|s| s.parse().ok())
        .unwrap_or(default)
}

#[test]
fn random_single_crash_sweep() {
    let seeds = env_u64("SEEDS", 6);
    let seed0 = env_u64("SEED0", 1);
    let nops = env_u64("NOPS", 25) as usize;
    let mut total = 0;
    let mut nfail = 0;
    for seed in seed0..seed0 + seeds {
        let mut rng = Rng(seed * 7919 + 13);
        let cfg = Cfg {
            memtable: [600usize, 2000, 8000, 100_000][rng.below(4) as usize],
            file_size: [300u64, 1500, 100_000][rng.below(3) as usize],
            block: [1usize, 64, 4096][rng.below(3) as usize],
            reuse0: rng.below(2) == 0,
        };
        let big = rng.below(3) == 0;
        let (scn, uni) = random_scenario(seed, nops, 8, big);
        let t = Instant::now();
        let (runs, fails) = sweep_single(&cfg, &scn, &uni, &format!("seed {seed} {:?}", cfg));
        println!(
            "seed {seed} cfg {:?} big={big}: {runs} runs, {} failures, {:?}",
            cfg,
            fails.len(),
            t.elapsed()
        );
        total += runs;
        nfail += fails.len();
    }
    println!("TOTAL {total} runs, {nfail} failures");
    assert_eq!(nfail, 0);
}

#[test]
fn random_double_crash_sweep() {
    let seeds = env_u64("SEEDS", 2);
    let seed0 = env_u64("SEED0", 100);
    let nops = env_u64("NOPS", 12) as usize;
    let stride = env_u64("STRIDE", 3);
    let mut total = 0;
    let mut nfail = 0;
    for seed in seed0..seed0 + seeds {
        let mut rng = Rng(seed * 7919 + 13);
        let cfg = Cfg {
            memtable: [600usize, 2000, 8000, 100_000][rng.below(4) as usize],
            file_size: [300u64, 1500, 100_000][rng.below(3) as usize],
            block: [1usize, 64, 4096][rng.below(3) as usize],
            reuse0: rng.below(2) == 0,
        };
        let (scn, uni) = random_scenario(seed, nops, 8, false);
        let t = Instant::now();
        let (runs, fails) = sweep_double(&cfg, &scn, &uni, &format!("seed {seed} {:?}", cfg), stride);
        println!(
            "seed {seed} cfg {:?}: {runs} runs, {} failures, {:?}",
            cfg,
            fails.len(),
            t.elapsed()
        );
        total += runs;
        nfail += fails.len();
    }
    println!("TOTAL {total} runs, {nfail} failures");
    assert_eq!(nfail, 0);
}

#[test]
fn timing_probe() {
    let cfg = Cfg { memtable: 2000, file_size: 100000, block: 4096, reuse0: true };
    let fs = SimFs::new();
    let t = Instant::now();
    let o = options(&fs, &cfg, true);
    println!("options: {:?}", t.elapsed());
    let t = Instant::now();
    let db = DB::open(o.clone()).unwrap();
    println!("open: {:?}", t.elapsed());
    let t = Instant::now();
    db.put(WriteOptions::default(), b"a".to_vec(), b"b".to_vec()).unwrap();
    println!("put: {:?}", t.elapsed());
    let t = Instant::now();
    drop(db);
    println!("drop: {:?}", t.elapsed());
    let t = Instant::now();
    let db = DB::open(o).unwrap();
    println!("open2: {:?}", t.elapsed());
    let t = Instant::now();
    let m = scan(&db).unwrap();
    println!("scan: {:?} {}", t.elapsed(), m.len());
    let t = Instant::now();
    drop(db);
    println!("drop: {:?}", t.elapsed());
}

fn uni_for(ops: &[Op]) -> Vec<Vec<u8>> {
    let mut u: std::collections::BTreeSet<Vec<u8>> = Default::default();
    for op in ops {
        if let Op::Write(ws) = op {
            for w in ws {
                match w {
                    W::Put(k, _) | W::Del(k) => {
                        u.insert(k.clone());
                    }
                }
            }
        }
    }
    u.insert(b"pad".to_vec());
    u.insert(b"k01".to_vec());
    u.insert(b"k02".to_vec());
    for r in 1..4 {
        for s in ["a", "b", "c"] {
            u.insert(format!("post{r}-{s}").into_bytes());
        }
    }
    u.into_iter().collect()
}

fn put(k: &str, len: usize, fill: u8) -> Op {
    Op::Write(vec![W::Put(k.as_bytes().to_vec(), vec![fill; len])])
}

#[test]
fn targeted_wal_block_boundaries() {
    let mut total = 0;
    let mut nfail = 0;
    for k in 0..=9usize {
        for reuse0 in [true, false] {
            let cfg = Cfg { memtable: 1_000_000, file_size: 100_000, block: 4096, reuse0 };
            let scn = vec![
                put("k01", 10, b'a'),
                Op::PadWalTo(32768 - k),
                put("k02", 5, b'b'),
                put("k03", 40000, b'c'),
                Op::PadWalTo(32768 - k),
                put("k04", 70000, b'd'),
                Op::Reopen(true),
                put("k05", 5, b'e'),
                Op::PadWalTo(32768 - k),
                Op::Reopen(true),
                put("k06", 5, b'f'),
            ];
            let uni = uni_for(&scn);
            let (runs, fails) = sweep_single(&cfg, &scn, &uni, &format!("wal-boundary k={k} reuse0={reuse0}"));
            println!("wal-boundary k={k} reuse0={reuse0}: {runs} runs, {} failures", fails.len());
            total += runs;
            nfail += fails.len();
        }
    }
    println!("TOTAL {total} runs, {nfail} failures");
    assert_eq!(nfail, 0);
}

#[test]
fn targeted_big_manifest_records() {
    // Long keys make every manifest record span several log blocks
    let mut total = 0;
    let mut nfail = 0;
    for (klen, reuse0) in [(20_000usize, true), (20_000, false), (33_000, true), (16_370, true)] {
        let cfg = Cfg { memtable: 30_000, file_size: 1_000_000, block: 4096, reuse0 };
        let lk = |c: u8| -> Vec<u8> {
            let mut k = vec![c; klen];
            k[0] = b'L';
            k
        };
        let mut scn = vec![];
        for (i, c) in [b'a', b'b', b'c', b'd', b'e', b'f'].iter().enumerate() {
            scn.push(Op::Write(vec![W::Put(lk(*c), vec![*c; 100 + i])]));
            scn.push(Op::Write(vec![W::Put(lk(*c + 10), vec![*c; 30_000])]));
            scn.push(Op::WaitIdle);
            if i % 2 == 1 {
                scn.push(Op::Reopen(i % 4 == 1));
            }
        }
        let uni = uni_for(&scn);
        let (runs, fails) = sweep_single(&cfg, &scn, &uni, &format!("big-manifest klen={klen} reuse0={reuse0}"));
        println!("big-manifest klen={klen} reuse0={reuse0}: {runs} runs, {} failures", fails.len());
        total += runs;
        nfail += fails.len();
    }
    println!("TOTAL {total} runs, {nfail} failures");
    assert_eq!(nfail, 0);
}

#[test]
fn pad_check() {
    std::env::set_var("PADCHECK", "1");
    for k in [0usize, 3, 6, 7, 8] {
        let cfg = Cfg { memtable: 1_000_000, file_size: 100_000, block: 4096, reuse0: true };
        let scn = vec![
            put("k01", 10, b'a'),
            Op::PadWalTo(32768 - k),
            put("k02", 5, b'b'),
            put("k03", 40000, b'c'),
            Op::PadWalTo(32768 - k),
        ];
        let uni = uni_for(&scn);
        run_once(&cfg, &scn, &uni, &[], true).ok().unwrap();
    }
}

#[test]
fn trace_stats() {
    let klen = 20_000usize;
    let cfg = Cfg { memtable: 30_000, file_size: 1_000_000, block: 4096, reuse0: true };
    let lk = |c: u8| -> Vec<u8> { let mut k = vec![c; klen]; k[0] = b'L'; k };
    let mut scn = vec![];
    for (i, c) in [b'a', b'b', b'c', b'd', b'e', b'f'].iter().enumerate() {
        scn.push(Op::Write(vec![W::Put(lk(*c), vec![*c; 100 + i])]));
        scn.push(Op::Write(vec![W::Put(lk(*c + 10), vec![*c; 30_000])]));
        scn.push(Op::WaitIdle);
        if i % 2 == 1 { scn.push(Op::Reopen(i % 4 == 1)); }
    }
    let uni = uni_for(&scn);
    let fs = SimFs::new();
    fs.st.lock().unwrap().keep_trace = true;
    let mut hist = Hist::new();
    run_ops(&fs, &cfg, true, &scn, &mut hist, &uni, true, "trace").ok().unwrap();
    let st = fs.st.lock().unwrap();
    let mut by: BTreeMap<String, (usize, usize)> = BTreeMap::new();
    for t in &st.trace {
        let name = t.path.file_name().unwrap().to_string_lossy().to_string();
        let class = if name.starts_with("MANIFEST") { "manifest" } else if name.ends_with(".log") { "wal" } else if name.ends_with(".rdb") { "table" } else if name.ends_with(".dbtemp") { "temp" } else { "other" };
        let e = by.entry(format!("{} {}", t.kind, class)).or_default();
        e.0 += 1;
        if t.kind == "write" && (t.offset / 32768 != (t.offset + t.len.max(1) - 1) / 32768 || t.offset % 32768 == 0 && t.offset > 0) { e.1 += 1; }
    }
    println!("{:?}", by);
    for (p, l) in st.files.iter().map(|(p, d)| (p.clone(), d.lock().unwrap().len())) { println!("{:?} {}", p, l); }
}
