//! Exploratory randomized differential test for the snapshot/iterator stability property.
//!
//! A model (ordered map) is kept next to the database. Snapshots and iterators are taken at random
//! points together with a copy of the model and are checked later, after arbitrary writes, flushes
//! and compactions.

use std::collections::BTreeMap;
use std::sync::Arc;

use raindb::fs::InMemoryFileSystem;
use raindb::{Batch, DbOptions, RainDbIterator, ReadOptions, Snapshot, WriteOptions, DB};
use rand::rngs::StdRng;
use rand::{Rng, SeedableRng};

type Model = BTreeMap<Vec<u8>, Arc<Vec<u8>>>;

fn key_space(rng: &mut StdRng, nkeys: usize, style: u32) -> Vec<Vec<u8>> {
    let mut keys: Vec<Vec<u8>> = vec![];
    match style {
        0 => {
            for i in 0..nkeys {
                keys.push(format!("key{:04}", i).into_bytes());
            }
        }
        1 => {
            // keys that are prefixes of each other, empty key and 0xff keys
            keys.push(vec![]);
            keys.push(vec![0xff]);
            keys.push(vec![0xff, 0xff]);
            keys.push(vec![0xff, 0xff, 0xff]);
            keys.push(vec![0x00]);
            keys.push(vec![0x00, 0x00]);
            while keys.len() < nkeys {
                let len = rng.gen_range(1..6);
                let k: Vec<u8> = (0..len)
                    .map(|_| *[0x00u8, 0x01, 0x61, 0x62, 0xfe, 0xff].get(rng.gen_range(0..6)).unwrap())
                    .collect();
                if !keys.contains(&k) {
                    keys.push(k);
                }
            }
        }
        _ => {
            for i in 0..nkeys {
                let mut k = format!("k{:03}", i).into_bytes();
                // long keys
                k.extend(std::iter::repeat(b'x').take(rng.gen_range(0..40)));
                keys.push(k);
            }
        }
    }
    keys
}

struct Walker<'a> {
    model: &'a [(Vec<u8>, Arc<Vec<u8>>)],
    pos: Option<usize>,
}

impl<'a> Walker<'a> {
    fn expect(&self) -> Option<&(Vec<u8>, Arc<Vec<u8>>)> {
        self.pos.map(|p| &self.model[p])
    }
}

fn verify_position<I>(what: &str, step: &str, iter: &I, walker: &Walker) -> Result<(), String>
where
    I: RainDbIterator<Key = Vec<u8>, Error = raindb::RainDBError>,
{
    if let Some(err) = iter.status() {
        return Err(format!("{what}: after {step}: iterator status is an error: {err}"));
    }
    match walker.expect() {
        None => {
            if iter.is_valid() {
                let (k, v) = iter.current().unwrap();
                return Err(format!(
                    "{what}: after {step}: iterator is valid at {:?}={:?} but the state at creation has no entry there",
                    k, short(v)
                ));
            }
        }
        Some((ek, ev)) => {
            if !iter.is_valid() {
                return Err(format!(
                    "{what}: after {step}: iterator is invalid but the state at creation has {:?}={:?} there",
                    ek, short(ev)
                ));
            }
            let (k, v) = iter.current().unwrap();
            if k != ek || v != &**ev {
                return Err(format!(
                    "{what}: after {step}: iterator at {:?}={:?} but the state at creation has {:?}={:?} there",
                    k, short(v), ek, short(ev)
                ));
            }
        }
    }
    Ok(())
}

fn short(v: &[u8]) -> String {
    if v.len() <= 12 {
        format!("{:?}", String::from_utf8_lossy(v))
    } else {
        format!("{:?}..(len {})", String::from_utf8_lossy(&v[..12]), v.len())
    }
}

/// Full forward scan, full backward scan and a random walk.
fn check_iterator<I>(
    what: &str,
    iter: &mut I,
    model: &Model,
    rng: &mut StdRng,
    keys: &[Vec<u8>],
    walk_steps: usize,
) -> Result<(), String>
where
    I: RainDbIterator<Key = Vec<u8>, Error = raindb::RainDBError>,
{
    let flat: Vec<(Vec<u8>, Arc<Vec<u8>>)> = model.iter().map(|(k, v)| (k.clone(), Arc::clone(v))).collect();
    let mut walker = Walker { model: &flat, pos: None };

    // forward
    iter.seek_to_first().map_err(|e| format!("{what}: seek_to_first failed: {e}"))?;
    walker.pos = if flat.is_empty() { None } else { Some(0) };
    verify_position(what, "seek_to_first", iter, &walker)?;
    let mut n = 0;
    while iter.is_valid() {
        iter.next();
        walker.pos = walker.pos.and_then(|p| if p + 1 < flat.len() { Some(p + 1) } else { None });
        n += 1;
        verify_position(what, &format!("forward next #{n}"), iter, &walker)?;
    }

    // backward
    iter.seek_to_last().map_err(|e| format!("{what}: seek_to_last failed: {e}"))?;
    walker.pos = if flat.is_empty() { None } else { Some(flat.len() - 1) };
    verify_position(what, "seek_to_last", iter, &walker)?;
    let mut n = 0;
    while iter.is_valid() {
        iter.prev();
        walker.pos = walker.pos.and_then(|p| if p > 0 { Some(p - 1) } else { None });
        n += 1;
        verify_position(what, &format!("backward prev #{n}"), iter, &walker)?;
    }

    // random walk
    let mut trail: Vec<String> = vec![];
    for _ in 0..walk_steps {
        let choice = rng.gen_range(0..10);
        let step: String;
        if !iter.is_valid() || choice < 3 {
            match rng.gen_range(0..4) {
                0 => {
                    iter.seek_to_first().map_err(|e| format!("{what}: {e}"))?;
                    walker.pos = if flat.is_empty() { None } else { Some(0) };
                    step = "seek_to_first".to_string();
                }
                1 => {
                    iter.seek_to_last().map_err(|e| format!("{what}: {e}"))?;
                    walker.pos = if flat.is_empty() { None } else { Some(flat.len() - 1) };
                    step = "seek_to_last".to_string();
                }
                _ => {
                    let mut target = keys[rng.gen_range(0..keys.len())].clone();
                    if rng.gen_bool(0.2) {
                        target.push(0);
                    }
                    iter.seek(&target).map_err(|e| format!("{what}: {e}"))?;
                    walker.pos = flat.iter().position(|(k, _)| k >= &target);
                    step = format!("seek({:?})", target);
                }
            }
        } else if choice < 7 {
            iter.next();
            walker.pos = walker.pos.and_then(|p| if p + 1 < flat.len() { Some(p + 1) } else { None });
            step = "next".to_string();
        } else {
            iter.prev();
            walker.pos = walker.pos.and_then(|p| if p > 0 { Some(p - 1) } else { None });
            step = "prev".to_string();
        }
        trail.push(step);
        let tail: Vec<String> = trail.iter().rev().take(6).rev().cloned().collect();
        verify_position(what, &format!("random walk ..{}", tail.join(",")), iter, &walker)?;
    }

    Ok(())
}

fn check_gets(
    what: &str,
    db: &DB,
    snapshot: Option<&Snapshot>,
    model: &Model,
    keys: &[Vec<u8>],
) -> Result<(), String> {
    for key in keys {
        let ro = ReadOptions {
            fill_cache: true,
            snapshot: snapshot.cloned(),
        };
        let got = match db.get(ro, key) {
            Ok(v) => Some(v),
            Err(raindb::RainDBError::KeyNotFound) => None,
            Err(e) => return Err(format!("{what}: get({:?}) failed: {e}", key)),
        };
        let want = model.get(key).map(|v| (**v).clone());
        if got != want {
            return Err(format!(
                "{what}: get({:?}) returned {:?} but the state when the snapshot was taken has {:?}",
                key,
                got.as_deref().map(short),
                want.as_deref().map(short)
            ));
        }
    }
    Ok(())
}

fn run(seed: u64, nops: usize) -> Result<(), String> {
    run_with(seed, nops, None)
}

/// `deep`: (number of preloaded keys, value size): preload that much data first so that deep levels exist.
fn run_with(seed: u64, nops: usize, deep: Option<(usize, usize)>) -> Result<(), String> {
    let mut rng = StdRng::seed_from_u64(seed);
    let mut style = rng.gen_range(0..3);
    let mut nkeys = rng.gen_range(8..60);
    if let Some((n, _)) = deep {
        style = 0;
        nkeys = n;
    }
    let keys = key_space(&mut rng, nkeys, style);

    let mut options = DbOptions::with_memory_env();
    options.filesystem_provider = Arc::new(InMemoryFileSystem::new());
    options.create_if_missing = true;
    options.db_path = format!("/audit-fuzz-{seed}");
    if std::env::var("FUZZ_TMPFS").is_ok() {
        let tmp_fs = raindb::fs::TmpFileSystem::new(Some(std::path::Path::new("/tmp/wtb-C03/target/audit-tmpfs")));
        options.db_path = tmp_fs.get_root_path().join(format!("fuzz-{seed}")).to_str().unwrap().to_owned();
        options.filesystem_provider = Arc::new(tmp_fs);
    }
    options.max_memtable_size = *[600usize, 1500, 4000, 16000].get(rng.gen_range(0..4)).unwrap();
    options.max_file_size = *[300u64, 1000, 4000, 30000].get(rng.gen_range(0..4)).unwrap();
    options.max_block_size = *[64usize, 200, 1000, 4096].get(rng.gen_range(0..4)).unwrap();
    let mut max_val = *[8usize, 100, 400, 3000].get(rng.gen_range(0..4)).unwrap();
    if let Some((_, vsize)) = deep {
        options.max_memtable_size = std::env::var("DEEP_MEM").ok().and_then(|s| s.parse().ok()).unwrap_or(1024 * 1024);
        options.max_file_size = std::env::var("DEEP_FILE").ok().and_then(|s| s.parse().ok()).unwrap_or(2 * 1024 * 1024);
        options.max_block_size = std::env::var("DEEP_BLOCK").ok().and_then(|s| s.parse().ok()).unwrap_or(4096);
        max_val = vsize;
    }

    let mut db = DB::open(options.clone()).map_err(|e| format!("open: {e}"))?;
    let reopen_enabled = std::env::var("FUZZ_REOPEN").is_ok();
    let mut model: Model = BTreeMap::new();
    if let Some((_, vsize)) = deep {
        for (i, key) in keys.iter().enumerate() {
            let mut value = format!("pre{i}-").into_bytes();
            value.extend((0..vsize).map(|_| rng.gen::<u8>()));
            db.put(WriteOptions::default(), key.clone(), value.clone())
                .map_err(|e| format!("put: {e}"))?;
            model.insert(key.clone(), Arc::new(value));
        }
        let shape: Vec<String> = (0..7)
            .map(|l| db.get_descriptor(raindb::db::DatabaseDescriptor::NumFilesAtLevel(l)).unwrap())
            .collect();
        eprintln!("seed {seed}: after preload shape {:?}", shape);
    }

    let mut snapshots: Vec<(Snapshot, Model, usize)> = vec![];
    let mut iters = Vec::new();

    let hot: Vec<Vec<u8>> = if deep.is_some() {
        keys.iter().step_by(57).cloned().collect()
    } else {
        keys.clone()
    };
    for opno in 0..nops {
        let r = rng.gen_range(0..100);
        if r < 45 {
            let key = if rng.gen_bool(0.85) { hot[rng.gen_range(0..hot.len())].clone() } else { keys[rng.gen_range(0..keys.len())].clone() };
            let vlen = if rng.gen_bool(0.1) { 0 } else { rng.gen_range(0..=max_val) };
            let mut value = format!("v{opno}-").into_bytes();
            value.truncate(vlen.min(value.len()));
            if deep.is_some() {
                let more = vlen.saturating_sub(value.len());
                value.extend((0..more).map(|_| rng.gen::<u8>()));
            } else {
                value.extend(std::iter::repeat(b'a' + (opno % 26) as u8).take(vlen.saturating_sub(value.len())));
            }
            db.put(WriteOptions::default(), key.clone(), value.clone())
                .map_err(|e| format!("put: {e}"))?;
            model.insert(key, Arc::new(value));
        } else if r < 62 {
            let key = if rng.gen_bool(0.85) { hot[rng.gen_range(0..hot.len())].clone() } else { keys[rng.gen_range(0..keys.len())].clone() };
            db.delete(WriteOptions::default(), key.clone())
                .map_err(|e| format!("delete: {e}"))?;
            model.remove(&key);
        } else if r < 68 {
            let mut batch = Batch::new();
            for j in 0..rng.gen_range(1..8) {
                let key = if rng.gen_bool(0.85) { hot[rng.gen_range(0..hot.len())].clone() } else { keys[rng.gen_range(0..keys.len())].clone() };
                if rng.gen_bool(0.6) {
                    let value = format!("b{opno}.{j}").into_bytes();
                    batch.add_put(key.clone(), value.clone());
                    model.insert(key, Arc::new(value));
                } else {
                    batch.add_delete(key.clone());
                    model.remove(&key);
                }
            }
            db.apply(WriteOptions::default(), batch)
                .map_err(|e| format!("apply: {e}"))?;
        } else if r < 74 {
            if snapshots.len() < 6 {
                snapshots.push((db.get_snapshot(), model.clone(), opno));
            }
        } else if r < 78 {
            if !snapshots.is_empty() {
                let idx = rng.gen_range(0..snapshots.len());
                let (snap, snap_model, taken) = snapshots.remove(idx);
                check_gets(
                    &format!("seed {seed} op {opno}: snapshot taken at op {taken} (before release)"),
                    &db,
                    Some(&snap),
                    &snap_model,
                    &keys,
                )?;
                db.release_snapshot(snap);
            }
        } else if r < 84 {
            if !snapshots.is_empty() {
                let idx = rng.gen_range(0..snapshots.len());
                let (snap, snap_model, taken) = &snapshots[idx];
                let what = format!("seed {seed} op {opno}: snapshot taken at op {taken}");
                check_gets(&what, &db, Some(snap), snap_model, &keys)?;
                let mut iter = db
                    .new_iterator(ReadOptions {
                        fill_cache: rng.gen_bool(0.5),
                        snapshot: Some(snap.clone()),
                    })
                    .map_err(|e| format!("new_iterator: {e}"))?;
                check_iterator(
                    &format!("{what}: fresh iterator at the snapshot"),
                    &mut iter,
                    snap_model,
                    &mut rng,
                    &keys,
                    40,
                )?;
            }
        } else if r < 88 {
            if iters.len() < 4 {
                let (ro, m) = if !snapshots.is_empty() && rng.gen_bool(0.4) {
                    let idx = rng.gen_range(0..snapshots.len());
                    (
                        ReadOptions {
                            fill_cache: true,
                            snapshot: Some(snapshots[idx].0.clone()),
                        },
                        snapshots[idx].1.clone(),
                    )
                } else {
                    (ReadOptions::default(), model.clone())
                };
                let iter = db.new_iterator(ro).map_err(|e| format!("new_iterator: {e}"))?;
                iters.push((iter, m, opno));
            }
        } else if r < 93 {
            if !iters.is_empty() {
                let idx = rng.gen_range(0..iters.len());
                let drop_it = rng.gen_bool(0.4);
                {
                    let (iter, m, taken) = &mut iters[idx];
                    let what = format!("seed {seed} op {opno}: iterator created at op {taken}");
                    let m2 = m.clone();
                    check_iterator(&what, iter, &m2, &mut rng, &keys, 40)?;
                }
                if drop_it {
                    iters.remove(idx);
                }
            }
        } else if r < 94 && reopen_enabled {
            if iters.is_empty() {
                for (snap, snap_model, taken) in snapshots.drain(..) {
                    check_gets(
                        &format!("seed {seed} op {opno}: snapshot taken at op {taken} (before close)"),
                        &db,
                        Some(&snap),
                        &snap_model,
                        &keys,
                    )?;
                    db.release_snapshot(snap);
                }
                drop(db);
                options.reuse_log_files = rng.gen_bool(0.5);
                db = DB::open(options.clone()).map_err(|e| format!("seed {seed} op {opno}: reopen: {e}"))?;
                check_gets(&format!("seed {seed} op {opno}: current state after reopen"), &db, None, &model, &keys)?;
            }
        } else if r < 96 {
            // flush only
            let hi = vec![0xffu8; 8];
            db.compact_range(Some(hi.as_slice())..Some(hi.as_slice()));
        } else if r < 98 {
            let a = keys[rng.gen_range(0..keys.len())].clone();
            let b = keys[rng.gen_range(0..keys.len())].clone();
            let (lo, hi) = if a <= b { (a, b) } else { (b, a) };
            db.compact_range(Some(lo.as_slice())..Some(hi.as_slice()));
        } else {
            db.compact_range(None..None);
        }

        // current state sanity every so often
        if opno % 97 == 0 {
            check_gets(&format!("seed {seed} op {opno}: current state"), &db, None, &model, &keys)?;
        }
    }

    // final checks of everything still held
    for (snap, snap_model, taken) in &snapshots {
        let what = format!("seed {seed} end: snapshot taken at op {taken}");
        check_gets(&what, &db, Some(snap), snap_model, &keys)?;
        let mut iter = db
            .new_iterator(ReadOptions {
                fill_cache: true,
                snapshot: Some(snap.clone()),
            })
            .map_err(|e| format!("new_iterator: {e}"))?;
        check_iterator(&format!("{what}: fresh iterator"), &mut iter, snap_model, &mut rng, &keys, 60)?;
    }
    for (iter, m, taken) in iters.iter_mut() {
        let what = format!("seed {seed} end: iterator created at op {taken}");
        let m2 = m.clone();
        check_iterator(&what, iter, &m2, &mut rng, &keys, 60)?;
    }
    drop(iters);
    if std::env::var("FUZZ_SHAPE").is_ok() {
        let shape: Vec<String> = (0..7)
            .map(|l| db.get_descriptor(raindb::db::DatabaseDescriptor::NumFilesAtLevel(l)).unwrap())
            .collect();
        eprintln!("seed {seed}: memtable {} file {} block {} val {} nkeys {} style {} shape {:?}",
            options.max_memtable_size, options.max_file_size, options.max_block_size, max_val, nkeys, style, shape);
    }
    for (snap, _, _) in snapshots {
        db.release_snapshot(snap);
    }
    drop(db);
    Ok(())
}

#[test]
fn fuzz_deep_levels() {
    if std::env::var("DEEP").is_err() {
        return;
    }
    let start: u64 = std::env::var("FUZZ_START").ok().and_then(|s| s.parse().ok()).unwrap_or(0);
    let count: u64 = std::env::var("FUZZ_COUNT").ok().and_then(|s| s.parse().ok()).unwrap_or(2);
    let nops: usize = std::env::var("FUZZ_OPS").ok().and_then(|s| s.parse().ok()).unwrap_or(600);
    let nkeys: usize = std::env::var("DEEP_KEYS").ok().and_then(|s| s.parse().ok()).unwrap_or(2300);
    let vsize: usize = std::env::var("DEEP_VAL").ok().and_then(|s| s.parse().ok()).unwrap_or(64 * 1024);
    let mut failures = vec![];
    for seed in start..start + count {
        if let Err(msg) = run_with(seed, nops, Some((nkeys, vsize))) {
            eprintln!("FAIL: {msg}");
            failures.push(msg);
        }
    }
    assert!(failures.is_empty(), "{} failing seeds:\n{}", failures.len(), failures.join("\n"));
}

#[test]
fn fuzz_snapshots_and_iterators() {
    let start: u64 = std::env::var("FUZZ_START").ok().and_then(|s| s.parse().ok()).unwrap_or(0);
    let count: u64 = std::env::var("FUZZ_COUNT").ok().and_then(|s| s.parse().ok()).unwrap_or(20);
    let nops: usize = std::env::var("FUZZ_OPS").ok().and_then(|s| s.parse().ok()).unwrap_or(1500);
    let mut failures = vec![];
    for seed in start..start + count {
        match run(seed, nops) {
            Ok(()) => {}
            Err(msg) => {
                eprintln!("FAIL: {msg}");
                failures.push(msg);
            }
        }
    }
    assert!(failures.is_empty(), "{} failing seeds:\n{}", failures.len(), failures.join("\n"));
}
