// Exploratory fault sweep: a read of a table file fails once (transient) while a snapshot is
// read through get or through an iterator. Required: either the reader sees exactly the state of
// the snapshot, or the failure is reported (get returns an error / the iterator's status() is
// an error at the moment the deviation is visible). A silent deviation is a violation.

use std::collections::BTreeMap;
use std::io::{self, Read, Seek, SeekFrom};
use std::path::{Path, PathBuf};
use std::sync::atomic::{AtomicBool, AtomicI64, AtomicU64, Ordering};
use std::sync::Arc;

use raindb::fs::{FileLock, FileSystem, InMemoryFileSystem, RandomAccessFile, ReadonlyRandomAccessFile};
use raindb::{DbOptions, RainDbIterator, ReadOptions, Snapshot, WriteOptions, DB};

#[derive(Default)]
struct FaultCtl {
    /// Number of table reads seen since the last arm.
    reads: AtomicU64,
    /// Fail the read with this index (counted since arming); negative = disarmed.
    fail_at: AtomicI64,
    /// Also count/fail opens of table files.
    fired: AtomicBool,
    /// Fail permanently from `fail_at` on instead of once.
    sticky: AtomicBool,
    /// Count (and fail) creations, writes and removals of table files as well.
    writes_too: AtomicBool,
    /// Treat every file (WAL, manifest, CURRENT, temp) like a table file.
    all_files: AtomicBool,
}

impl FaultCtl {
    fn arm(&self, n: i64, sticky: bool) {
        self.reads.store(0, Ordering::SeqCst);
        self.fired.store(false, Ordering::SeqCst);
        self.sticky.store(sticky, Ordering::SeqCst);
        self.fail_at.store(n, Ordering::SeqCst);
    }
    fn disarm(&self) {
        self.fail_at.store(-1, Ordering::SeqCst);
    }
    fn on_write(&self) -> io::Result<()> {
        if self.writes_too.load(Ordering::SeqCst) {
            self.on_read()
        } else {
            Ok(())
        }
    }
    fn on_read(&self) -> io::Result<()> {
        let target = self.fail_at.load(Ordering::SeqCst);
        if target < 0 {
            return Ok(());
        }
        let idx = self.reads.fetch_add(1, Ordering::SeqCst) as i64;
        let hit = if self.sticky.load(Ordering::SeqCst) { idx >= target } else { idx == target };
        if hit {
            self.fired.store(true, Ordering::SeqCst);
            return Err(io::Error::new(io::ErrorKind::Other, "injected read fault"));
        }
        Ok(())
    }
}

struct FaultFile {
    inner: Box<dyn ReadonlyRandomAccessFile>,
    ctl: Arc<FaultCtl>,
}

impl Read for FaultFile {
    fn read(&mut self, buf: &mut [u8]) -> io::Result<usize> {
        self.inner.read(buf)
    }
}
impl Seek for FaultFile {
    fn seek(&mut self, pos: SeekFrom) -> io::Result<u64> {
        self.inner.seek(pos)
    }
}
impl ReadonlyRandomAccessFile for FaultFile {
    fn read_from(&self, buf: &mut [u8], offset: usize) -> io::Result<usize> {
        self.ctl.on_read()?;
        self.inner.read_from(buf, offset)
    }
    fn len(&self) -> io::Result<u64> {
        self.inner.len()
    }
}

struct FaultWFile {
    inner: Box<dyn RandomAccessFile>,
    ctl: Arc<FaultCtl>,
}

impl Read for FaultWFile {
    fn read(&mut self, buf: &mut [u8]) -> io::Result<usize> {
        self.inner.read(buf)
    }
}
impl Seek for FaultWFile {
    fn seek(&mut self, pos: SeekFrom) -> io::Result<u64> {
        self.inner.seek(pos)
    }
}
impl io::Write for FaultWFile {
    fn write(&mut self, buf: &[u8]) -> io::Result<usize> {
        self.ctl.on_write()?;
        self.inner.write(buf)
    }
    fn flush(&mut self) -> io::Result<()> {
        self.inner.flush()
    }
}
impl ReadonlyRandomAccessFile for FaultWFile {
    fn read_from(&self, buf: &mut [u8], offset: usize) -> io::Result<usize> {
        self.inner.read_from(buf, offset)
    }
    fn len(&self) -> io::Result<u64> {
        self.inner.len()
    }
}
impl RandomAccessFile for FaultWFile {
    fn append(&mut self, buf: &[u8]) -> io::Result<usize> {
        self.ctl.on_write()?;
        self.inner.append(buf)
    }
}

struct FaultFs {
    inner: InMemoryFileSystem,
    ctl: Arc<FaultCtl>,
}

impl FileSystem for FaultFs {
    fn get_name(&self) -> String {
        "FaultFs".to_string()
    }
    fn create_dir(&self, path: &Path) -> io::Result<()> {
        self.inner.create_dir(path)
    }
    fn create_dir_all(&self, path: &Path) -> io::Result<()> {
        self.inner.create_dir_all(path)
    }
    fn list_dir(&self, path: &Path) -> io::Result<Vec<PathBuf>> {
        self.inner.list_dir(path)
    }
    fn open_file(&self, path: &Path) -> io::Result<Box<dyn ReadonlyRandomAccessFile>> {
        let is_table = path.extension().map_or(false, |e| e == "rdb") || self.ctl.all_files.load(Ordering::SeqCst);
        if is_table {
            self.ctl.on_read()?;
            let inner = self.inner.open_file(path)?;
            Ok(Box::new(FaultFile { inner, ctl: Arc::clone(&self.ctl) }))
        } else {
            self.inner.open_file(path)
        }
    }
    fn rename(&self, from: &Path, to: &Path) -> io::Result<()> {
        if self.ctl.all_files.load(Ordering::SeqCst) {
            self.ctl.on_write()?;
        }
        self.inner.rename(from, to)
    }
    fn create_file(&self, path: &Path, append: bool) -> io::Result<Box<dyn RandomAccessFile>> {
        let is_table = path.extension().map_or(false, |e| e == "rdb") || self.ctl.all_files.load(Ordering::SeqCst);
        if is_table {
            self.ctl.on_write()?;
            let inner = self.inner.create_file(path, append)?;
            Ok(Box::new(FaultWFile { inner, ctl: Arc::clone(&self.ctl) }))
        } else {
            self.inner.create_file(path, append)
        }
    }
    fn remove_file(&self, path: &Path) -> io::Result<()> {
        let is_table = path.extension().map_or(false, |e| e == "rdb") || self.ctl.all_files.load(Ordering::SeqCst);
        if is_table {
            self.ctl.on_write()?;
        }
        self.inner.remove_file(path)
    }
    fn remove_dir(&self, path: &Path) -> io::Result<()> {
        self.inner.remove_dir(path)
    }
    fn remove_dir_all(&self, path: &Path) -> io::Result<()> {
        self.inner.remove_dir_all(path)
    }
    fn get_file_size(&self, path: &Path) -> io::Result<u64> {
        self.inner.get_file_size(path)
    }
    fn is_dir(&self, path: &Path) -> io::Result<bool> {
        self.inner.is_dir(path)
    }
    fn lock_file(&self, path: &Path) -> io::Result<FileLock> {
        self.inner.lock_file(path)
    }
}

type Model = BTreeMap<Vec<u8>, Vec<u8>>;

fn k(i: usize) -> Vec<u8> {
    format!("key{:03}", i).into_bytes()
}

fn flush(db: &DB) {
    let hi = vec![0xffu8; 4];
    db.compact_range(Some(hi.as_slice())..Some(hi.as_slice()));
}

fn shape(db: &DB) -> Vec<String> {
    (0..7)
        .map(|l| db.get_descriptor(raindb::db::DatabaseDescriptor::NumFilesAtLevel(l)).unwrap())
        .collect()
}

/// Build a database with files in L0 (several, overlapping), L1 and L2 (several files, several blocks
/// each) and a snapshot in the middle of the history.
fn build(ctl: &Arc<FaultCtl>, tag: &str) -> (DB, Snapshot, Model, Model) {
    build_with(ctl, tag, false)
}

fn build_with(ctl: &Arc<FaultCtl>, tag: &str, compact_before_last: bool) -> (DB, Snapshot, Model, Model) {
    let mut options = DbOptions::with_memory_env();
    options.filesystem_provider = Arc::new(FaultFs { inner: InMemoryFileSystem::new(), ctl: Arc::clone(ctl) });
    options.create_if_missing = true;
    options.db_path = format!("/audit-faults-{tag}");
    options.max_memtable_size = 64 * 1024;
    options.max_file_size = 700;
    options.max_block_size = 120;
    let db = DB::open(options).unwrap();
    let mut model = Model::new();
    let wo = WriteOptions::default;

    // generation 1 -> pushed down by a full manual compaction
    for i in 0..40 {
        let v = format!("g1-{i:03}-{}", "x".repeat(20)).into_bytes();
        db.put(wo(), k(i), v.clone()).unwrap();
        model.insert(k(i), v);
    }
    db.compact_range(None..None);
    // generation 2 on every 2nd key -> L1 after another compaction of level 0 only
    for i in (0..40).step_by(2) {
        let v = format!("g2-{i:03}-{}", "y".repeat(20)).into_bytes();
        db.put(wo(), k(i), v.clone()).unwrap();
        model.insert(k(i), v);
    }
    for i in (1..40).step_by(6) {
        db.delete(wo(), k(i)).unwrap();
        model.remove(&k(i));
    }
    flush(&db);
    let snapshot = db.get_snapshot();
    let snap_model = model.clone();
    // generation 3: newer versions and deletions in two overlapping L0 files and the memtable
    for i in (0..40).step_by(3) {
        let v = format!("g3-{i:03}").into_bytes();
        db.put(wo(), k(i), v.clone()).unwrap();
        model.insert(k(i), v);
    }
    flush(&db);
    for i in (0..40).step_by(5) {
        db.delete(wo(), k(i)).unwrap();
        model.remove(&k(i));
    }
    flush(&db);
    if compact_before_last {
        db.compact_range(None..None);
    }
    for i in (2..40).step_by(7) {
        let v = format!("g4-{i:03}").into_bytes();
        db.put(wo(), k(i), v.clone()).unwrap();
        model.insert(k(i), v);
    }
    (db, snapshot, snap_model, model)
}

#[derive(Clone, Copy, Debug)]
enum Pattern {
    Forward,
    Backward,
    ZigZag,
    Seeks,
}

/// Walk the iterator with the pattern. Returns Err(description) on a silent deviation.
fn walk<I>(iter: &mut I, model: &Model, pattern: Pattern, what: &str) -> Result<bool, String>
where
    I: RainDbIterator<Key = Vec<u8>, Error = raindb::RainDBError>,
{
    let flat: Vec<(&Vec<u8>, &Vec<u8>)> = model.iter().collect();
    let mut pos: Option<usize>;
    let mut deviated = false;

    macro_rules! check {
        ($step:expr) => {{
            let want = pos.map(|p| flat[p]);
            let got = if iter.is_valid() { iter.current().map(|(k, v)| (k.clone(), v.clone())) } else { None };
            let same = match (&want, &got) {
                (None, None) => true,
                (Some((wk, wv)), Some((gk, gv))) => *wk == gk && *wv == gv,
                _ => false,
            };
            if !same {
                if iter.status().is_none() {
                    return Err(format!(
                        "{what}: after {}: iterator shows {:?} but the snapshot has {:?} there, and status() reports no error",
                        $step,
                        got.map(|(k, v)| (String::from_utf8_lossy(&k).to_string(), String::from_utf8_lossy(&v).to_string())),
                        want.map(|(k, v)| (String::from_utf8_lossy(k).to_string(), String::from_utf8_lossy(v).to_string())),
                    ));
                }
                deviated = true;
            }
        }};
    }

    match pattern {
        Pattern::Forward => {
            let _ = iter.seek_to_first();
            pos = if flat.is_empty() { None } else { Some(0) };
            check!("seek_to_first");
            let mut n = 0;
            while !deviated && iter.is_valid() {
                iter.next();
                pos = pos.and_then(|p| if p + 1 < flat.len() { Some(p + 1) } else { None });
                n += 1;
                check!(format!("next #{n}"));
            }
        }
        Pattern::Backward => {
            let _ = iter.seek_to_last();
            pos = if flat.is_empty() { None } else { Some(flat.len() - 1) };
            check!("seek_to_last");
            let mut n = 0;
            while !deviated && iter.is_valid() {
                iter.prev();
                pos = pos.and_then(|p| if p > 0 { Some(p - 1) } else { None });
                n += 1;
                check!(format!("prev #{n}"));
            }
        }
        Pattern::ZigZag => {
            // forward 3, back 2, ...
            let _ = iter.seek_to_first();
            pos = if flat.is_empty() { None } else { Some(0) };
            check!("seek_to_first");
            let mut n = 0;
            'outer: while !deviated && iter.is_valid() {
                for _ in 0..3 {
                    if deviated || !iter.is_valid() {
                        break 'outer;
                    }
                    iter.next();
                    pos = pos.and_then(|p| if p + 1 < flat.len() { Some(p + 1) } else { None });
                    n += 1;
                    check!(format!("zigzag step #{n} (next)"));
                }
                for _ in 0..2 {
                    if deviated || !iter.is_valid() {
                        break 'outer;
                    }
                    iter.prev();
                    pos = pos.and_then(|p| if p > 0 { Some(p - 1) } else { None });
                    n += 1;
                    check!(format!("zigzag step #{n} (prev)"));
                }
            }
        }
        Pattern::Seeks => {
            for i in (0..42).rev().step_by(3) {
                if deviated {
                    break;
                }
                let target = k(i);
                let _ = iter.seek(&target);
                pos = flat.iter().position(|(key, _)| **key >= target);
                check!(format!("seek({})", String::from_utf8_lossy(&target)));
                if !deviated && iter.is_valid() {
                    iter.prev();
                    pos = pos.and_then(|p| if p > 0 { Some(p - 1) } else { None });
                    check!(format!("seek({}) then prev", String::from_utf8_lossy(&target)));
                }
                if !deviated && iter.is_valid() {
                    iter.next();
                    pos = pos.and_then(|p| if p + 1 < flat.len() { Some(p + 1) } else { None });
                    check!(format!("seek({}) then prev, next", String::from_utf8_lossy(&target)));
                }
            }
        }
    }
    Ok(deviated)
}

#[test]
fn transient_read_fault_sweep_on_snapshot_iterators() {
    let mut failures: Vec<String> = vec![];
    let mut reported = 0usize;
    let mut total = 0usize;
    // two LSM shapes: files in L0, L1 and L2 / everything compacted into one level (plus memtable)
    for compacted in [false, true] {
    let ctl = Arc::new(FaultCtl::default());
    ctl.disarm();
    let (db, snapshot, snap_model, model) = build_with(&ctl, &format!("iter-{compacted}"), compacted);
    eprintln!("shape {:?}; snapshot has {} keys, current state {} keys", shape(&db), snap_model.len(), model.len());
    for sticky in [false, true] {
        for pattern in [Pattern::Forward, Pattern::Backward, Pattern::ZigZag, Pattern::Seeks] {
            for (which, snap, m) in [("snapshot", Some(&snapshot), &snap_model), ("current", None, &model)] {
                // how many reads does the fault-free walk need?
                let ro = || ReadOptions { fill_cache: false, snapshot: snap.cloned() };
                ctl.arm(i64::MAX, false);
                {
                    let mut iter = db.new_iterator(ro()).unwrap();
                    let r = walk(&mut iter, m, pattern, "fault-free");
                    assert_eq!(r, Ok(false), "fault-free walk must match the model ({pattern:?}, {which})");
                }
                let nreads = ctl.reads.load(Ordering::SeqCst) as i64;
                ctl.disarm();
                for n in 0..nreads {
                    total += 1;
                    ctl.arm(n, sticky);
                    let what = format!("{which} iterator, pattern {pattern:?}, read #{n} of {nreads} fails ({})", if sticky { "and all later ones" } else { "once" });
                    let res = match db.new_iterator(ro()) {
                        Ok(mut iter) => {
                            let r = walk(&mut iter, m, pattern, &what);
                            ctl.disarm();
                            drop(iter);
                            r
                        }
                        Err(_) => Ok(true), // reported
                    };
                    ctl.disarm();
                    match res {
                        Ok(true) => reported += 1,
                        Ok(false) => {}
                        Err(msg) => {
                            if failures.len() < 12 {
                                eprintln!("SILENT: {msg}");
                            }
                            failures.push(msg);
                        }
                    }
                }
            }
        }
    }
    db.release_snapshot(snapshot);
    }
    eprintln!("{total} fault runs, {reported} with a reported deviation, {} silent deviations", failures.len());
    assert!(
        failures.is_empty(),
        "{} runs in which an iterator silently deviated from the state at its creation; first: {}",
        failures.len(),
        failures[0]
    );
}

#[test]
fn transient_read_fault_sweep_on_snapshot_gets() {
    let ctl = Arc::new(FaultCtl::default());
    ctl.disarm();
    let (db, snapshot, snap_model, model) = build(&ctl, "get");
    let mut failures: Vec<String> = vec![];
    for (which, snap, m) in [("snapshot", Some(&snapshot), &snap_model), ("current", None, &model)] {
        for i in 0..41 {
            let key = k(i);
            let ro = || ReadOptions { fill_cache: false, snapshot: snap.cloned() };
            ctl.arm(i64::MAX, false);
            let clean = db.get(ro(), &key).ok();
            let nreads = ctl.reads.load(Ordering::SeqCst) as i64;
            ctl.disarm();
            assert_eq!(clean, m.get(&key).cloned(), "fault-free get of {which} must match");
            for n in 0..nreads {
                ctl.arm(n, false);
                let got = db.get(ro(), &key);
                ctl.disarm();
                match got {
                    Ok(v) => {
                        if Some(&v) != m.get(&key) {
                            failures.push(format!("{which} get({}) with read #{n} failing returned {:?}, state has {:?}", String::from_utf8_lossy(&key), String::from_utf8_lossy(&v), m.get(&key).map(|v| String::from_utf8_lossy(v).to_string())));
                        }
                    }
                    Err(raindb::RainDBError::KeyNotFound) => {
                        if m.get(&key).is_some() {
                            failures.push(format!("{which} get({}) with read #{n} failing returned KeyNotFound, state has {:?}", String::from_utf8_lossy(&key), m.get(&key).map(|v| String::from_utf8_lossy(v).to_string())));
                        }
                    }
                    Err(_) => {}
                }
            }
        }
    }
    db.release_snapshot(snapshot);
    assert!(failures.is_empty(), "{} silent wrong answers; first: {}", failures.len(), failures[0]);
}


/// Check everything a reader can see against the models. Err = silent deviation.
fn verify_all<I>(
    what: &str,
    db: &DB,
    snapshot: &Snapshot,
    snap_model: &Model,
    model: &Model,
    held: &mut I,
) -> Result<(), String>
where
    I: RainDbIterator<Key = Vec<u8>, Error = raindb::RainDBError>,
{
    for (which, snap, m) in [("snapshot", Some(snapshot), snap_model), ("current state", None, model)] {
        for i in 0..41 {
            let key = k(i);
            let ro = ReadOptions { fill_cache: false, snapshot: snap.cloned() };
            match db.get(ro, &key) {
                Ok(v) => {
                    if Some(&v) != m.get(&key) {
                        return Err(format!("{what}: get({}) at the {which} returned {:?}, expected {:?}", String::from_utf8_lossy(&key), String::from_utf8_lossy(&v), m.get(&key).map(|v| String::from_utf8_lossy(v).to_string())));
                    }
                }
                Err(raindb::RainDBError::KeyNotFound) => {
                    if m.get(&key).is_some() {
                        return Err(format!("{what}: get({}) at the {which} returned KeyNotFound, expected {:?}", String::from_utf8_lossy(&key), m.get(&key).map(|v| String::from_utf8_lossy(v).to_string())));
                    }
                }
                Err(_) => {}
            }
        }
        for pattern in [Pattern::Forward, Pattern::Backward] {
            let ro = ReadOptions { fill_cache: false, snapshot: snap.cloned() };
            if let Ok(mut iter) = db.new_iterator(ro) {
                walk(&mut iter, m, pattern, &format!("{what}: fresh iterator at the {which}"))?;
            }
        }
    }
    for pattern in [Pattern::Forward, Pattern::Backward, Pattern::ZigZag] {
        walk(held, snap_model, pattern, &format!("{what}: iterator created together with the snapshot"))?;
    }
    Ok(())
}

#[test]
fn fault_sweep_over_flush_and_compaction_with_live_snapshot_and_iterator() {
    let ctl = Arc::new(FaultCtl::default());
    ctl.disarm();
    ctl.writes_too.store(true, Ordering::SeqCst);
    ctl.all_files.store(std::env::var("ALL_FILES").is_ok(), Ordering::SeqCst);

    let maintenance = |db: &DB| {
        db.compact_range(None..None);
        // a second round moves the data one level further and garbage collects
        db.compact_range(None..None);
    };

    // measure
    let nops;
    {
        let (db, snapshot, snap_model, model) = build(&ctl, "maint-measure");
        let mut held = db.new_iterator(ReadOptions { fill_cache: false, snapshot: Some(snapshot.clone()) }).unwrap();
        ctl.arm(i64::MAX, false);
        maintenance(&db);
        nops = ctl.reads.load(Ordering::SeqCst) as i64;
        ctl.disarm();
        verify_all("fault-free", &db, &snapshot, &snap_model, &model, &mut held).unwrap();
        drop(held);
        db.release_snapshot(snapshot);
    }
    eprintln!("maintenance performs {nops} table-file operations");

    let mut failures = vec![];
    for sticky in [false, true] {
        for n in 0..nops {
            let (db, snapshot, snap_model, model) = build(&ctl, &format!("maint-{sticky}-{n}"));
            let mut held = db.new_iterator(ReadOptions { fill_cache: false, snapshot: Some(snapshot.clone()) }).unwrap();
            ctl.arm(n, sticky);
            maintenance(&db);
            ctl.disarm();
            let what = format!("table-file operation #{n} of {nops} during flush+compaction fails ({})", if sticky { "and all later ones" } else { "once" });
            if let Err(msg) = verify_all(&what, &db, &snapshot, &snap_model, &model, &mut held) {
                if failures.len() < 10 {
                    eprintln!("SILENT: {msg}");
                }
                failures.push(msg);
            }
            drop(held);
            db.release_snapshot(snapshot);
        }
    }
    assert!(failures.is_empty(), "{} silent deviations; first: {}", failures.len(), failures[0]);
}
