//! Exploratory concurrent test: one writer rewrites whole groups of keys atomically with a
//! generation number, readers take snapshots and check that (a) a snapshot shows one generation
//! per group through get and through iteration, (b) the generation does not change when the same
//! snapshot is read again later, (c) get and iteration agree.

use std::collections::BTreeMap;
use std::sync::atomic::{AtomicBool, AtomicU64, Ordering};
use std::sync::Arc;
use std::thread;
use std::time::{Duration, Instant};

use raindb::fs::InMemoryFileSystem;
use raindb::{Batch, DbOptions, RainDbIterator, ReadOptions, Snapshot, WriteOptions, DB};

const GROUPS: usize = 6;
const KEYS_PER_GROUP: usize = 5;

fn key(group: usize, idx: usize) -> Vec<u8> {
    format!("g{group:02}-k{idx:02}").into_bytes()
}

fn value(gen: u64, pad: usize) -> Vec<u8> {
    let mut v = format!("{gen:012}|").into_bytes();
    v.extend(std::iter::repeat(b'p').take(pad));
    v
}

fn parse_gen(v: &[u8]) -> u64 {
    std::str::from_utf8(&v[..12]).unwrap().parse().unwrap()
}

/// Read the whole database at the snapshot through get. Deleted keys are `None`.
fn read_by_get(db: &DB, snap: &Snapshot) -> Result<BTreeMap<Vec<u8>, Option<u64>>, String> {
    let mut out = BTreeMap::new();
    for g in 0..GROUPS {
        for i in 0..KEYS_PER_GROUP {
            let k = key(g, i);
            let ro = ReadOptions {
                fill_cache: true,
                snapshot: Some(snap.clone()),
            };
            match db.get(ro, &k) {
                Ok(v) => {
                    out.insert(k, Some(parse_gen(&v)));
                }
                Err(raindb::RainDBError::KeyNotFound) => {
                    out.insert(k, None);
                }
                Err(e) => return Err(format!("get failed: {e}")),
            }
        }
    }
    Ok(out)
}

fn read_by_iter(db: &DB, snap: &Snapshot, backward: bool) -> Result<BTreeMap<Vec<u8>, Option<u64>>, String> {
    let mut iter = db
        .new_iterator(ReadOptions {
            fill_cache: false,
            snapshot: Some(snap.clone()),
        })
        .map_err(|e| format!("new_iterator: {e}"))?;
    scan(&mut iter, backward)
}

fn scan<I>(iter: &mut I, backward: bool) -> Result<BTreeMap<Vec<u8>, Option<u64>>, String>
where
    I: RainDbIterator<Key = Vec<u8>, Error = raindb::RainDBError>,
{
    let mut out = BTreeMap::new();
    for g in 0..GROUPS {
        for i in 0..KEYS_PER_GROUP {
            out.insert(key(g, i), None);
        }
    }
    if backward {
        iter.seek_to_last().map_err(|e| e.to_string())?;
    } else {
        iter.seek_to_first().map_err(|e| e.to_string())?;
    }
    while iter.is_valid() {
        let (k, v) = iter.current().unwrap();
        if out.insert(k.clone(), Some(parse_gen(v))).map(|old| old.is_some()).unwrap_or(true) {
            return Err(format!("iteration yielded unexpected or duplicate key {:?}", String::from_utf8_lossy(k)));
        }
        if backward {
            iter.prev();
        } else {
            iter.next();
        }
    }
    if let Some(e) = iter.status() {
        return Err(format!("iterator status: {e}"));
    }
    Ok(out)
}

fn check_consistent(what: &str, view: &BTreeMap<Vec<u8>, Option<u64>>) -> Result<(), String> {
    for g in 0..GROUPS {
        let gens: Vec<Option<u64>> = (0..KEYS_PER_GROUP).map(|i| view[&key(g, i)]).collect();
        // a generation either writes all keys of the group, or (every 7th generation) deletes the odd keys
        let present: Vec<u64> = gens.iter().flatten().copied().collect();
        if present.is_empty() {
            continue;
        }
        let first = present[0];
        if present.iter().any(|g| *g != first) {
            return Err(format!("{what}: group {g} shows mixed generations {:?}", gens));
        }
    }
    Ok(())
}

fn run(seed: u64, millis: u64, memtable: usize, file: u64, block: usize, pad: usize) -> Result<(), String> {
    let mut options = DbOptions::with_memory_env();
    options.filesystem_provider = Arc::new(InMemoryFileSystem::new());
    options.create_if_missing = true;
    options.db_path = format!("/audit-conc-{seed}");
    options.max_memtable_size = memtable;
    options.max_file_size = file;
    options.max_block_size = block;
    let db = Arc::new(DB::open(options).map_err(|e| format!("open: {e}"))?);

    let stop = Arc::new(AtomicBool::new(false));
    let gen_counter = Arc::new(AtomicU64::new(0));
    let errors: Arc<parking_lot_like::Mutex<Vec<String>>> = Arc::new(parking_lot_like::Mutex::new(vec![]));

    let mut handles = vec![];
    // writers
    for w in 0..2 {
        let db = Arc::clone(&db);
        let stop = Arc::clone(&stop);
        let gen_counter = Arc::clone(&gen_counter);
        let errors = Arc::clone(&errors);
        handles.push(thread::spawn(move || {
            let mut n = 0u64;
            while !stop.load(Ordering::Relaxed) {
                n += 1;
                // each writer owns half of the groups so that generations per group are ordered
                let g = (w + 2 * ((n as usize) % (GROUPS / 2))) % GROUPS;
                let gen = gen_counter.fetch_add(1, Ordering::SeqCst) + 1;
                let mut batch = Batch::new();
                for i in 0..KEYS_PER_GROUP {
                    if gen % 7 == 0 && i % 2 == 1 {
                        batch.add_delete(key(g, i));
                    } else {
                        batch.add_put(key(g, i), value(gen, pad));
                    }
                }
                if let Err(e) = db.apply(WriteOptions::default(), batch) {
                    errors.lock().push(format!("writer {w}: apply failed: {e}"));
                    return;
                }
                if n % 50 == 0 {
                    let lo = key(g, 0);
                    let hi = key(g, KEYS_PER_GROUP - 1);
                    if n % 200 == 0 {
                        db.compact_range(None..None);
                    } else {
                        db.compact_range(Some(lo.as_slice())..Some(hi.as_slice()));
                    }
                }
            }
        }));
    }
    // readers
    for r in 0..3 {
        let db = Arc::clone(&db);
        let stop = Arc::clone(&stop);
        let errors = Arc::clone(&errors);
        handles.push(thread::spawn(move || {
            let mut held: Vec<(Snapshot, BTreeMap<Vec<u8>, Option<u64>>, Instant)> = vec![];
            let mut held_iters = Vec::new();
            let mut round = 0u64;
            while !stop.load(Ordering::Relaxed) {
                round += 1;
                // long-lived iterators without an explicit snapshot
                if round % 3 == 0 {
                    let mut it = match db.new_iterator(ReadOptions::default()) {
                        Ok(it) => it,
                        Err(e) => {
                            errors.lock().push(format!("reader {r}: new_iterator: {e}"));
                            return;
                        }
                    };
                    match scan(&mut it, false) {
                        Ok(view) => {
                            if let Err(e) = check_consistent(&format!("reader {r} round {round}: fresh iterator"), &view) {
                                errors.lock().push(e);
                                return;
                            }
                            held_iters.push((it, view, Instant::now()));
                        }
                        Err(e) => {
                            errors.lock().push(format!("reader {r}: {e}"));
                            return;
                        }
                    }
                }
                if !held_iters.is_empty() {
                    let idx = (round as usize * 5 + r) % held_iters.len();
                    let (it, first, taken) = &mut held_iters[idx];
                    for backward in [true, false] {
                        match scan(it, backward) {
                            Ok(view) => {
                                if &view != first {
                                    let diff: Vec<String> = view
                                        .iter()
                                        .filter(|(k, v)| first[*k] != **v)
                                        .map(|(k, v)| format!("{}: first scan {:?}, now {:?}", String::from_utf8_lossy(k), first[k], v))
                                        .collect();
                                    errors.lock().push(format!(
                                        "reader {r} round {round}: iterator aged {:?} scanned again (backward={backward}) differs from its first scan: {}",
                                        taken.elapsed(),
                                        diff.join("; ")
                                    ));
                                    return;
                                }
                            }
                            Err(e) => {
                                errors.lock().push(format!("reader {r}: held iterator: {e}"));
                                return;
                            }
                        }
                    }
                    if held_iters.len() > 4 {
                        held_iters.remove(0);
                    }
                }
                let snap = db.get_snapshot();
                let first = match read_by_get(&db, &snap) {
                    Ok(v) => v,
                    Err(e) => {
                        errors.lock().push(format!("reader {r}: {e}"));
                        return;
                    }
                };
                if let Err(e) = check_consistent(&format!("reader {r} round {round}: fresh snapshot via get"), &first) {
                    errors.lock().push(e);
                    return;
                }
                held.push((snap, first, Instant::now()));

                // re-check a held snapshot
                let idx = (round as usize * 7 + r) % held.len();
                let (snap, first, taken) = &held[idx];
                let age = taken.elapsed();
                for (name, res) in [
                    ("get", read_by_get(&db, snap)),
                    ("forward iteration", read_by_iter(&db, snap, false)),
                    ("backward iteration", read_by_iter(&db, snap, true)),
                ] {
                    match res {
                        Ok(view) => {
                            if &view != first {
                                let diff: Vec<String> = view
                                    .iter()
                                    .filter(|(k, v)| first[*k] != **v)
                                    .map(|(k, v)| format!("{}: first read {:?}, now {:?}", String::from_utf8_lossy(k), first[k], v))
                                    .collect();
                                errors.lock().push(format!(
                                    "reader {r} round {round}: snapshot aged {:?} read again through {name} differs from its first read: {}",
                                    age,
                                    diff.join("; ")
                                ));
                                return;
                            }
                        }
                        Err(e) => {
                            errors.lock().push(format!("reader {r}: {name}: {e}"));
                            return;
                        }
                    }
                }
                if held.len() > 5 {
                    let (snap, _, _) = held.remove(0);
                    db.release_snapshot(snap);
                }
            }
            drop(held_iters);
            for (snap, _, _) in held {
                db.release_snapshot(snap);
            }
        }));
    }

    let deadline = Instant::now() + Duration::from_millis(millis);
    while Instant::now() < deadline && errors.lock().is_empty() {
        thread::sleep(Duration::from_millis(20));
    }
    stop.store(true, Ordering::Relaxed);
    for h in handles {
        h.join().map_err(|_| "a thread panicked".to_string())?;
    }
    let errs = errors.lock().clone();
    eprintln!("seed {seed}: generations written {}", gen_counter.load(Ordering::SeqCst));
    if errs.is_empty() {
        Ok(())
    } else {
        Err(errs.join("\n"))
    }
}

mod parking_lot_like {
    pub struct Mutex<T>(std::sync::Mutex<T>);
    impl<T> Mutex<T> {
        pub fn new(t: T) -> Self {
            Mutex(std::sync::Mutex::new(t))
        }
        pub fn lock(&self) -> std::sync::MutexGuard<'_, T> {
            self.0.lock().unwrap()
        }
    }
}

#[test]
fn concurrent_snapshot_stability() {
    let millis: u64 = std::env::var("CONC_MILLIS").ok().and_then(|s| s.parse().ok()).unwrap_or(4000);
    let configs = [
        (1500usize, 1000u64, 200usize, 20usize),
        (600, 300, 64, 5),
        (4000, 4000, 1000, 200),
        (16000, 2000, 4096, 60),
    ];
    let mut failures = vec![];
    for (i, (m, f, b, p)) in configs.iter().enumerate() {
        if let Err(e) = run(i as u64, millis, *m, *f, *b, *p) {
            eprintln!("FAIL config {i}: {e}");
            failures.push(e);
        }
    }
    assert!(failures.is_empty(), "{}", failures.join("\n"));
}
