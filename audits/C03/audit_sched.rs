// Exploratory deterministic schedules (cargo feature `verif`): a thread is parked at a named
// scheduling point while other threads change the database, then it is released.
#![cfg(feature = "verif")]

use std::collections::{BTreeMap, HashMap};
use std::sync::{Arc, Condvar, Mutex};
use std::thread;
use std::time::{Duration, Instant};

use raindb::fs::InMemoryFileSystem;
use raindb::{DbOptions, RainDbIterator, ReadOptions, Snapshot, WriteOptions, DB};

#[derive(Default)]
struct GateState {
    /// points at which the next arriving thread (with the given name filter) parks
    armed: HashMap<&'static str, Option<String>>,
    /// points at which a thread is parked right now
    parked: HashMap<&'static str, bool>,
    /// points released
    released: HashMap<&'static str, bool>,
}

#[derive(Default)]
struct Gate {
    state: Mutex<GateState>,
    cv: Condvar,
}

impl Gate {
    fn arm(&self, point: &'static str, thread_name: Option<&str>) {
        let mut st = self.state.lock().unwrap();
        st.armed.insert(point, thread_name.map(|s| s.to_string()));
        st.parked.remove(point);
        st.released.remove(point);
    }
    fn wait_parked(&self, point: &'static str) {
        let deadline = Instant::now() + Duration::from_secs(20);
        let mut st = self.state.lock().unwrap();
        while !st.parked.get(point).copied().unwrap_or(false) {
            let (g, _) = self.cv.wait_timeout(st, Duration::from_millis(50)).unwrap();
            st = g;
            assert!(Instant::now() < deadline, "nobody reached scheduling point {point}");
        }
    }
    fn release(&self, point: &'static str) {
        let mut st = self.state.lock().unwrap();
        st.released.insert(point, true);
        self.cv.notify_all();
    }
}

impl raindb::verif::Handler for Gate {
    fn pause(&self, point: &'static str, _args: &[u64]) {
        let mut st = self.state.lock().unwrap();
        let matches = match st.armed.get(point) {
            None => false,
            Some(None) => true,
            Some(Some(name)) => thread::current().name().map_or(false, |n| n == name),
        };
        if !matches {
            return;
        }
        st.armed.remove(point);
        st.parked.insert(point, true);
        self.cv.notify_all();
        while !st.released.get(point).copied().unwrap_or(false) {
            st = self.cv.wait(st).unwrap();
        }
        st.parked.insert(point, false);
    }
    fn note(&self, _point: &'static str, _args: &[u64]) {}
}

type Model = BTreeMap<Vec<u8>, Vec<u8>>;

fn k(i: usize) -> Vec<u8> {
    format!("key{:03}", i).into_bytes()
}

fn open(tag: &str) -> DB {
    let mut options = DbOptions::with_memory_env();
    options.filesystem_provider = Arc::new(InMemoryFileSystem::new());
    options.create_if_missing = true;
    options.db_path = format!("/audit-sched-{tag}");
    options.max_memtable_size = 64 * 1024;
    options.max_file_size = 700;
    options.max_block_size = 120;
    DB::open(options).unwrap()
}

fn flush(db: &DB) {
    let hi = vec![0xffu8; 4];
    db.compact_range(Some(hi.as_slice())..Some(hi.as_slice()));
}

fn scan<I>(iter: &mut I, backward: bool) -> Vec<(Vec<u8>, Vec<u8>)>
where
    I: RainDbIterator<Key = Vec<u8>, Error = raindb::RainDBError>,
{
    let mut out = vec![];
    if backward {
        iter.seek_to_last().unwrap();
    } else {
        iter.seek_to_first().unwrap();
    }
    while iter.is_valid() {
        let (key, value) = iter.current().unwrap();
        out.push((key.clone(), value.clone()));
        if backward {
            iter.prev();
        } else {
            iter.next();
        }
    }
    assert!(iter.status().is_none(), "iterator error: {:?}", iter.status());
    if backward {
        out.reverse();
    }
    out
}

fn check_snapshot(what: &str, db: &DB, snap: &Snapshot, model: &Model) {
    for i in 0..45 {
        let key = k(i);
        let got = match db.get(ReadOptions { fill_cache: true, snapshot: Some(snap.clone()) }, &key) {
            Ok(v) => Some(v),
            Err(raindb::RainDBError::KeyNotFound) => None,
            Err(e) => panic!("{what}: get failed: {e}"),
        };
        assert_eq!(got.as_ref(), model.get(&key), "{what}: get({}) at the snapshot differs from the state when the snapshot was taken", String::from_utf8_lossy(&key));
    }
    let want: Vec<(Vec<u8>, Vec<u8>)> = model.iter().map(|(a, b)| (a.clone(), b.clone())).collect();
    for backward in [false, true] {
        let mut iter = db.new_iterator(ReadOptions { fill_cache: true, snapshot: Some(snap.clone()) }).unwrap();
        assert_eq!(scan(&mut iter, backward), want, "{what}: iteration (backward={backward}) at the snapshot differs from the state when the snapshot was taken");
    }
}

fn load(db: &DB, model: &mut Model, gen: &str, keys: impl Iterator<Item = usize>) {
    for i in keys {
        let v = format!("{gen}-{i:03}-{}", "x".repeat(30)).into_bytes();
        db.put(WriteOptions::default(), k(i), v.clone()).unwrap();
        model.insert(k(i), v);
    }
}

fn churn(db: &DB, model: &mut Model, round: usize) {
    load(db, model, &format!("c{round}a"), (0..40).step_by(2));
    for i in (1..40).step_by(3) {
        db.delete(WriteOptions::default(), k(i)).unwrap();
        model.remove(&k(i));
    }
    flush(db);
    load(db, model, &format!("c{round}b"), (0..40).step_by(3));
    db.compact_range(None..None);
}

/// All schedules run in one test because the hook handler is process wide.
#[test]
fn parked_readers_writers_and_background_work() {
    let gate = Arc::new(Gate::default());
    raindb::verif::set_handler(Some(gate.clone()));

    // --- S1: a get at a snapshot is parked at each of its three unlocked points while the
    // database is rewritten, compacted and garbage collected.
    for point in ["get.unlocked", "get.before_imm", "get.before_tables"] {
        let db = Arc::new(open(&format!("s1-{point}")));
        let mut model = Model::new();
        load(&db, &mut model, "g1", 0..40);
        db.compact_range(None..None);
        load(&db, &mut model, "g2", (0..40).step_by(2));
        flush(&db);
        load(&db, &mut model, "g3", (0..40).step_by(5));
        let snap = db.get_snapshot();
        let snap_model = model.clone();

        gate.arm(point, Some("parked-reader"));
        let reader = {
            let db = Arc::clone(&db);
            let snap = snap.clone();
            thread::Builder::new()
                .name("parked-reader".to_string())
                .spawn(move || {
                    let mut out = vec![];
                    for i in [0usize, 1, 2, 5, 10, 39, 41] {
                        let r = match db.get(ReadOptions { fill_cache: false, snapshot: Some(snap.clone()) }, &k(i)) {
                            Ok(v) => Some(v),
                            Err(raindb::RainDBError::KeyNotFound) => None,
                            Err(e) => panic!("get failed: {e}"),
                        };
                        out.push((k(i), r));
                    }
                    out
                })
                .unwrap()
        };
        gate.wait_parked(point);
        for round in 0..3 {
            churn(&db, &mut model, round);
        }
        gate.release(point);
        let results = reader.join().unwrap();
        for (key, got) in results {
            assert_eq!(got.as_ref(), snap_model.get(&key), "S1 {point}: get({}) at the snapshot, parked during churn", String::from_utf8_lossy(&key));
        }
        check_snapshot(&format!("S1 {point} afterwards"), &db, &snap, &snap_model);
        db.release_snapshot(snap);
    }

    // --- S2: a writer is parked after it has inserted into the memtable but before the sequence
    // number is published. Snapshots and iterators taken now must not contain the write, ever.
    for point in ["write.after_wal", "write.after_mem"] {
        let db = Arc::new(open(&format!("s2-{point}")));
        let mut model = Model::new();
        load(&db, &mut model, "g1", 0..40);
        flush(&db);
        load(&db, &mut model, "g2", (0..40).step_by(2));

        gate.arm(point, Some("parked-writer"));
        let writer = {
            let db = Arc::clone(&db);
            thread::Builder::new()
                .name("parked-writer".to_string())
                .spawn(move || {
                    let mut batch = raindb::Batch::new();
                    for i in 0..45 {
                        if i % 4 == 0 {
                            batch.add_delete(k(i));
                        } else {
                            batch.add_put(k(i), format!("inflight-{i}").into_bytes());
                        }
                    }
                    db.apply(WriteOptions::default(), batch).unwrap();
                })
                .unwrap()
        };
        gate.wait_parked(point);
        let snap = db.get_snapshot();
        let snap_model = model.clone();
        let mut held = db.new_iterator(ReadOptions::default()).unwrap();
        check_snapshot(&format!("S2 {point}: while the write is in flight"), &db, &snap, &snap_model);
        gate.release(point);
        writer.join().unwrap();
        for i in 0..45 {
            if i % 4 == 0 {
                model.remove(&k(i));
            } else {
                model.insert(k(i), format!("inflight-{i}").into_bytes());
            }
        }
        check_snapshot(&format!("S2 {point}: after the write completed"), &db, &snap, &snap_model);
        for round in 0..2 {
            churn(&db, &mut model, round);
        }
        check_snapshot(&format!("S2 {point}: after churn"), &db, &snap, &snap_model);
        let want: Vec<(Vec<u8>, Vec<u8>)> = snap_model.iter().map(|(a, b)| (a.clone(), b.clone())).collect();
        assert_eq!(scan(&mut held, false), want, "S2 {point}: iterator created while the write was in flight (forward)");
        assert_eq!(scan(&mut held, true), want, "S2 {point}: iterator created while the write was in flight (backward)");
        drop(held);
        db.release_snapshot(snap);
    }

    // --- S3: a flush is parked before/after building its table; a table compaction is parked in
    // the middle; garbage collection is parked before deleting. Snapshots and iterators taken in
    // those windows stay stable.
    for point in ["flush.before_build", "flush.after_build", "compact.step", "gc.before_delete", "gc.delete_one", "manifest.before_append", "manifest.after_append"] {
        let db = Arc::new(open(&format!("s3-{point}")));
        let mut model = Model::new();
        load(&db, &mut model, "g1", 0..40);
        db.compact_range(None..None);
        load(&db, &mut model, "g2", (0..40).step_by(2));
        flush(&db);
        load(&db, &mut model, "g3", (0..40).step_by(5));
        for i in (3..40).step_by(7) {
            db.delete(WriteOptions::default(), k(i)).unwrap();
            model.remove(&k(i));
        }
        let snap0 = db.get_snapshot();
        let snap0_model = model.clone();
        load(&db, &mut model, "g4", (1..40).step_by(4));

        gate.arm(point, None);
        let compactor = {
            let db = Arc::clone(&db);
            thread::spawn(move || {
                db.compact_range(None..None);
            })
        };
        gate.wait_parked(point);
        // taken while the background thread is parked in the middle of its work
        let snap1 = db.get_snapshot();
        let snap1_model = model.clone();
        let mut held = db.new_iterator(ReadOptions::default()).unwrap();
        // small writes only: the background thread is parked and cannot flush
        for i in (0..40).step_by(6) {
            let v = format!("late-{i}").into_bytes();
            db.put(WriteOptions::default(), k(i), v.clone()).unwrap();
            model.insert(k(i), v);
        }
        for i in (2..40).step_by(9) {
            db.delete(WriteOptions::default(), k(i)).unwrap();
            model.remove(&k(i));
        }
        check_snapshot(&format!("S3 {point}: older snapshot, background work parked"), &db, &snap0, &snap0_model);
        check_snapshot(&format!("S3 {point}: snapshot taken while background work parked"), &db, &snap1, &snap1_model);
        gate.release(point);
        compactor.join().unwrap();
        for round in 0..2 {
            churn(&db, &mut model, round);
        }
        check_snapshot(&format!("S3 {point}: older snapshot after churn"), &db, &snap0, &snap0_model);
        check_snapshot(&format!("S3 {point}: mid-work snapshot after churn"), &db, &snap1, &snap1_model);
        let want: Vec<(Vec<u8>, Vec<u8>)> = snap1_model.iter().map(|(a, b)| (a.clone(), b.clone())).collect();
        assert_eq!(scan(&mut held, false), want, "S3 {point}: iterator created while background work was parked (forward)");
        assert_eq!(scan(&mut held, true), want, "S3 {point}: iterator created while background work was parked (backward)");
        drop(held);
        db.release_snapshot(snap0);
        db.release_snapshot(snap1);
    }

    raindb::verif::set_handler(None);
}
